"""C01 - a row reported as solved is balanced (structural chain).

R1  who may write the solved column, and under which guard
R2  the verdict is about the current text of the validator's own column
R3  validated write: a stage rewriting the reaction of rows selected because
    they are solved needs a later fresh-verdict revert / demotion
R4  the comparator returns "Balance" only under key-set and value equality
R5  = C07-E1 (element labelling injective)
"""

from __future__ import annotations

import ast
from typing import Dict, List, Optional, Set, Tuple

from ..cfg import CFG, normal_compare, split_cond
from ..model import AnalysisError, Func, dotted, own_nodes, unparse
from ..pipeline import Pipeline, Stage
from ..rows import RowStore, package_stores
from ..util import arg_of, assignments_to, calls, const_str, enclosing_stmt, same_block_before, zip_partner
from ..values import Env, Val, texts
from .. import stageclass
from ..stageclass import _reverts_on_fresh_labels, _restores_saved_text
from . import c07

EXPLANATION = (
    "Decides the structural chain behind C01, not the behaviour: (R1) the solved column can only become True inside a branch "
    "dominated by the side-comparison verdict 'Balance' (def-use: the label comes from RSMIComparator.compare_dicts, zipped with the "
    "row) and by the carbon label 'balanced', with the method column written in the same branch; every other store of the column is "
    "the constant False; (R2) the validator refreshes reactants/products from its own reaction column before decomposing, feeds "
    "those to the decomposer/comparator and checks carbon on the same column, and all validators are bound to the returned column; "
    "(R3) in Balancer.__run_pipeline every stage that rewrites the reaction of rows that may already be solved is either guarded by "
    "a balance verdict of what it writes or followed by a validator pass and a revert/demotion that is control-dependent on the "
    "fresh labels; (R4) compare_dicts returns 'Balance' only under key-set equality and all-values equality and is its only "
    "producer; (R5) element keys are injective (shared with C07-E1)."
    ' (R6) the solved flag is reset for every row before the input check (shared with C04-G6).'
    ' (R7) every molecule of the shipped reagent templates parses.'
    ' (R3, path) the final validation is completed on every path of __run_pipeline from a stage that rewrites possibly-solved rows to the exit, exception edges into fall-through handlers included.'
)
ASSUMPTIONS = [
    "RDKit's counts are the true composition (C07 behavioural part, not decided)",
    "rows are the dict objects threaded through Balancer.__run_pipeline (alias analysis of synlint.rows)",
]

VALIDATOR_CHECK = "synrbl.postprocess.Validator.check"
COMPARE = c07.COMPARE
RUN_PARALLEL = c07.RUN_PARALLEL
DECOMPOSER = "synrbl.SynProcessor.rsmi_decomposer.RSMIDecomposer"
UPDATE_RP = "synrbl.SynUtils.common.update_reactants_and_products"
CARBON_CLS = "synrbl.SynProcessor.check_carbon_balance.CheckCarbonBalance"


# ------------------------------------------------------------------- helpers


def comparator_label_names(ctx, f: Func) -> Set[str]:
    """Local names bound (by zip in lockstep with the rows, or by indexing)
    to an element of the comparator's label list."""
    lists = c07._label_lists(ctx, f)
    out = set()
    for n in own_nodes(f.node):
        if isinstance(n, (ast.For, ast.comprehension)) and isinstance(n.iter, ast.Call) and isinstance(n.iter.func, ast.Name) and n.iter.func.id == "zip":
            if isinstance(n.target, ast.Tuple):
                for t, a in zip(n.target.elts, n.iter.args):
                    if isinstance(t, ast.Name) and isinstance(a, ast.Name) and a.id in lists:
                        out.add(t.id)
    return out


def run_parallel_first_is_compare(ctx) -> bool:
    """RSMIComparator.run_parallel returns (labels from compare_dicts, ...)"""
    f = ctx.prog.func(RUN_PARALLEL)
    for r in [n for n in own_nodes(f.node) if isinstance(n, ast.Return)]:
        v = r.value
        if not (isinstance(v, ast.Tuple) and v.elts):
            return False
        first = v.elts[0]
        src = first
        if isinstance(first, ast.Name):
            asg = assignments_to(f, first.id)
            if len(asg) != 1:
                return False
            src = asg[0][1]
        # Parallel(...)(delayed(self.compare_dicts)(a, b) for ...), or a list comprehension
        found = False
        for c in ast.walk(src):
            if isinstance(c, ast.Call):
                tgt = ctx.res.resolve_callee(c, f)
                if tgt and tgt[0] == "func" and tgt[1] == COMPARE:
                    found = True
        if not found:
            return False
    return True


def balance_atoms(ctx, store: RowStore, label_names: Set[str], unb_keys: Set[str], carbon_keys: Set[str]) -> Tuple[bool, bool, bool]:
    """(guarded by label == 'Balance', guarded by carbon == 'balanced', guarded by not solved)"""
    has_bal = has_carbon = False
    for a in store.atoms:
        if a.kind == "var" and a.name in label_names and a.op == "==" and a.value == "Balance":
            has_bal = True
        if a.kind == "cmp" and a.keys & unb_keys and a.op == "==" and a.value == "Balance":
            has_bal = True
        if a.kind == "cmp" and a.keys & carbon_keys and a.op == "==" and a.value == "balanced":
            has_carbon = True
    return has_bal, has_carbon, any(a.kind == "truth" and a.op == "not" for a in store.atoms)


# ------------------------------------------------------------------------ R1


def rule_r1(ctx, pl: Pipeline) -> None:
    ctx.rule("C01-R1", "store to the solved column: constant False, or True dominated by label=='Balance' and carbon=='balanced' with the method written alongside", 3)
    solved = pl.solved_col
    solved_by = pl.solved_by_col
    bal = ctx.balancer
    unb_keys = texts(bal.get("__unbalance_col"))
    carbon_keys = texts(bal.get("__carbon_balance_col"))
    seen_nodes = set()
    # (a) stores reached from the pipeline with resolved environments
    per_stage_true = {}
    for st in pl.stages:
        for s in st.stores:
            if solved.text not in s.keytexts:
                continue
            key = (s.func.qualname, s.node.lineno, st.attr)
            seen_nodes.add(id(s.node))
            v = s.value
            where = s.where()
            cname = "%s:%s" % (s.func.qualname.split("synrbl.", 1)[-1], solved.text)
            if s.kind != "assign":
                ctx.instance("C01-R1", "%s %s via stage %s" % (cname, s.kind, st.label), where, ok=False)
                ctx.finding("C01-R1", cname + ":" + s.kind, where, "solved column modified by a non-assignment (%s)" % s.kind)
                continue
            if isinstance(v, ast.Constant) and v.value is False:
                ctx.instance("C01-R1", "%s := False via stage %s" % (cname, st.label), where, ok=True, guards=[repr(a) for a in s.atoms])
                continue
            if isinstance(v, ast.Constant) and v.value is True:
                labels = comparator_label_names(ctx, s.func)
                has_bal, has_carbon, _ = balance_atoms(ctx, s, labels, unb_keys, carbon_keys)
                # the validator instance must have its carbon column populated:
                # either it checks carbon itself or an earlier validator did
                ok = has_bal and has_carbon
                # method column written in the same block from the instance's method
                method_ok = False
                for s2 in st.stores:
                    if s2.func is s.func and solved_by.text in s2.keytexts and same_or_adjacent(s.node, s2.node):
                        mv = ctx.ev.eval(s2.value, s2.env) if s2.value is not None else frozenset()
                        inst_method = st.inst.get("method") if st.inst is not None else frozenset()
                        if mv and mv == inst_method and all(x.kind == "const" for x in mv):
                            method_ok = True
                ctx.instance(
                    "C01-R1",
                    "%s := True via stage %s" % (cname, st.label),
                    where,
                    ok=ok and method_ok,
                    guards=[repr(a) for a in s.atoms],
                )
                if not has_bal:
                    ctx.finding("C01-R1", cname + ":True:no-balance-guard", where, "solved is set True without being dominated by the comparator verdict == 'Balance' (guards: %s)" % [repr(a) for a in s.atoms])
                if not has_carbon:
                    ctx.finding("C01-R1", cname + ":True:no-carbon-guard", where, "solved is set True without being dominated by carbon label == 'balanced' (guards: %s)" % [repr(a) for a in s.atoms])
                if not method_ok:
                    ctx.finding("C01-R1", cname + ":True:method", where, "the method column is not written next to solved := True from the validator's method literal")
                per_stage_true[st.index] = s
                continue
            ctx.instance("C01-R1", "%s := %s via stage %s" % (cname, unparse(v)[:30], st.label), where, ok=False)
            ctx.finding("C01-R1", cname + ":non-constant", where, "solved column receives a non-constant value %s" % unparse(v)[:60])
    # DataFrame column stores of stage functions (preprocess)
    for st in pl.stages:
        for ks in st.frame_stores:
            if solved.text not in ks.keytexts:
                continue
            seen_nodes.add(id(ks.node))
            cname = "%s:%s" % (ks.func.qualname.split("synrbl.", 1)[-1], solved.text)
            okf = isinstance(ks.value, ast.Constant) and ks.value.value is False and ks.kind == "assign"
            ctx.instance("C01-R1", "%s := %s (column init in stage %s)" % (cname, unparse(ks.value)[:20], st.label), ks.where(), ok=okf)
            if not okf:
                ctx.finding("C01-R1", cname + ":column-init", ks.where(), "the solved column is initialised with %s instead of the constant False" % unparse(ks.value)[:40])
    # label provenance: labels come from compare_dicts
    ok_rp = run_parallel_first_is_compare(ctx)
    ctx.instance("C01-R1", "RSMIComparator.run_parallel returns labels computed by compare_dicts", ctx.prog.func(RUN_PARALLEL).loc(), ok=ok_rp)
    if not ok_rp:
        ctx.finding("C01-R1", "RSMIComparator.run_parallel:labels", ctx.prog.func(RUN_PARALLEL).loc(), "first result of run_parallel is no longer the list of compare_dicts verdicts")
    # (b) package-wide: any other store whose key is the solved column
    for ks in package_stores(ctx):
        if id(ks.node) in seen_nodes:
            continue
        if solved.text not in ks.keytexts:
            continue
        if not ks.func.qualname.startswith("synrbl."):
            continue
        v = ks.value
        where = ks.where()
        cname = "%s:%s" % (ks.func.qualname.split("synrbl.", 1)[-1], solved.text)
        if isinstance(v, ast.Constant) and v.value is False and ks.kind == "assign":
            ctx.instance("C01-R1", "%s := False (package scan)" % cname, where, ok=True)
            continue
        ctx.instance("C01-R1", "%s := %s (package scan)" % (cname, unparse(v)[:30] if v is not None else ks.kind), where, ok=False)
        ctx.finding("C01-R1", cname + ":outside-validator", where, "store to the solved column outside a validator: %s" % unparse(ks.node)[:80])
    n_true = len(per_stage_true)
    ctx.require(n_true >= 1, "no validator stage sets solved := True any more (Validator.check restructured)")


def same_or_adjacent(a: ast.AST, b: ast.AST) -> bool:
    sa, sb = enclosing_stmt(a), enclosing_stmt(b)
    pa, pb = getattr(sa, "_parent", None), getattr(sb, "_parent", None)
    return pa is pb


# ------------------------------------------------------------------------ R2


def rule_r2(ctx, pl: Pipeline, rule_id: str = "C01-R2") -> None:
    ctx.rule(rule_id, "validator verdict is computed from the current text of its own reaction column", 5)
    prog = ctx.prog
    f = prog.func(VALIDATOR_CHECK)
    cfg = CFG(f.node)
    rows = f.params[1] if len(f.params) > 1 else None
    ctx.require(rows is not None, "Validator.check lost its rows parameter")
    # instance-independent structure
    upd_call = dec_ctor = dd_call = cmp_call = carbon_ctor = None
    for c in calls(f):
        tgt = ctx.res.resolve_callee(c, f)
        if tgt and tgt[0] == "func" and tgt[1] == UPDATE_RP and upd_call is None:
            upd_call = c
        elif tgt and tgt[0] == "class" and tgt[1] == DECOMPOSER:
            dec_ctor = c
        elif tgt and tgt[0] == "func" and tgt[1] == DECOMPOSER + ".data_decomposer":
            dd_call = c
        elif tgt and tgt[0] == "func" and tgt[1] == RUN_PARALLEL:
            cmp_call = c
        elif tgt and tgt[0] == "class" and tgt[1] == CARBON_CLS:
            carbon_ctor = c
    where = f.loc()
    cname = "postprocess.Validator.check"
    for nm, c in (("update_reactants_and_products", upd_call), ("RSMIDecomposer(...)", dec_ctor), ("data_decomposer()", dd_call), ("run_parallel(...)", cmp_call), ("CheckCarbonBalance(...)", carbon_ctor)):
        if c is None:
            raise AnalysisError("Validator.check: anchor call %s not found" % nm)
    # (i) refresh dominates decomposition, on the rows parameter and the instance's column
    upd = prog.func(UPDATE_RP)
    a_rows = arg_of(upd_call, upd, upd.params[0])
    a_col = arg_of(upd_call, upd, upd.params[1])
    ok1 = isinstance(a_rows, ast.Name) and a_rows.id == rows and cfg.dominates(cfg.node_of(upd_call), cfg.node_of(dd_call))
    from ..util import param_attrs

    rc_attrs = param_attrs(f.cls, "reaction_col")
    ok1 = ok1 and isinstance(a_col, ast.Attribute) and a_col.attr in rc_attrs
    ctx.instance(rule_id, "refresh of reactants/products dominates decomposition", f.loc(upd_call), ok=ok1)
    if not ok1:
        ctx.finding(rule_id, cname + ":refresh", f.loc(upd_call), "update_reactants_and_products(rows, self.reaction_col) does not dominate data_decomposer() - the verdict may be about stale text")
    # (ii) decomposer is fed the rows and the two refreshed fields
    denv = Env(func=upd)
    defaults = upd.param_defaults()
    written = set()
    for p in ("reactants_col", "products_col"):
        given = arg_of(upd_call, upd, p)
        e = given if given is not None else defaults.get(p)
        written |= texts(ctx.ev.eval(e, Env(func=f))) if e is not None else set()
    init = prog.lookup_method(prog.cls(DECOMPOSER), "__init__")
    d_data = arg_of(dec_ctor, init, "data", skip_self=True)
    d_rc = arg_of(dec_ctor, init, "reactant_col", skip_self=True) or init.param_defaults().get("reactant_col")
    d_pc = arg_of(dec_ctor, init, "product_col", skip_self=True) or init.param_defaults().get("product_col")
    rc, pc = texts(ctx.ev.eval(d_rc, Env(func=f))), texts(ctx.ev.eval(d_pc, Env(func=f)))
    upd_def = [texts(ctx.ev.eval(defaults.get(p), denv)) for p in ("reactants_col", "products_col")]
    r_given = arg_of(upd_call, upd, "reactants_col")
    p_given = arg_of(upd_call, upd, "products_col")
    r_w = texts(ctx.ev.eval(r_given, Env(func=f))) if r_given is not None else upd_def[0]
    p_w = texts(ctx.ev.eval(p_given, Env(func=f))) if p_given is not None else upd_def[1]
    ok2 = isinstance(d_data, ast.Name) and d_data.id == rows and rc == r_w and pc == p_w and len(rc) == 1 and len(pc) == 1 and rc != pc
    ctx.instance(rule_id, "decomposer reads rows[%s]/rows[%s] refreshed as %s/%s" % (sorted(rc), sorted(pc), sorted(r_w), sorted(p_w)), f.loc(dec_ctor), ok=ok2)
    if not ok2:
        ctx.finding(rule_id, cname + ":decomposer-fields", f.loc(dec_ctor), "decomposer does not read the side fields that the refresh writes (reads %s/%s, refresh writes %s/%s)" % (sorted(rc), sorted(pc), sorted(r_w), sorted(p_w)))
    # (iii) comparator gets the decomposer's two results, reactants first
    rp = prog.func(RUN_PARALLEL)
    a_r = arg_of(cmp_call, rp, "reactants", skip_self=True)
    a_p = arg_of(cmp_call, rp, "products", skip_self=True)
    dd_stmt = enclosing_stmt(dd_call)
    ok3 = False
    if isinstance(dd_stmt, ast.Assign) and isinstance(dd_stmt.targets[0], ast.Tuple) and len(dd_stmt.targets[0].elts) == 2:
        n0, n1 = dd_stmt.targets[0].elts
        ok3 = isinstance(a_r, ast.Name) and isinstance(a_p, ast.Name) and isinstance(n0, ast.Name) and isinstance(n1, ast.Name) and a_r.id == n0.id and a_p.id == n1.id
        ok3 = ok3 and cfg.dominates(cfg.node_of(dd_call), cfg.node_of(cmp_call))
    ctx.instance(rule_id, "comparator receives (reactant compositions, product compositions) of this decomposition", f.loc(cmp_call), ok=ok3)
    if not ok3:
        ctx.finding(rule_id, cname + ":comparator-args", f.loc(cmp_call), "run_parallel is not fed the two results of data_decomposer() in order")
    # (iv) carbon checker on the same rows and column
    cinit = prog.lookup_method(prog.cls(CARBON_CLS), "__init__")
    c_rows = arg_of(carbon_ctor, cinit, cinit.params[1], skip_self=True)
    c_col = arg_of(carbon_ctor, cinit, "rsmi_col", skip_self=True)
    c_atom = arg_of(carbon_ctor, cinit, "atom_type", skip_self=True) or cinit.param_defaults().get("atom_type")
    ok4 = isinstance(c_rows, ast.Name) and c_rows.id == rows and isinstance(c_col, ast.Attribute) and c_col.attr in rc_attrs and const_str(c_atom) == "C"
    ctx.instance(rule_id, "carbon check runs on the same rows/column for atom type C", f.loc(carbon_ctor), ok=ok4)
    if not ok4:
        ctx.finding(rule_id, cname + ":carbon-check-column", f.loc(carbon_ctor), "CheckCarbonBalance is not constructed with (rows, rsmi_col=self.reaction_col, atom_type='C')")
    # (v) every validator of the Balancer is bound to the returned reaction column
    for attr, inst in sorted(ctx.balancer.attr_inst.items()):
        if inst.cls.qualname != "synrbl.postprocess.Validator":
            continue
        v = inst.get("reaction_col")
        ok5 = v == frozenset({pl.reaction_col})
        ctx.instance(rule_id, "Balancer.%s validates column %s" % (attr, sorted(map(str, texts(v)))), "synrbl/balancing.py", ok=ok5)
        if not ok5:
            ctx.finding(rule_id, "Balancer.%s:reaction_col" % attr, "synrbl/balancing.py:1", "validator is bound to column %r, not to the reaction column that is returned (%r)" % (v, pl.reaction_col))
    # the result returned by rebalance is the reaction column
    rb = prog.func("synrbl.balancing.Balancer.rebalance")
    cols = ctx.balancer.get("columns")
    okc = any(x.kind == "list" and pl.reaction_col in x.value for x in cols)
    ctx.instance(rule_id, "Balancer.columns contains the reaction column", rb.loc(), ok=okc)
    if not okc:
        ctx.finding(rule_id, "Balancer.columns:reaction_col", rb.loc(), "the validated reaction column is not among the returned columns")


# ------------------------------------------------------------------------ R3


def rule_r3(ctx, pl: Pipeline) -> None:
    ctx.rule("C01-R3", "a stage that rewrites the reaction of possibly-solved rows is guarded by a verdict on the written value or followed by validator + fresh-label revert/demotion", 5)
    bal = ctx.balancer
    unb_keys = texts(bal.get("__unbalance_col"))
    carbon_keys = texts(bal.get("__carbon_balance_col"))
    for s, ok, how in stageclass.mcs_key_only_on_unsolved(ctx, pl):
        ctx.instance("C01-R3", "MCS key store %s under %s" % (s.where(), how), s.where(), ok=ok)
        if not ok:
            ctx.finding("C01-R3", "%s:mcs-key-on-solved" % s.func.qualname.split("synrbl.", 1)[-1], s.where(), "the MCS data key may be set on a solved row, so 'has MCS key' no longer implies 'was unsolved'")
    for w in stageclass.classify(ctx, pl):
        st, s = w.stage, w.store
        if w.klass not in ("solved-not-input-balanced", "unguarded"):
            ctx.instance("C01-R3", "stage %d %s: %s [%s]" % (st.index, st.label, s.where(), w.klass), s.where(), ok=True, klass=w.klass)
            continue
        ok, how = _validated_write(ctx, pl, st, s, unb_keys, carbon_keys)
        ctx.instance("C01-R3", "stage %d %s: %s [%s] %s" % (st.index, st.label, s.where(), w.klass, how), s.where(), ok=ok, klass=w.klass)
        if not ok:
            ctx.finding(
                "C01-R3",
                w.construct,
                s.where(),
                "stage %d (%s) replaces the reaction of rows that may already be solved, and %s" % (st.index, st.label, how),
                path="__run_pipeline: stage %d %s -> ... -> return" % (st.index, st.label),
            )


def _validated_write(ctx, pl: Pipeline, st: Stage, s: RowStore, unb_keys, carbon_keys) -> Tuple[bool, str]:
    f = s.func
    # form (ii): the store is control dependent on a balance verdict of the written value
    for c, p in s.raw_guards:
        for call in [n for n in ast.walk(c) if isinstance(n, ast.Call)]:
            tgt = ctx.res.resolve_callee(call, f)
            if tgt and tgt[0] == "func":
                reach = ctx.res.reachable([tgt[1]], ctx.graph)
                if COMPARE in reach and s.value is not None and any(unparse(a) == unparse(s.value) for a in call.args):
                    if p:
                        return True, "write is guarded by a balance verdict of the written value (%s)" % unparse(call.func)
    # form (i): later fresh-verdict revert of exactly these rows
    later = [x for x in pl.stages if x.index > st.index]
    val_idx = None
    for x in later:
        if x.callee.qualname == VALIDATOR_CHECK and x.inst is not None:
            # fresh labels for every row: unguarded stores of both label columns
            unb_ok = any(ss.keytexts & unb_keys and not [a for a in ss.atoms if a.kind != "param"] for ss in x.stores)
            carbon_ok = any(ss.keytexts & carbon_keys for ss in x.stores) and x.inst.get("check_carbon_balance") == frozenset({Val("const", True)})
            if unb_ok and carbon_ok:
                val_idx = x.index
    if val_idx is None:
        return False, "no later validator pass recomputes both labels for every row"
    # the validation is on every path from the rewriting stage to the end of the pipeline function: a handler that
    # swallows a fault of a statement before it (or of the validation itself) leaves the labels of before the rewrite
    skipped = _validation_skippable(pl, st, [x for x in later if x.index == val_idx][0])
    if skipped:
        return False, "the final validation (stage %d) can be skipped: %s" % (val_idx, skipped)
    for x in later:
        if x.index <= val_idx:
            continue
        for ss in x.stores:
            if pl.reaction_col.text not in ss.keytexts:
                continue
            if any(a.kind == "truth" and a.op == "not" and pl.solved_col.text in a.keys for a in ss.atoms):
                continue
            if _reverts_on_fresh_labels(ctx, ss, unb_keys, carbon_keys) and _restores_saved_text(ctx, pl, st, s, x, ss):
                # no reaction writer between the validator and the revert other than unsolved-only ones
                between = [y for y in pl.stages if val_idx < y.index < x.index]
                dirty = [y for y in between for z in y.stores if pl.reaction_col.text in z.keytexts]
                if dirty:
                    return False, "a reaction writer (%s) sits between the final validation and the revert" % dirty[0].label
                return True, "reverted by stage %d (%s) on fresh labels" % (x.index, x.label)
    # form (iii): a later validator demotes solved rows on fresh labels
    for x in later:
        for ss in x.stores:
            if pl.solved_col.text in ss.keytexts and isinstance(ss.value, ast.Constant) and ss.value.value is False:
                if not any(a.kind == "truth" and a.op == "not" for a in ss.atoms) and _reverts_on_fresh_labels(ctx, ss, unb_keys, carbon_keys):
                    return True, "demoted by stage %d (%s) on fresh labels" % (x.index, x.label)
    return False, (
        "the only later validator pass (stage %d) guards both promotion and revert with `not solved`, so an unbalanced replacement stays solved"
        % val_idx
    )


def _validation_skippable(pl: Pipeline, st: Stage, val: Stage) -> Optional[str]:
    """A path in the pipeline function from the rewriting stage to the normal exit that does not complete the validator
    statement (exception edges into handlers that fall through included) -> description, else None."""
    cfg = CFG(pl.func.node)
    a, v = cfg.node_of(st.stmt), cfg.node_of(val.stmt)
    if a is None or v is None:
        return None  # stage inlined from a helper: the helper's statements are not nodes of this graph
    seen, stack = set(), [a]
    while stack:
        x = stack.pop()
        if x in seen:
            continue
        seen.add(x)
        n = cfg.nodes[x]
        if x == v:
            # completed normally: fine; a fault of the validation itself caught by a handler goes on
            stack.extend(y for y in n.succ if cfg.nodes[y].kind == "handler")
            continue
        if x == cfg.exit:
            hs = [cfg.nodes[y] for y in seen if cfg.nodes[y].kind == "handler"]
            at = ("the handler at line %d swallows a fault and the stage continues" % hs[0].ast.lineno) if hs else "a branch bypasses it"
            return at
        stack.extend(n.succ)
    return None


# ------------------------------------------------------------------------ R4


def rule_r4(ctx, rule_id: str = "C01-R4") -> None:
    ctx.rule(rule_id, "'Balance' is returned only under key-set equality and all-values equality of the two compositions; compare_dicts is its only producer", 2)
    prog = ctx.prog
    f = prog.func(COMPARE)
    ctx.require(len(f.params) == 2, "compare_dicts no longer takes exactly two compositions")
    a, b = f.params
    cfg = CFG(f.node)
    n_ret = 0
    for r in [n for n in own_nodes(f.node) if isinstance(n, ast.Return)]:
        if const_str(r.value) != "Balance":
            continue
        n_ret += 1
        guards = cfg.guards(cfg.node_of(r))
        keys_eq = vals_eq = False
        for c, p in guards:
            k, v = _equality_kind(f, c, p, a, b)
            keys_eq = keys_eq or k
            vals_eq = vals_eq or v
        ok = keys_eq and vals_eq
        ctx.instance(rule_id, "compare_dicts: return 'Balance' under %s" % [unparse(c) if p else "not(%s)" % unparse(c) for c, p in guards], f.loc(r), ok=ok)
        if not keys_eq:
            ctx.finding(rule_id, "RSMIComparator.compare_dicts:Balance:key-sets", f.loc(r), "'Balance' is returned without the two key sets being compared for equality")
        if not vals_eq:
            ctx.finding(rule_id, "RSMIComparator.compare_dicts:Balance:values", f.loc(r), "'Balance' is returned without all values being compared for equality (==)")
    ctx.require(n_ret >= 1, "compare_dicts never returns 'Balance'")
    # sole producer
    for g in prog.package_functions():
        if g is f:
            continue
        for n in own_nodes(g.node):
            hit = None
            if isinstance(n, ast.Return) and n.value is not None:
                vals = [n.value] + (list(n.value.elts) if isinstance(n.value, ast.Tuple) else [])
                if any(const_str(v) == "Balance" for v in vals):
                    hit = n
            elif isinstance(n, ast.Assign) and const_str(n.value) == "Balance":
                hit = n
            elif isinstance(n, ast.Call) and isinstance(n.func, ast.Attribute) and n.func.attr == "append" and n.args and const_str(n.args[0]) == "Balance":
                hit = n
            if hit is not None:
                ctx.instance(rule_id, "other producer of 'Balance': %s" % g.qualname, g.loc(hit), ok=False)
                ctx.finding(rule_id, "%s:produces-Balance" % g.qualname.split("synrbl.", 1)[-1], g.loc(hit), "a second producer of the 'Balance' verdict exists outside compare_dicts: %s" % unparse(hit)[:70])
    ctx.instance(rule_id, "package scan: producers of the literal 'Balance'", "", ok=True)


def _equality_kind(f: Func, c: ast.AST, p: bool, a: str, b: str) -> Tuple[bool, bool]:
    """(establishes key-set equality, establishes value equality)"""
    nc = normal_compare(c, p)

    def deref(e):
        if isinstance(e, ast.Name) and e.id not in (a, b):
            d = assignments_to(f, e.id)
            if len(d) == 1 and d[0][2] is None:
                return d[0][1]
        return e

    if nc is not None:
        l, op, r = nc
        l, r = deref(l), deref(r)
        if op == "==":
            def is_keys(e, name):
                return (isinstance(e, ast.Call) and isinstance(e.func, ast.Attribute) and e.func.attr == "keys" and isinstance(e.func.value, ast.Name) and e.func.value.id == name) or (
                    isinstance(e, ast.Call) and isinstance(e.func, ast.Name) and e.func.id == "set" and e.args and isinstance(e.args[0], ast.Name) and e.args[0].id == name
                )
            if (is_keys(l, a) and is_keys(r, b)) or (is_keys(l, b) and is_keys(r, a)):
                return True, False
            if isinstance(l, ast.Name) and isinstance(r, ast.Name) and {l.id, r.id} == {a, b}:
                return True, True
        return False, False
    e = c
    if isinstance(e, ast.Name) and p:
        asg = assignments_to(f, e.id)
        if len(asg) == 1 and asg[0][2] is None:
            e = asg[0][1]
    if p and isinstance(e, ast.Call) and isinstance(e.func, ast.Name) and e.func.id == "all" and e.args and isinstance(e.args[0], (ast.GeneratorExp, ast.ListComp)):
        gen = e.args[0]
        elt = gen.elt
        if isinstance(elt, ast.Compare) and len(elt.ops) == 1 and isinstance(elt.ops[0], ast.Eq) and len(gen.generators) == 1 and not gen.generators[0].ifs:
            l, r = elt.left, elt.comparators[0]
            def sub_of(x):
                return x.value.id if isinstance(x, ast.Subscript) and isinstance(x.value, ast.Name) else None
            it = gen.generators[0].iter
            if isinstance(it, ast.Name) and it.id not in (a, b):
                ia = assignments_to(f, it.id)
                if len(ia) == 1 and ia[0][2] is None:
                    it = ia[0][1]
            tgt = gen.generators[0].target
            # `all(x == y for x, y in pairs)` with `pairs = [(a[k], b[k]) for k in a.keys()]`: judge the inner form
            if isinstance(it, (ast.ListComp, ast.GeneratorExp)) and isinstance(it.elt, ast.Tuple) and isinstance(tgt, ast.Tuple) and len(it.elt.elts) == len(tgt.elts) and len(it.generators) == 1 and not it.generators[0].ifs and all(isinstance(t, ast.Name) for t in tgt.elts):
                m = {t.id: v for t, v in zip(tgt.elts, it.elt.elts)}
                if isinstance(l, ast.Name) and isinstance(r, ast.Name) and l.id in m and r.id in m:
                    l, r = m[l.id], m[r.id]
                    it = it.generators[0].iter
            # `all(v == b[k] for k, v in a.items())`: v is a[k]
            elif isinstance(it, ast.Call) and isinstance(it.func, ast.Attribute) and it.func.attr == "items" and isinstance(it.func.value, ast.Name) and it.func.value.id in (a, b) and isinstance(tgt, ast.Tuple) and len(tgt.elts) == 2 and all(isinstance(t, ast.Name) for t in tgt.elts):
                kname, vname, owner = tgt.elts[0].id, tgt.elts[1].id, it.func.value.id
                def unv(x):
                    if isinstance(x, ast.Name) and x.id == vname:
                        return ast.Subscript(value=ast.Name(id=owner, ctx=ast.Load()), slice=ast.Name(id=kname, ctx=ast.Load()), ctx=ast.Load())
                    return x
                l, r = unv(l), unv(r)
                it = ast.Name(id=owner, ctx=ast.Load())
            it_ok = False
            if isinstance(it, ast.Call) and isinstance(it.func, ast.Attribute) and it.func.attr == "keys" and isinstance(it.func.value, ast.Name) and it.func.value.id in (a, b):
                it_ok = True
            if isinstance(it, ast.Name) and it.id in (a, b):
                it_ok = True
            if {sub_of(l), sub_of(r)} == {a, b} and it_ok:
                return False, True
    return False, False


# ---------------------------------------------------------------------------


def check(ctx) -> None:
    pl = Pipeline(ctx)
    ctx.note("stage sequence: " + " -> ".join("%d:%s" % (s.index, s.label) for s in pl.stages))
    rule_r1(ctx, pl)
    rule_r2(ctx, pl)
    rule_r3(ctx, pl)
    rule_r4(ctx)
    c07.rule_e1(ctx, "C01-R5")
    c07.piecewise_findings(ctx, "C01-R5")
    # R6: a row can only be reported solved by a validator of this run: the flag is reset for every row first (shared with C04-G6)
    from . import c04

    c04.rule_g6(ctx, pl, "C01-R6")
    rule_r7(ctx)


def rule_r7(ctx) -> None:
    """A reagent template replaces the reaction of a solved row (R3 re-validates it).  The validation cannot see a side
    that does not parse: decompose returns an empty composition for it and two empty compositions compare as balanced.
    Every molecule of the shipped templates therefore has to be a SMILES RDKit accepts (folded here, as a constant)."""
    import json
    import os

    from .. import tables

    ctx.rule("C01-R7", "every molecule of the shipped reagent templates is a SMILES that parses", 20)
    path = os.path.join(ctx.repo, "synrbl", "SynChemImputer", "reaction_template.json")
    try:
        rt = json.load(open(path))
    except (OSError, ValueError) as e:
        raise AnalysisError("reaction_template.json unreadable: %s" % e)

    def walk(node, trail):
        if isinstance(node, dict):
            for k, v in node.items():
                if k in ("reactants", "products") and isinstance(v, list):
                    for smi in v:
                        ok = isinstance(smi, str) and tables.fold_rdkit(smi) is not None
                        ctx.instance("C01-R7", "%s/%s: %s" % ("/".join(trail), k, smi), "synrbl/SynChemImputer/reaction_template.json", ok=ok)
                        if not ok:
                            ctx.finding("C01-R7", "reaction_template:%s/%s:unparsable:%s" % ("/".join(trail), k, smi), "synrbl/SynChemImputer/reaction_template.json", "template molecule %r does not parse: a curated reaction that contains it has an unparsable side, which the validation reads as an empty - hence balanced - composition, so the row stays solved with a reaction that is no SMILES" % (smi,))
                else:
                    walk(v, trail + [k])

    walk(rt, [])
