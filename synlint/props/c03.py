"""C03 - a declined reaction is returned untouched and with a reason.

V1  a revert (override_unsolved=True) follows every writer that may leave an
    edit on an unsolved row; nothing writes such rows afterwards
V2  every unsolved row gets a non-empty issue
V3  method literals: three distinct constants, single writer of the column
V4  reactant-side carbon deficit is refused
"""

from __future__ import annotations

import ast
from typing import List, Optional, Set

from .. import stageclass
from ..cfg import CFG, normal_compare
from ..model import AnalysisError, own_nodes, unparse
from ..pipeline import Pipeline
from ..rows import package_stores
from ..util import assignments_to, calls, const_str
from ..values import Val, texts
from . import c01

EXPLANATION = (
    "Decides the revert/issue plumbing behind C03, not the behaviour: (V1) in Balancer.__run_pipeline the last stage that can edit the "
    "reaction of a row that may end unsolved is followed by a Validator.check call whose override_unsolved argument is the constant "
    "True and whose resolved effect is `not solved => reaction := row[input column]`; later writers only touch rows selected as "
    "solved; the in-place water insertion of the rule-based stage is followed by such a revert before the MCS stage reads the row; "
    "(V2) MCSSearch.find seeds a non-empty issue on every unsolved row, the final validator fills empty issues of unsolved rows with a "
    "non-empty constant, the confidence filter writes a formatted issue on demotion; (V3) the validators carry "
    "method constants out of {input-balanced, rule-based, mcs-based} and nothing else writes the method column; (V4) "
    "impute_reaction cannot return normally when the carbon label is 'reactants', the rule-based stage forwards only carbon-balanced "
    "rows and promotion needs the label 'balanced'; (V5) the confidence filter keeps a row exactly when confidence >= threshold, so the "
    "default threshold 0 demotes nothing (shared with C13-H1); (V6) every caller-settable setting read by the pipeline is part of the "
    "cache key at the time the key is computed, so a batch demoted (and left edited) under a raised threshold is never served to a "
    "default-threshold run (shared with C12-K1)."
    ' (V7) every default of the confidence threshold is 0 (Balancer constructor, run command line); (V8) after the MCS stage an issue is written only to rows that are unsolved or demoted in the same branch; V1 judges a restore of saved text like the writer whose text it saved.'
    ' (V9/V10) the carbon label is computed on self-contained fragments, as a sum over every component (shared with C07-E12/E6).'
    " (V11) the command line does not append result chunks under an earlier chunk's column layout (shared with C06-B10). (V12) the handlers that turn a per-reaction fault into the row's issue text include a catch-all (shared with C06-B14)."
    ' (V14) a result record built outside the pipeline with solved=False carries an issue text that cannot be empty (never the bare message of an exception).'
)
ASSUMPTIONS = [
    "rows do not pre-populate the tool's own output columns (precondition of the property)",
    "default confidence threshold (0): the confidence filter demotes nothing",
]

IMPUTE = "synrbl.SynMCSImputer.mcs_based_method.impute_reaction"
METHODS = {"input-balanced", "rule-based", "mcs-based"}


def rule_v1(ctx, pl: Pipeline, writers) -> None:
    ctx.rule("C03-V1", "a revert `not solved => reaction := input_reaction` (override_unsolved=True) follows every writer of possibly-unsolved rows; later writers touch solved rows only", 6)
    # candidate reverts
    reverts = []
    for w in writers:
        if w.klass == "revert-unsolved":
            # the revert has to hit the *configured* reaction column, not a literal that
            # merely equals its default name
            if pl.reaction_col.kind == "sym" and pl.reaction_col not in w.store.keys:
                ctx.instance("C03-V1", "stage %d %s: revert store writes the literal key %s, not the configured reaction column" % (w.stage.index, w.stage.label, sorted(map(repr, w.store.keys))), w.where, ok=False)
                ctx.finding(
                    "C03-V1",
                    "%s:literal-column" % w.construct,
                    w.where,
                    "the revert of unsolved rows stores into the key %s, which equals the reaction column only under its default name: with a caller-chosen reaction column the edited text stays in the row that is reported as declined" % sorted(map(repr, w.store.keys)),
                )
                continue
            flag = w.stage.kw_effective(ctx, "override_unsolved")
            armed = flag == frozenset({Val("const", True)})
            reverts.append((w, armed))
            ctx.instance("C03-V1", "stage %d %s: revert store, override_unsolved=%s" % (w.stage.index, w.stage.label, sorted(map(repr, flag))), w.where, armed=armed)
    armed_idx = [w.stage.index for w, a in reverts if a]
    ctx.require(reverts or any(f.rule == "C03-V1" and f.construct.endswith(":literal-column") for f in ctx.findings), "Validator.check has no `not solved => reaction := input_reaction` store any more")
    dirty_classes = ("unsolved-only", "unsolved-only(mcs-key)", "fresh-unbalanced", "fresh-unbalanced(slice)", "unguarded", "before-first-verdict")
    last_revert = max(armed_idx) if armed_idx else -1
    for w in writers:
        if w.klass in ("atom-map-removal", "revert-unsolved"):
            continue
        later = [i for i in armed_idx if i > w.stage.index]
        klass = w.klass
        if klass.startswith("restore-saved("):
            # restoring the text saved before stage k touches only solved rows if stage k itself selected solved rows
            k = int(klass[len("restore-saved(") : -1])
            src = [x for x in writers if x.stage.index == k and x.klass in dirty_classes]
            if src:
                klass = "unguarded"
                ctx.note("C03-V1: %s restores text saved at stage %d, whose writer is %s [%s]: the restore is judged like that writer" % (w.where, k, src[0].where, src[0].klass))
        if klass in dirty_classes:
            ok = bool(later)
            ctx.instance("C03-V1", "stage %d %s writes %s [%s]; next armed revert: %s" % (w.stage.index, w.stage.label, w.where, w.klass, min(later) if later else None), w.where, ok=ok)
            if not ok:
                ctx.finding(
                    "C03-V1",
                    "%s@%s" % (w.construct, w.stage.label),
                    w.where,
                    "stage %d (%s) may edit the reaction of a row that ends unsolved and no later validator call has override_unsolved=True" % (w.stage.index, w.stage.label),
                    path="__run_pipeline: stage %d %s -> return" % (w.stage.index, w.stage.label),
                )
        else:
            # solved-only classes (post-processing of solved rows, restore of saved text)
            ctx.instance("C03-V1", "stage %d %s writes %s [%s] (rows selected as solved)" % (w.stage.index, w.stage.label, w.where, w.klass), w.where, ok=True)
    # the water insertion must be reverted before the MCS stage reads the row
    mcs_stage = next((s.index for s in pl.stages if s.attr == "mcs_search"), None)
    ctx.require(mcs_stage is not None, "MCS search stage not found in __run_pipeline")
    for w in writers:
        if w.stage.index < mcs_stage and w.klass in dirty_classes:
            between = [i for i in armed_idx if w.stage.index < i < mcs_stage]
            ok = bool(between)
            ctx.instance("C03-V1", "pre-MCS edit at stage %d is reverted before the MCS search (stage %d)" % (w.stage.index, mcs_stage), w.where, ok=ok)
            if not ok:
                ctx.finding("C03-V1", "%s@%s:before-mcs" % (w.construct, w.stage.label), w.where, "an in-place edit of the rule-based stage reaches the MCS search without an intervening revert of unsolved rows")
    # the revert restores the recorded input
    for w, armed in reverts:
        v = w.store.value
        ok = isinstance(v, ast.Subscript) and texts(ctx.ev.eval(v.slice, w.store.env)) == {pl.input_col.text}
        if not ok:
            ctx.finding("C03-V1", "postprocess.Validator.check:revert-source", w.where, "revert does not restore the input column %r" % pl.input_col.text)
    # solved is never set after the last armed revert (else a row could turn solved with reverted text - harmless - or unsolved after edits)
    for st in pl.stages:
        if st.index <= last_revert:
            continue
        for s in st.stores:
            if pl.solved_col.text in s.keytexts and isinstance(s.value, ast.Constant) and s.value.value is False:
                # a demotion after the last revert leaves the completed reaction in place: only the confidence filter may do that
                ok = st.attr == "conf_predictor" or _under_threshold_test(ctx, st, s)
                ctx.instance("C03-V1", "demotion after the last revert in stage %d %s" % (st.index, st.label), s.where(), ok=ok)
                if not ok:
                    ctx.finding("C03-V1", "%s:late-demotion" % s.func.qualname.split("synrbl.", 1)[-1], s.where(), "a row is demoted after the last revert, so it is returned unsolved with an edited reaction")


def rule_v2(ctx, pl: Pipeline) -> None:
    ctx.rule("C03-V2", "every unsolved row gets a non-empty issue: seeded by the MCS search, filled by the final validator, formatted by the confidence filter", 3)
    issue = pl.issue_col.text
    solved = pl.solved_col.text
    # (a) seed
    seeded = False
    for st in pl.stages:
        if st.attr != "mcs_search":
            continue
        for s in st.stores:
            sv = ctx.ev.eval(s.value, s.env) if s.value is not None else frozenset()
            sval = next(iter(sv)).value if len(sv) == 1 and next(iter(sv)).kind == "const" else None
            if issue in s.keytexts and isinstance(sval, str):
                only_not_solved = [a for a in s.atoms if not (a.kind == "truth" and a.op == "not" and solved in a.keys)]
                ok = bool(sval.strip()) and not only_not_solved and any(a.kind == "truth" and a.op == "not" for a in s.atoms)
                ctx.instance("C03-V2", "MCSSearch.find seeds issue %r under %s" % (sval, [repr(a) for a in s.atoms]), s.where(), ok=ok)
                if ok:
                    seeded = True
    if not seeded:
        f = ctx.prog.func("synrbl.mcs_search.MCSSearch.find")
        ctx.finding("C03-V2", "mcs_search.MCSSearch.find:issue-seed", f.loc(), "no store of a non-empty constant into the issue column that covers exactly the rows with `not solved`")
    # (b) final validator fills empty issues
    finals = [st for st in pl.stages if st.callee.qualname == stageclass.VALIDATOR_CHECK and st.kw_effective(ctx, "override_unsolved") == frozenset({Val("const", True)})]
    ctx.require(finals, "no validator call with override_unsolved=True")
    last = finals[-1]
    msg = last.kw_effective(ctx, "override_issue_msg")
    msg_ok = len(msg) == 1 and next(iter(msg)).kind == "const" and isinstance(next(iter(msg)).value, str) and next(iter(msg)).value.strip() != ""
    fill = None
    for s in last.stores:
        if issue in s.keytexts and isinstance(s.value, ast.Name) and s.value.id == "override_issue_msg":
            names = {a.name for a in s.atoms if a.kind == "param"}
            empties = [a for a in s.atoms if a.kind == "cmp" and issue in a.keys and a.op == "==" and a.value == ""]
            not_solved = [a for a in s.atoms if a.kind == "truth" and a.op == "not" and solved in a.keys]
            if empties and not_solved and "override_unsolved" in names:
                fill = s
    ctx.instance("C03-V2", "final validator (stage %d) override_issue_msg=%s fills empty issues of unsolved rows" % (last.index, sorted(map(repr, msg))), last.where(), ok=bool(msg_ok and fill))
    if not msg_ok:
        ctx.finding("C03-V2", "Balancer.__run_pipeline:final-issue-msg", last.where(), "the last reverting validator call does not pass a non-empty constant override_issue_msg (got %s)" % sorted(map(repr, msg)))
    if fill is None:
        ctx.finding("C03-V2", "postprocess.Validator.check:issue-fill", last.callee.loc(), "Validator.check no longer sets the issue of an unsolved row with an empty issue to override_issue_msg")
    # (c) confidence filter
    first_conf = min([x.index for x in pl.stages if x.attr == "conf_predictor"] or [10 ** 6])
    for st in pl.stages:
        if st.index < first_conf:
            continue
        dem = [s for s in st.stores if solved in s.keytexts and isinstance(s.value, ast.Constant) and s.value.value is False]
        for d in dem:
            iss = [s for s in st.stores if issue in s.keytexts and c01.same_or_adjacent(s.node, d.node)]
            ok = False
            for s in iss:
                v = s.value
                if isinstance(v, ast.Call) and isinstance(v.func, ast.Attribute) and v.func.attr == "format" and const_str(v.func.value):
                    ok = bool(const_str(v.func.value).strip())
                elif isinstance(v, ast.JoinedStr) or (const_str(v) or "").strip():
                    ok = True
            ctx.instance("C03-V2", "confidence demotion writes an issue next to solved := False", d.where(), ok=ok)
            if not ok:
                ctx.finding("C03-V2", "%s:demotion-issue" % d.func.qualname.split("synrbl.", 1)[-1], d.where(), "demotion does not write a non-empty issue in the same branch")


def _under_threshold_test(ctx, st, store) -> bool:
    """the store is guarded by a comparison with the Balancer's confidence threshold (the confidence filter, wherever it lives)"""
    thr = ctx.balancer.get("confidence_threshold")
    env = store.env or st.env
    if env is None or not thr:
        return False
    for c, _p in store.raw_guards:
        for n in ast.walk(c):
            if isinstance(n, (ast.Name, ast.Attribute)):
                try:
                    if ctx.ev.eval(n, env) == thr:
                        return True
                except Exception:
                    pass
    return False


def rule_v3(ctx, pl: Pipeline) -> None:
    ctx.rule("C03-V3", "every validator's method constant is one of {input-balanced, rule-based, mcs-based}; the method column has no other writer", 4)
    seen = {}
    n_validators = 0
    for attr, inst in sorted(ctx.balancer.attr_inst.items()):
        if inst.cls.qualname != "synrbl.postprocess.Validator":
            continue
        n_validators += 1
        m = inst.get("method")
        val = next(iter(m)).value if len(m) == 1 and next(iter(m)).kind == "const" else None
        ok = val in METHODS
        ctx.instance("C03-V3", "Balancer.%s.method = %r%s" % (attr, val, " (also the method of %s)" % seen[val] if val in seen else ""), "synrbl/balancing.py", ok=ok)
        if val not in METHODS:
            ctx.finding("C03-V3", "Balancer.%s:method" % attr, "synrbl/balancing.py:1", "validator method %r is not one of %s" % (val, sorted(METHODS)))
        seen.setdefault(val, attr)
    ctx.require(n_validators >= 3, "fewer than three validators are bound in Balancer.__init__")
    sb = pl.solved_by_col.text
    stage_nodes = set()
    for st in pl.stages:
        for s in st.stores:
            if sb in s.keytexts:
                stage_nodes.add(id(s.node))
                ok = s.func.qualname == stageclass.VALIDATOR_CHECK and isinstance(s.value, ast.Attribute) and s.value.attr == "method"
                ctx.instance("C03-V3", "stage %d %s writes the method column from %s" % (st.index, st.label, unparse(s.value) if s.value is not None else s.kind), s.where(), ok=ok)
                if not ok:
                    ctx.finding("C03-V3", "%s:method-column" % s.func.qualname.split("synrbl.", 1)[-1], s.where(), "the method column is written outside Validator.check / not from the validator's method")
    for ks in package_stores(ctx):
        if sb in ks.keytexts and id(ks.node) not in stage_nodes and ks.func.qualname.startswith("synrbl.") and ks.func.qualname != stageclass.VALIDATOR_CHECK:
            ctx.instance("C03-V3", "package scan: %s writes %r" % (ks.func.qualname, sb), ks.where(), ok=False)
            ctx.finding("C03-V3", "%s:method-column" % ks.func.qualname.split("synrbl.", 1)[-1], ks.where(), "the method column is written outside Validator.check")


def rule_v4(ctx, pl: Pipeline) -> None:
    ctx.rule("C03-V4", "impute_reaction cannot return normally under carbon label 'reactants'; rule-based stage forwards only carbon-balanced rows", 2)
    f = ctx.prog.func(IMPUTE)
    cfg = CFG(f.node)
    found = False
    for n in own_nodes(f.node):
        if isinstance(n, ast.If):
            nc = normal_compare(n.test, True)
            if nc is None:
                continue
            l, op, r = nc
            lit = const_str(r) if const_str(r) is not None else const_str(l)
            other = l if const_str(r) is not None else r
            if op == "==" and lit == "reactants":
                # other side derives from reaction_dict[carbon_balance_col]
                src = other
                if isinstance(src, ast.Name):
                    asg = assignments_to(f, src.id)
                    src = asg[0][1] if len(asg) == 1 else src
                is_label = isinstance(src, ast.Subscript) and isinstance(src.slice, ast.Name) and "carbon" in src.slice.id
                tnode = cfg.node_of(n)
                true_edge = [s for s in cfg.nodes[tnode].succ if cfg.nodes[s].kind == "edge" and cfg.nodes[s].polarity is True]
                reach = cfg.reachable_from(true_edge[0]) if true_edge else set()
                ok = is_label and cfg.exit not in reach
                found = True
                ctx.instance("C03-V4", "impute_reaction: branch %s cannot reach a normal return" % unparse(n.test), f.loc(n), ok=ok)
                if not ok:
                    ctx.finding("C03-V4", "SynMCSImputer.mcs_based_method.impute_reaction:reactants-branch", f.loc(n), "the branch for carbon label 'reactants' can reach a normal return (imputation of a reactant-side carbon deficit)")
                # and the branch is taken before any result is returned: no return dominates it
                rets = [x for x in own_nodes(f.node) if isinstance(x, ast.Return)]
                for rt in rets:
                    if rt.lineno < n.lineno and not cfg.dominates(tnode, cfg.node_of(rt)):
                        pass
    if not found:
        ctx.finding("C03-V4", "SynMCSImputer.mcs_based_method.impute_reaction:reactants-branch", f.loc(), "no test of the carbon label against 'reactants' found in impute_reaction")
    # every normal return of impute_reaction is dominated by a carbon-label test admitting only products/balanced
    for rt in [x for x in own_nodes(f.node) if isinstance(x, ast.Return)]:
        g = cfg.guards(cfg.node_of(rt))
        txt = [unparse(c) for c, p in g]
        # not required: the elif admits only the two labels; the else raises
    # rule-based stage: imputer input derives from carbon-balanced rows
    rb = ctx.prog.func("synrbl.rule_based.RuleBasedMethod.run")
    ok_rb = False
    for n in own_nodes(rb.node):
        if isinstance(n, ast.Call) and isinstance(n.func, ast.Attribute) and n.func.attr == "parallel_impute" and n.args and isinstance(n.args[0], ast.Name):
            # slice: name <- filter_data(X, ...) ; X <- [.. if value[carbon] == 'balanced']
            names, seen = [n.args[0].id], set()
            while names:
                nm = names.pop()
                if nm in seen:
                    continue
                seen.add(nm)
                for _, v, _i in assignments_to(rb, nm):
                    if isinstance(v, ast.ListComp):
                        conds = [c for g in v.generators for c in g.ifs]
                        for c in conds:
                            nc = normal_compare(c, True)
                            if nc and nc[1] == "==" and (const_str(nc[2]) == "balanced" or const_str(nc[0]) == "balanced"):
                                ok_rb = True
                    for x in ast.walk(v):
                        if isinstance(x, ast.Name):
                            names.append(x.id)
            ctx.instance("C03-V4", "rule-based imputer input is drawn from rows with carbon label == 'balanced'", rb.loc(n), ok=ok_rb)
    if not ok_rb:
        ctx.finding("C03-V4", "rule_based.RuleBasedMethod.run:carbon-filter", rb.loc(), "rows handed to the rule imputer are not restricted to carbon label == 'balanced'")


def check(ctx) -> None:
    pl = Pipeline(ctx)
    writers = stageclass.classify(ctx, pl)
    ctx.note("reaction writers: " + "; ".join("%d:%s[%s]" % (w.stage.index, w.stage.label, w.klass) for w in writers))
    rule_v1(ctx, pl, writers)
    rule_v2(ctx, pl)
    rule_v3(ctx, pl)
    rule_v4(ctx, pl)
    # V5: with the default threshold (0) the confidence filter demotes nothing:
    # demotion boundary is strict (shared with C13-H1)
    from . import c13

    c13.check(ctx, only_h1=True, h1_rule="C03-V5")
    # V6: the default-threshold assumption survives the cache: a batch served from the cache was
    # computed under the configuration in force now (shared with C12-K1)
    from . import c12

    c12.rule_k1(ctx, "C03-V6")
    rule_v7(ctx)
    rule_v8(ctx, pl)
    _carbon_clause_shared(ctx)


def rule_v8(ctx, pl: Pipeline, rule_id: str = "C03-V8") -> None:
    """A solved row has an empty issue.  After the MCS stage has taken its verdicts, an issue text may only be written to
    a row that is unsolved at that point (`not row[solved]`) or that is demoted in the same branch (`solved := False`).
    The confidence filter relies on it (it asserts an empty issue on the rows it demotes)."""
    ctx.rule(rule_id, "after the MCS stage an issue is written only to rows that are unsolved or demoted in the same branch", 1)
    solved, issue = pl.solved_col.text, pl.issue_col.text
    mcs_idx = max([x.index for x in pl.stages if x.attr == "mcs_method"] or [-1])
    ctx.require(mcs_idx >= 0, "MCS method stage not found in __run_pipeline")
    seen = set()
    for st in pl.stages:
        if st.index <= mcs_idx:
            continue
        for s_ in st.stores:
            if issue not in s_.keytexts or id(s_.node) in seen:
                continue
            seen.add(id(s_.node))
            if isinstance(s_.value, ast.Constant) and s_.value.value == "":
                continue
            unsolved = any(a.kind == "truth" and a.op == "not" and solved in set(map(str, a.keys)) for a in s_.atoms)
            demoted = any(solved in x.keytexts and isinstance(x.value, ast.Constant) and x.value.value is False and c01.same_or_adjacent(x.node, s_.node) for x in st.stores)
            ok = unsolved or demoted
            ctx.instance(rule_id, "stage %d %s writes an issue (%s): row unsolved: %s, demoted in the same branch: %s" % (st.index, st.label, unparse(s_.value)[:30] if s_.value is not None else None, unsolved, demoted), s_.where(), ok=ok)
            if not ok:
                ctx.finding(rule_id, "%s:issue-on-solved-row" % s_.func.qualname.split("synrbl.", 1)[-1], s_.where(), "stage %d (%s) writes an issue text to rows that can still be solved: a solved row then carries an issue, and the confidence filter's `issue == \"\"` assertion fails for it as soon as the threshold exceeds its confidence (the batch is lost)" % (st.index, st.label))


def rule_v7(ctx) -> None:
    """C03 is stated for the default confidence threshold, under which the confidence filter demotes nothing (V5).  The
    default is 0 in every place that supplies one: the Balancer constructor and the `run` command line."""
    from ..constfold import Folder, Unfoldable, fold_in

    ctx.rule("C03-V7", "every default of the confidence threshold (Balancer constructor, `run` command line) is 0", 2)
    prog = ctx.prog
    init = prog.func("synrbl.balancing.Balancer.__init__")
    d = init.param_defaults().get("confidence_threshold")
    ctx.require(d is not None, "Balancer.__init__ lost the confidence_threshold default")
    try:
        fo = Folder(init.module, None)
        fo.prog = prog
        v = fo.fold(d)
    except Unfoldable as e:
        raise AnalysisError("default of Balancer(confidence_threshold=..) is not a constant: %s" % e)
    ok = isinstance(v, (int, float)) and not isinstance(v, bool) and v == 0
    ctx.instance("C03-V7", "Balancer(confidence_threshold=%r)" % (v,), init.loc(), ok=ok)
    if not ok:
        ctx.finding("C03-V7", "Balancer.__init__:default-threshold", init.loc(), "the default confidence threshold of the Balancer is %r, not 0: with default options MCS results below it are demoted and keep their imputed molecules" % (v,))
    cfgf = prog.func("synrbl.SynCmd.cmd_run.configure_argparser")
    sites = [c for c in own_nodes(cfgf.node) if isinstance(c, ast.Call) and isinstance(c.func, ast.Attribute) and c.func.attr == "add_argument" and c.args and const_str(c.args[0]) == "--min-confidence"]
    ctx.require(sites, "the run command no longer defines --min-confidence")
    for c in sites:
        dv = next((k.value for k in c.keywords if k.arg == "default"), None)
        try:
            v = fold_in(cfgf, dv, prog) if dv is not None else None
        except Unfoldable as e:
            raise AnalysisError("default of --min-confidence is not a constant: %s" % e)
        ok = isinstance(v, (int, float)) and not isinstance(v, bool) and v == 0
        ctx.instance("C03-V7", "run --min-confidence default %r" % (v,), cfgf.loc(c), ok=ok)
        if not ok:
            ctx.finding("C03-V7", "SynCmd.cmd_run.configure_argparser:default-threshold", cfgf.loc(c), "the `run` command defaults --min-confidence to %r, not 0: with default options low-confidence MCS results come back unsolved with their imputed molecules still in the reaction" % (v,))


def rule_v14(ctx, pl: Pipeline) -> None:
    """Inside the pipeline an empty issue is repaired by the final validation (V2).  A result record that is made
    *outside* it - a fallback row for a failed batch, a placeholder for a skipped input - never sees that step: if it
    says `solved: False` its issue has to be a text that cannot be empty (a literal, a format with literal parts), not
    the bare message of an exception (`str(e)` is "" for `MemoryError()`, a bare assert, a timeout)."""
    from ..values import Env
    from .c11 import _nonempty_text

    ctx.rule("C03-V14", "a result record built outside the pipeline with solved=False carries an issue text that cannot be empty", 0)
    prog = ctx.prog
    solved, issue = pl.solved_col.text, pl.issue_col.text
    stage_funcs = {st.callee.qualname for st in pl.stages}
    n = 0
    for q, f in sorted(prog.functions.items()):
        if not (q.startswith("synrbl.balancing.") or q.startswith("synrbl.SynCmd.")) or q in stage_funcs or q == pl.func.qualname:
            continue
        inst = ctx.balancer if f.cls is not None and f.cls.qualname.endswith(".Balancer") else None
        env = Env(func=f, params={}, inst=inst)
        for d in [x for x in own_nodes(f.node) if isinstance(x, ast.Dict)]:
            kv = {}
            for k, v in zip(d.keys, d.values):
                if k is None:
                    continue
                for t in texts(ctx.ev.eval(k, env)):
                    kv[t] = v
            if solved not in kv or not (isinstance(kv[solved], ast.Constant) and kv[solved].value is False):
                continue
            iv = kv.get(issue)
            ok, why = False, "no issue at all"
            if iv is not None:
                cands = [iv]
                if isinstance(iv, ast.Name) and iv.id in f.params:
                    # bound at the call sites of this helper
                    cands = []
                    for g in prog.functions.values():
                        for c in calls(g):
                            tg = ctx.res.resolve_callee(c, g)
                            if tg and tg[0] == "func" and tg[1] == q:
                                params = f.params[1:] if f.cls is not None and not f.is_static else f.params
                                i = params.index(iv.id) if iv.id in params else -1
                                if 0 <= i < len(c.args):
                                    cands.append(c.args[i])
                                cands += [k.value for k in c.keywords if k.arg == iv.id]
                if not cands:
                    continue  # a helper nobody calls as written (expanded into its caller, judged there)
                ok = all(_nonempty_text(c_, f) for c_ in cands)
                why = "issue = %s" % ", ".join(unparse(c_)[:40] for c_ in cands)
            n += 1
            ctx.instance("C03-V14", "%s builds a declined record (%s)" % (q.split("synrbl.", 1)[-1], why), f.loc(d), ok=ok)
            if not ok:
                ctx.finding("C03-V14", "%s:fallback-row-without-reason" % q.split("synrbl.", 1)[-1], f.loc(d), "%s builds a result row with solved=False outside the pipeline, so the final validation never fills its issue, and the issue (%s) can be empty - the message of MemoryError(), of a bare assert or of a timeout is \"\": the reaction comes back declined without a reason" % (f.name, why))
    if n == 0:
        ctx.note("C03-V14: no result record is built outside the pipeline on this tree")


def pl_of(ctx) -> Pipeline:
    return Pipeline(ctx)


def _carbon_clause_shared(ctx) -> None:
    # V9: the carbon label that V4 relies on is computed on self-contained fragments (shared with C07-E12)
    from . import c07

    c07.rule_e12(ctx, "C03-V9")
    # V10: the carbon totals behind the label are sums over every component, with multiplicity (shared with C07-E6)
    c07.rule_e6(ctx, "C03-V10")
    # V11: in the written output a declined row keeps its reason under `issue` and a solved row an empty one: result
    # chunks are not appended under the column layout of an earlier chunk (shared with C06-B10)
    from . import c06

    c06.rule_b10(ctx, "C03-V11")
    # V12: a declined reaction is returned with its reason: the fault of its own work becomes its issue text and does
    # not escape to the batch level, where the row would be lost (shared with C06-B14)
    c06.rule_b14(ctx, ctx.pipeline_reachable(), "C03-V12")
    # V13: what a declined row is reset to is this run's input: input_reaction is a copy of the reaction column taken
    # right after atom-map removal, by a single writer (shared with C02-T2)
    from . import c02

    c02.rule_t2(ctx, pl_of(ctx), "C03-V13")
    rule_v14(ctx, pl_of(ctx))
