"""C10 - MCS search results are attributed to the right reaction (plumbing)."""

from __future__ import annotations

import ast
from typing import List, Optional

from ..cfg import CFG, normal_compare
from ..model import AnalysisError, Func, own_nodes, unparse
from ..pipeline import Pipeline
from ..util import assignments_to, calls, const_str, names_in, zip_partner
from ..values import texts

EXPLANATION = (
    "Decides the attribution plumbing of C10, not substructure containment or maximality (RDKit results): (A1) in MCSSearch.find the "
    "position used to store a result is looked up, in a map built by enumerating the same row list in the same call, under the id "
    "carried by that very result (def-use: stored value and id come from the same zip tuple; the second zip operand is computed "
    "positionally from the first and their lengths are asserted equal); (A2) in ExtractMCS.get_largest_condition every subscript of "
    "the per-condition tables uses the loop's row index as row coordinate and the appended object is an element of the input tables "
    "(or nothing), single_mcs_safe copies the id from the row it was given; (A3) single_mcs publishes mcs_results / sorted_reactants "
    "only on the branch where the number of sorted molecules equals the number of molecules of the searched side, the other branch "
    "records an issue; (A4) the per-condition parallel map is ordered and results are appended in iteration order."
    " (A5) the molecule list handed to the pair search has exactly one entry per '.'-component of the searched side (comprehension / loop without filter; no dict, set or fromkeys in between)."
    ' (A7) a sort-based selection ranks by the total first; condition tables may be iterated through loop variables.'
    " (A9) a failed step's None entry is not published as a substructure, or the published lists are length-checked."
    " (A10) the search stage keeps nothing across batches (shared with C06-B4 on the functions reachable from MCSSearch.find). (A11) a row's total is a sum over its entries, each counted on its own."
    ' (A5) follows chained comprehensions and accepts one merged call site for both directions.'
)
ASSUMPTIONS = ["rdFMCS / RascalMCES return substructures of their inputs (not decided)"]

FIND = "synrbl.mcs_search.MCSSearch.find"
LARGEST = "synrbl.SynMCSImputer.SubStructure.extract_common_mcs.ExtractMCS.get_largest_condition"
SINGLE = "synrbl.SynMCSImputer.SubStructure.mcs_process.single_mcs"
SAFE = "synrbl.SynMCSImputer.SubStructure.mcs_process.single_mcs_safe"
ENSEMBLE = "synrbl.SynMCSImputer.SubStructure.mcs_process.ensemble_mcs"


def check(ctx) -> None:
    prog = ctx.prog
    pl = Pipeline(ctx)
    ctx.rule("C10-A1", "write-back by the result's own id through a map built on the same list", 3)
    ctx.rule("C10-A2", "selection among conditions uses the row index only and returns elements of the input tables", 4)
    ctx.rule("C10-A3", "results are published only when the sorted list covers the searched side", 2)
    ctx.rule("C10-A4", "per-condition parallel map is ordered; results appended in order", 2)
    st = next((s for s in pl.stages if s.callee.qualname == FIND), None)
    ctx.require(st is not None, "MCSSearch.find is not a stage of __run_pipeline")
    f = st.callee
    mcs_key = texts(ctx.balancer.get("__mcs_data_col"))
    cfg = CFG(f.node)
    # ---------------------------------------------------------------- A1
    wb = [s for s in st.stores if s.func is f and s.keytexts & mcs_key and isinstance(s.elem_expr, ast.Subscript) and isinstance(s.value, ast.Name)]
    positional = [s for s in st.stores if s.func is f and s.keytexts & mcs_key and not isinstance(s.elem_expr, ast.Subscript) and not (isinstance(s.value, ast.Constant) and s.value.value is None)]
    for s in positional:
        ctx.instance("C10-A1", "find: %s attaches the result to a row by position" % unparse(s.node)[:60], s.where(), ok=False)
        ctx.finding("C10-A1", "mcs_search.MCSSearch.find:positional-write-back", s.where(), "the MCS result is attached to the row that sits at the same position in the list of searched rows; the selection step drops reactions without a usable condition, so every later result lands on another reaction")
    ctx.require(wb or positional, "find no longer writes the MCS data back")
    for s in wb:
        idx = s.elem_expr.slice
        ok, why = False, ""
        if isinstance(idx, ast.Name):
            a = assignments_to(f, idx.id)
            idexpr = None
            if len(a) == 1 and isinstance(a[0][1], ast.Subscript):
                sl = a[0][1].slice
                if isinstance(sl, ast.Name):
                    b = assignments_to(f, sl.id)
                    if len(b) == 1:
                        idexpr = b[0][1]
                else:
                    idexpr = sl  # map[carrier[id]] without an intermediate local
            if True:
                if isinstance(idexpr, ast.Subscript) and isinstance(idexpr.value, ast.Name):
                    carrier = idexpr.value.id
                    key = texts(ctx.ev.eval(idexpr.slice, s.env))
                    zc = zip_partner(f, carrier)
                    zv = zip_partner(f, s.value.id)
                    if zc and zv and zc[0] is zv[0] and key == {pl.id_col.text}:
                        # second operand computed positionally from the first
                        args = zc[2]
                        a0, a1 = args[zc[1]], args[zv[1]]
                        pos = False
                        if isinstance(a0, ast.Name) and isinstance(a1, ast.Name):
                            for _, v, _i in assignments_to(f, a1.id):
                                if isinstance(v, ast.Call) and any(isinstance(x, ast.Name) and x.id == a0.id for x in v.args):
                                    pos = True
                            asserted = any(isinstance(n, ast.Assert) and a0.id in unparse(n.test) and a1.id in unparse(n.test) and "len(" in unparse(n.test) and cfg.dominates(cfg.node_of(n), cfg.node_of(s.node)) for n in own_nodes(f.node))
                            ok = pos and asserted
                            why = "positional=%s, lengths asserted=%s" % (pos, asserted)
                    else:
                        why = "id and stored value do not come from the same zip tuple / id key %s" % sorted(key)
        ctx.instance("C10-A1", "find: %s (%s)" % (unparse(s.node)[:60], why), s.where(), ok=ok)
        if not ok:
            ctx.finding("C10-A1", "mcs_search.MCSSearch.find:write-back-id", s.where(), "the stored MCS result and the id used to locate its row are not taken from the same result tuple (%s)" % why)
    # id travels with the data: keys of the condition are copied into the result
    copies = [n for n in own_nodes(f.node) if isinstance(n, ast.For) and isinstance(n.iter, ast.Call) and isinstance(n.iter.func, ast.Attribute) and n.iter.func.attr == "items"]
    # ... or merged in one go: <stored record>.update(<selected condition>)
    stored = {s_.value.id for s_ in wb}
    copies += [c for c in calls(f) if isinstance(c.func, ast.Attribute) and c.func.attr == "update" and isinstance(c.func.value, ast.Name) and c.func.value.id in stored and len(c.args) == 1 and isinstance(c.args[0], ast.Name)]
    ctx.instance("C10-A1", "the condition's keys (incl. id) are copied into the stored result", f.loc(copies[0]) if copies else f.loc(), ok=bool(copies))
    if not copies:
        ctx.finding("C10-A1", "mcs_search.MCSSearch.find:key-copy", f.loc(), "the selected condition's keys are no longer copied into the stored record")
    # single_mcs_safe copies the id from its row
    sf = prog.func(SAFE)
    okid = False
    for n in own_nodes(sf.node):
        if isinstance(n, ast.Dict):
            for k, v in zip(n.keys, n.values):
                if isinstance(k, ast.Name) and k.id == "id_col" and isinstance(v, ast.Subscript) and isinstance(v.value, ast.Name) and v.value.id == sf.params[0] and isinstance(v.slice, ast.Name) and v.slice.id == "id_col":
                    okid = True
    ctx.instance("C10-A1", "single_mcs_safe: record id := data_dict[id_col]", sf.loc(), ok=okid)
    if not okid:
        ctx.finding("C10-A1", "mcs_process.single_mcs_safe:record-id", sf.loc(), "the per-reaction record does not copy the id of the row it was computed for")
    # ---------------------------------------------------------------- A2
    g = prog.func(LARGEST)
    loops = [n for n in own_nodes(g.node) if isinstance(n, ast.For) and isinstance(n.target, ast.Name) and "range" in unparse(n.iter)]
    ctx.require(loops, "get_largest_condition lost its row loop")
    row = loops[0].target.id
    tables = {g.node.args.vararg.arg} if g.node.args.vararg else set(g.params)
    bad = []
    n_sub = 0
    # the per-condition totals: the local bound to a comprehension over the condition tables
    totals_var = None
    for n in own_nodes(g.node):
        if isinstance(n, ast.Assign) and len(n.targets) == 1 and isinstance(n.targets[0], ast.Name) and isinstance(n.value, ast.ListComp) and isinstance(n.value.generators[0].iter, ast.Name) and n.value.generators[0].iter.id in tables:
            totals_var = n.targets[0].id
    ctx.require(totals_var is not None, "get_largest_condition no longer computes per-condition totals by a comprehension over the tables")
    total_names = {n.target.elts[1].id for n in own_nodes(g.node) if isinstance(n, ast.For) and isinstance(n.target, ast.Tuple) and len(n.target.elts) == 2 and isinstance(n.target.elts[1], ast.Name) and isinstance(n.iter, ast.Call) and getattr(n.iter.func, "id", "") == "enumerate" and n.iter.args and isinstance(n.iter.args[0], ast.Name) and n.iter.args[0].id == totals_var}
    # loop variables that stand for one condition table / one totals list: `for condition, total in zip(conditions, totals)`
    cond_names = set()
    for n in own_nodes(g.node):
        if isinstance(n, (ast.For, ast.comprehension)):
            it, tg = n.iter, n.target
            if isinstance(it, ast.Name) and it.id in tables and isinstance(tg, ast.Name):
                cond_names.add(tg.id)
            if isinstance(it, ast.Call) and getattr(it.func, "id", "") == "zip" and isinstance(tg, ast.Tuple):
                for a_, t_ in zip(it.args, tg.elts):
                    if isinstance(a_, ast.Name) and isinstance(t_, ast.Name):
                        if a_.id in tables:
                            cond_names.add(t_.id)
                        elif a_.id == totals_var:
                            total_names.add(t_.id)
    for n in ast.walk(loops[0]):
        if isinstance(n, ast.Subscript) and isinstance(n.value, ast.Subscript) and isinstance(n.value.value, ast.Name) and n.value.value.id in tables:
            n_sub += 1
            if not (isinstance(n.slice, ast.Name) and n.slice.id == row):
                bad.append(n)
        if isinstance(n, ast.Subscript) and isinstance(n.value, ast.Name) and n.value.id in cond_names:
            n_sub += 1
            if not (isinstance(n.slice, ast.Name) and n.slice.id == row):
                bad.append(n)
        if isinstance(n, ast.Subscript) and isinstance(n.value, ast.Name) and n.value.id in total_names:
            n_sub += 1
            if not (isinstance(n.slice, ast.Name) and n.slice.id == row):
                bad.append(n)
    ctx.instance("C10-A2", "get_largest_condition: %d table subscripts use the row index %r" % (n_sub, row), g.loc(loops[0]), ok=not bad and n_sub >= 2)
    for b in bad:
        ctx.finding("C10-A2", "ExtractMCS.get_largest_condition:cross-row-access", g.loc(b), "table access %s does not use the current row index %r: data of another reaction is read" % (unparse(b), row))
    ctx.require(n_sub >= 2, "fewer than 2 table subscripts in get_largest_condition")
    ret_names = {r.value.id for r in own_nodes(g.node) if isinstance(r, ast.Return) and isinstance(r.value, ast.Name)}
    apps = [n for n in ast.walk(loops[0]) if isinstance(n, ast.Call) and isinstance(n.func, ast.Attribute) and n.func.attr == "append" and isinstance(n.func.value, ast.Name) and n.func.value.id in ret_names]
    ctx.require(apps, "get_largest_condition no longer appends to result")
    for a in apps:
        arg = a.args[0]
        ok = False
        if isinstance(arg, ast.Name):
            srcs = [v for _, v, i in assignments_to(g, arg.id) if i is None]
            def elem_ok(e):
                if isinstance(e, ast.Constant) and e.value is None:
                    return True
                if isinstance(e, ast.IfExp):
                    return elem_ok(e.body) and elem_ok(e.orelse)
                if isinstance(e, ast.Subscript) and isinstance(e.value, ast.Name) and e.value.id in cond_names and isinstance(e.slice, ast.Name) and e.slice.id == row:
                    return True
                return isinstance(e, ast.Subscript) and isinstance(e.value, ast.Subscript) and isinstance(e.value.value, ast.Name) and e.value.value.id in tables and isinstance(e.slice, ast.Name) and e.slice.id == row
            ok = bool(srcs) and all(elem_ok(v) for v in srcs)
            if not srcs:
                # unpacked from the best of a candidate list: `_, _, best = cands[0]` with `cands.append((.., .., cond[row]))`
                for _st, v, i in assignments_to(g, arg.id):
                    if i is not None and isinstance(v, ast.Subscript) and isinstance(v.value, ast.Name):
                        tuples = [c.args[0] for c in ast.walk(loops[0]) if isinstance(c, ast.Call) and isinstance(c.func, ast.Attribute) and c.func.attr == "append" and isinstance(c.func.value, ast.Name) and c.func.value.id == v.value.id and c.args and isinstance(c.args[0], ast.Tuple)]
                        ok = bool(tuples) and all(i < len(t.elts) and elem_ok(t.elts[i]) for t in tuples)
        ctx.instance("C10-A2", "appended object %s is an element of the input tables at the current row" % unparse(arg), g.loc(a), ok=ok)
        if not ok:
            ctx.finding("C10-A2", "ExtractMCS.get_largest_condition:fabricated-record", g.loc(a), "the appended record is not an element conditions[c][row] of the input tables")
    # total_atoms_conditions computed per condition in order
    tac = [v for _, v, _i in assignments_to(g, totals_var)]
    ok = len(tac) == 1 and isinstance(tac[0], ast.ListComp) and not tac[0].generators[0].ifs
    ctx.instance("C10-A2", "atom totals are computed per condition without filtering", g.loc(), ok=ok)
    if not ok:
        ctx.finding("C10-A2", "ExtractMCS.get_largest_condition:totals", g.loc(), "per-condition totals are filtered or reordered")
    totals_alignment(ctx, "C10-A2")
    # ---------------------------------------------------------------- A7
    # where the retained entry is picked by sorting a candidate list: the *last* of several stable sorts is the primary
    # criterion, and that has to be the total number of matched atoms
    ctx.rule("C10-A7", "a sort-based selection in get_largest_condition ranks by the total first", 0)

    def is_total(e) -> bool:
        return isinstance(e, ast.Subscript) and isinstance(e.value, ast.Name) and e.value.id in total_names and isinstance(e.slice, ast.Name) and e.slice.id == row

    cand_lists: dict = {}
    for c in ast.walk(loops[0]):
        if isinstance(c, ast.Call) and isinstance(c.func, ast.Attribute) and c.func.attr == "append" and isinstance(c.func.value, ast.Name) and c.args and isinstance(c.args[0], ast.Tuple):
            cand_lists.setdefault(c.func.value.id, []).append(c.args[0])
    for lst, tuples in sorted(cand_lists.items()):
        tot_pos = {i for t in tuples for i, e in enumerate(t.elts) if is_total(e)}
        sorts = [c for c in ast.walk(loops[0]) if isinstance(c, ast.Call) and isinstance(c.func, ast.Attribute) and c.func.attr == "sort" and isinstance(c.func.value, ast.Name) and c.func.value.id == lst]
        sorts.sort(key=lambda c: (c.lineno, c.col_offset))
        if not sorts or len(tot_pos) != 1:
            continue
        tp = next(iter(tot_pos))

        def primary(c):
            key = next((k.value for k in c.keywords if k.arg == "key"), None)
            if isinstance(key, ast.Lambda) and len(key.args.args) == 1:
                b = key.body
                if isinstance(b, ast.Tuple) and b.elts:
                    b = b.elts[0]
                if isinstance(b, ast.Subscript) and isinstance(b.value, ast.Name) and b.value.id == key.args.args[0].arg and isinstance(b.slice, ast.Constant):
                    return b.slice.value
            return None

        last = sorts[-1]
        pr = primary(last)
        ok = pr == tp
        ctx.instance("C10-A7", "candidates %r: %d sort(s); the last one ranks by element %r, the total is element %d" % (lst, len(sorts), pr, tp), g.loc(last), ok=ok)
        if not ok:
            ctx.finding("C10-A7", "ExtractMCS.get_largest_condition:sort-order", g.loc(last), "the candidates are sorted %d time(s) and the last (stable) sort - the primary criterion - ranks by tuple element %r, not by the total number of matched atoms (element %d): a condition with a larger first fragment but a smaller total is retained" % (len(sorts), pr, tp))
    # ---------------------------------------------------------------- A9
    # mcs_results[i] is attributed to sorted_reactants[i].  The pairwise search appends None for a molecule whose step
    # failed - possibly in addition to the match it had already appended - so the two lists can differ in length.  The
    # publication is safe only if a None entry makes it fail (MolToSmarts(None) raises, the condition result is
    # discarded), or if the lengths of the two published lists are compared first.
    ctx.rule("C10-A9", "a failed step's None entry is not published as a substructure (or the two published lists are length-checked)", 1)
    sm9 = prog.func(SINGLE)
    pubs9 = [n for n in own_nodes(sm9.node) if isinstance(n, ast.Assign) and isinstance(n.targets[0], ast.Subscript) and const_str(n.targets[0].slice) == "mcs_results"]
    ctx.require(pubs9, "single_mcs no longer publishes mcs_results")
    scfg9 = CFG(sm9.node)
    for p9 in pubs9:
        v = p9.value
        tolerant = None
        src = None
        if isinstance(v, (ast.ListComp, ast.GeneratorExp)):
            src = unparse(v.generators[0].iter)
            tv = v.generators[0].target
            for x in ast.walk(v):
                if isinstance(x, (ast.IfExp, ast.Compare)) and isinstance(tv, ast.Name) and any(isinstance(y, ast.Name) and y.id == tv.id for y in ast.walk(x.test if isinstance(x, ast.IfExp) else x)) and "None" in unparse(x):
                    tolerant = x
            if any(g.ifs for g in v.generators):
                tolerant = tolerant or v.generators[0].ifs[0]
        length_checked = False
        for c, pol in scfg9.guards(scfg9.node_of(p9)):
            nc = normal_compare(c, pol)
            if nc and nc[1] == "==" and src is not None and ("len(%s)" % src) in (unparse(nc[0]), unparse(nc[2])):
                length_checked = True
        ok = tolerant is None or length_checked
        ctx.instance("C10-A9", "single_mcs: mcs_results built from %s (tolerates None: %s, length compared: %s)" % (src, tolerant is not None, length_checked), sm9.loc(p9), ok=ok)
        if not ok:
            ctx.finding("C10-A9", "mcs_process.single_mcs:none-entry-published", sm9.loc(p9), "mcs_results is built with a branch for None entries (%s) and without comparing len(%s) with the molecule list: a molecule whose step failed after its match was appended contributes two entries, and every later substructure is attributed to the wrong molecule" % (unparse(tolerant)[:50], src))
    # ---------------------------------------------------------------- A3
    sm = prog.func(SINGLE)
    scfg = CFG(sm.node)
    pubs = [n for n in own_nodes(sm.node) if isinstance(n, ast.Assign) and isinstance(n.targets[0], ast.Subscript) and const_str(n.targets[0].slice) in ("mcs_results", "sorted_reactants")]
    ctx.require(len(pubs) >= 2, "single_mcs no longer publishes mcs_results / sorted_reactants")
    for p in pubs:
        guards = scfg.guards(scfg.node_of(p))
        ok = False
        for c, pol in guards:
            nc = normal_compare(c, pol)
            if nc and nc[1] == "==":
                # len(<molecule list of fit>) == len(<sorted list of fit>): both names are bound by unpacking the result of fit()
                def len_arg(e):
                    return e.args[0].id if isinstance(e, ast.Call) and getattr(e.func, "id", "") == "len" and e.args and isinstance(e.args[0], ast.Name) else None

                a_, b_ = len_arg(nc[0]), len_arg(nc[2])
                if a_ and b_ and a_ != b_:
                    pos = {}
                    for nm in (a_, b_):
                        for _st, v, idx in assignments_to(sm, nm):
                            if idx is not None and isinstance(v, ast.Call) and isinstance(v.func, ast.Attribute) and v.func.attr == "fit":
                                pos[nm] = idx
                    # fit returns (mcs_list, sorted_parents, mol_list, other_mol): positions 1 and 2
                    ok = sorted(pos.values()) == [1, 2]
        ctx.instance("C10-A3", "single_mcs publishes %s under equal lengths" % const_str(p.targets[0].slice), sm.loc(p), ok=ok)
        if not ok:
            ctx.finding("C10-A3", "mcs_process.single_mcs:publish-guard:%s" % const_str(p.targets[0].slice), sm.loc(p), "%s is published without the sorted list covering every molecule of the searched side" % const_str(p.targets[0].slice))
    # ---------------------------------------------------------------- A4
    en = prog.func(ENSEMBLE)
    pc = [c for c in calls(en) if unparse(c.func).split(".")[-1] == "Parallel"]
    ctx.require(pc, "ensemble_mcs no longer uses Parallel")
    for c in pc:
        ra = next((k.value for k in c.keywords if k.arg == "return_as"), None)
        ok = ra is None or const_str(ra) in ("list", "generator")
        ctx.instance("C10-A4", "ensemble_mcs: Parallel(return_as=%s)" % (unparse(ra) if ra is not None else "default"), en.loc(c), ok=ok)
        if not ok:
            ctx.finding("C10-A4", "mcs_process.ensemble_mcs:parallel-unordered", en.loc(c), "results of the per-condition search may arrive out of order; the tables of different conditions are joined by position")
    rule_a5(ctx)
    rule_a6(ctx)
    rule_a11(ctx)
    # A10: the search result of a reaction is computed from that reaction in this call: nothing the search stage keeps
    # from an earlier batch is applied to a later one (shared with C06-B4, scope: the search stage)
    from . import c06

    c06.rule_b4(ctx, {q for q in ctx.res.reachable([FIND], ctx.graph) if q.startswith("synrbl.")}, "C10-A10", class_level=False)
    ok = _accumulates_in_order(en, pc)
    ctx.instance("C10-A4", "results appended in iteration order per condition", en.loc(), ok=ok)
    if not ok:
        ctx.finding("C10-A4", "mcs_process.ensemble_mcs:accumulation", en.loc(), "per-condition results are not accumulated in iteration order over the rows")


def rule_a6(ctx) -> None:
    """A per-reaction job hands back a record of its own.  find() merges the id and the MCS data of the selected
    condition *into* the record returned by the fragment job; a record shared by several jobs (a variable of the
    enclosing function, a module-level default) ends up with the data of the last reaction that touched it."""
    from . import c11

    ctx.rule("C10-A6", "every record returned by a per-reaction job is created inside that job", 2)
    jobs = [c11.pair_job(ctx), ctx.prog.func(SAFE)]
    for f in jobs:
        local_fresh = set()
        for n in own_nodes(f.node):
            if isinstance(n, ast.Assign) and len(n.targets) == 1 and isinstance(n.targets[0], ast.Name):
                v = n.value
                if isinstance(v, (ast.Dict, ast.DictComp)) or (isinstance(v, ast.Call) and (getattr(v.func, "id", "") in ("dict",) or (isinstance(v.func, ast.Attribute) and v.func.attr in ("copy", "deepcopy")) or unparse(v.func) in ("copy.deepcopy", "copy.copy"))):
                    local_fresh.add(n.targets[0].id)
        assigned = {n.id for n in own_nodes(f.node) if isinstance(n, ast.Name) and isinstance(n.ctx, ast.Store)} | set(f.params)
        for r in [n for n in own_nodes(f.node) if isinstance(n, ast.Return) and n.value is not None]:
            v = r.value
            if isinstance(v, (ast.Dict, ast.DictComp)) or (isinstance(v, ast.Name) and v.id in local_fresh):
                ok, why = True, "fresh record"
            elif isinstance(v, ast.Name) and v.id not in assigned:
                ok, why = False, "%s is a variable of the enclosing scope: every job that returns it returns the same object" % v.id
            else:
                ok, why = True, "value computed in the job (%s)" % unparse(v)[:30]
            ctx.instance("C10-A6", "%s: return %s - %s" % (f.name, unparse(v)[:30], why), f.loc(r), ok=ok)
            if not ok:
                ctx.finding("C10-A6", "%s:shared-record:%s" % (f.qualname.split("synrbl.", 1)[-1].split(".<locals>.")[-1], unparse(v)[:20]), f.loc(r), "the job returns %s; find() then writes the id and the MCS data of different reactions into one object, so they all end up with the data of the last one" % why)


def _split_iter(f: Func, it: ast.AST) -> bool:
    """``it`` is ``<x>.split('.')`` (directly or through a single-assignment local)."""
    if isinstance(it, ast.Name):
        a = assignments_to(f, it.id)
        if len(a) == 1:
            it = a[0][1]
    return isinstance(it, ast.Call) and isinstance(it.func, ast.Attribute) and it.func.attr == "split" and len(it.args) == 1 and const_str(it.args[0]) == "."


def one_per_component(ctx, f: Func, e: ast.AST, depth: int = 0):
    """Is the list denoted by ``e`` built with exactly one entry per '.'-component?
    -> ('yes' | 'no' | 'unknown', reason)"""
    if isinstance(e, ast.Name):
        a = assignments_to(f, e.id)
        if len(a) == 1 and a[0][2] is None and not (isinstance(a[0][1], ast.List) and not a[0][1].elts):
            return one_per_component(ctx, f, a[0][1], depth)
        # list filled by append in a loop over the components
        fills = [c for c in calls(f) if isinstance(c.func, ast.Attribute) and c.func.attr == "append" and isinstance(c.func.value, ast.Name) and c.func.value.id == e.id]
        inits = [v for _, v, _i in a if isinstance(v, ast.List) and not v.elts]
        if fills and inits and len(a) == len(inits):
            cfg = CFG(f.node)
            for c in fills:
                loop = getattr(c, "_parent", None)
                while loop is not None and not isinstance(loop, ast.For):
                    loop = getattr(loop, "_parent", None)
                if loop is None or not _split_iter(f, loop.iter):
                    return "unknown", "append outside a loop over the components"
                outer = {id(x) for x, _ in cfg.guards(cfg.node_of(loop))}
                g = [(x, pol) for x, pol in cfg.guards(cfg.node_of(c)) if id(x) not in outer]
                if g:
                    return "no", "components are appended only under %s" % " and ".join(unparse(x)[:40] for x, _ in g)
            return "yes", "appended once per component"
        return "unknown", "%s has %d bindings" % (e.id, len(a))
    if isinstance(e, (ast.ListComp, ast.GeneratorExp)):
        if len(e.generators) == 1 and _split_iter(f, e.generators[0].iter):
            if e.generators[0].ifs:
                return "no", "the comprehension filters components (%s)" % unparse(e.generators[0].ifs[0])[:40]
            return "yes", "comprehension over the components"
        # a comprehension over a sequence that itself has one entry per component (a generator of parsed molecules)
        it = e.generators[0].iter
        if len(e.generators) == 1 and isinstance(it, ast.Name) and depth < 4:
            a = assignments_to(f, it.id)
            if len(a) == 1 and a[0][2] is None and isinstance(a[0][1], (ast.ListComp, ast.GeneratorExp)):
                v, why = one_per_component(ctx, f, a[0][1], depth + 1)
                if v == "yes" and e.generators[0].ifs:
                    return "no", "the comprehension filters components (%s)" % unparse(e.generators[0].ifs[0])[:40]
                return v, why
        return "unknown", "comprehension over %s" % unparse(e.generators[0].iter)[:40]
    if isinstance(e, ast.Call):
        fn = unparse(e.func).split(".")[-1]
        if fn == "list" and e.args:
            inner = e.args[0]
            if isinstance(inner, ast.Call) and unparse(inner.func).split(".")[-1] == "map" and len(inner.args) == 2 and _split_iter(f, inner.args[1]):
                return "yes", "map over the components"
            if isinstance(inner, ast.Call) and isinstance(inner.func, ast.Attribute) and inner.func.attr in ("values", "keys"):
                return "no", "the list is taken from a dictionary (%s): a component that occurs more than once is kept once" % unparse(inner)[:40]
            if isinstance(inner, ast.Call) and unparse(inner.func).split(".")[-1] in ("set", "frozenset", "fromkeys"):
                return "no", "the list is taken from a set / dict.fromkeys: repeated components collapse"
            return one_per_component(ctx, f, inner, depth)
        if fn in ("set", "frozenset", "fromkeys", "unique"):
            return "no", "%s() collapses repeated components" % fn
        tgt = ctx.res.resolve_callee(e, f)
        if tgt and tgt[0] == "func" and tgt[1] in ctx.prog.functions and depth < 2:
            g = ctx.prog.functions[tgt[1]]
            rets = [r for r in own_nodes(g.node) if isinstance(r, ast.Return) and r.value is not None]
            verdicts = [one_per_component(ctx, g, r.value, depth + 1) for r in rets]
            if verdicts and all(v[0] == "yes" for v in verdicts):
                return "yes", "%s(): %s" % (g.name, verdicts[0][1])
            for v in verdicts:
                if v[0] == "no":
                    return "no", "%s(): %s" % (g.name, v[1])
            return "unknown", "%s(): %s" % (g.name, verdicts[0][1] if verdicts else "no return")
    return "unknown", "expression %s" % unparse(e)[:40]


def rule_a5(ctx) -> None:
    ctx.rule("C10-A5", "the molecule list handed to the pair search has one entry per component of the searched side", 1)
    prog = ctx.prog
    fit = prog.func("synrbl.SynMCSImputer.SubStructure.mcs_graph_detector.MCSMissingGraphAnalyzer.fit")
    pairs = [c for c in calls(fit) if unparse(c.func).split(".")[-1] == "IterativeMCSReactionPairs" and c.args]
    # one call per direction on the pinned tree; a merged call site (sides chosen first) is the same obligation once
    ctx.require(len(pairs) >= 1, "fit no longer calls IterativeMCSReactionPairs")
    for c in pairs:
        v, why = one_per_component(ctx, fit, c.args[0])
        ctx.instance("C10-A5", "fit: %s - %s" % (unparse(c.args[0]), why), fit.loc(c), ok=v == "yes")
        if v == "no":
            ctx.finding("C10-A5", "mcs_graph_detector.MCSMissingGraphAnalyzer.fit:molecule-list:%s" % unparse(c.args[0]), fit.loc(c), "the molecule list %s is not the multiset of the searched side: %s" % (unparse(c.args[0]), why))
        elif v == "unknown":
            ctx.require(False, "cannot decide how %s is built in fit (%s)" % (unparse(c.args[0]), why))


def _accumulates_in_order(en: Func, pcalls) -> bool:
    """for <cond> in conditions: L = []; G = Parallel(..)(delayed(f)(row..) for row in data);
    for r in G: L.append(r); OUT.append(L)"""
    data_param = en.params[0]
    for c in pcalls:
        outer = getattr(c, "_parent", None)  # Parallel(...)(<generator>)
        if not (isinstance(outer, ast.Call) and outer.args and isinstance(outer.args[0], ast.GeneratorExp)):
            return False
        gen = outer.args[0]
        if gen.generators[0].ifs or not (isinstance(gen.generators[0].iter, ast.Name) and gen.generators[0].iter.id == data_param):
            return False
        stmt = getattr(outer, "_parent", None)
        if not (isinstance(stmt, ast.Assign) and isinstance(stmt.targets[0], ast.Name)):
            return False
        gname = stmt.targets[0].id
        # `for r in G` or `for n, r in enumerate(G[, start])`
        loops = []
        for n in own_nodes(en.node):
            if not isinstance(n, ast.For):
                continue
            it, tg = n.iter, n.target
            if isinstance(it, ast.Call) and getattr(it.func, "id", "") == "enumerate" and it.args and isinstance(tg, ast.Tuple) and len(tg.elts) == 2:
                it, tg = it.args[0], tg.elts[1]
            if isinstance(it, ast.Name) and it.id == gname and isinstance(tg, ast.Name):
                loops.append((n, tg.id))
        if len(loops) != 1:
            return False
        lp, item = loops[0]
        apps = [x for x in ast.walk(lp) if isinstance(x, ast.Call) and isinstance(x.func, ast.Attribute) and x.func.attr == "append" and x.args and isinstance(x.args[0], ast.Name) and x.args[0].id == item and isinstance(x.func.value, ast.Name)]
        if len(apps) != 1:
            return False
        lname = apps[0].func.value.id
        outer_apps = [x for x in own_nodes(en.node) if isinstance(x, ast.Call) and isinstance(x.func, ast.Attribute) and x.func.attr == "append" and x.args and isinstance(x.args[0], ast.Name) and x.args[0].id == lname]
        if len(outer_apps) != 1:
            return False
        # no reordering of the per-condition list
        if any(isinstance(x, ast.Call) and isinstance(x.func, ast.Attribute) and isinstance(x.func.value, ast.Name) and x.func.value.id == lname and x.func.attr in ("sort", "reverse", "insert", "pop", "remove") for x in own_nodes(en.node)):
            return False
    return True


def rule_a11(ctx, rule_id: str = "C10-A11") -> None:
    """The total of a table row is the sum of the atom counts of its entries, each entry parsed on its own: an empty or
    failed entry counts 0 and leaves the others alone.  Parsed as one joined pattern, a single empty entry ('C..C', a
    trailing '.') makes the whole pattern unparsable, the row's total 0, and a smaller condition is retained."""
    ctx.rule(rule_id, "a row's total is a sum over its entries, each counted on its own (no joined pattern)", 1)
    prog = ctx.prog
    calc = prog.func("synrbl.SynMCSImputer.SubStructure.extract_common_mcs.ExtractMCS.calculate_total_number_atoms_mcs_parallel")
    funcs = [calc] + [g for g in prog.functions.values() if g.parent is calc]
    n = 0
    for g in funcs:
        for c in calls(g):
            if unparse(c.func).split(".")[-1] != "get_num_atoms" or not c.args:
                continue
            n += 1
            arg = c.args[0]
            exprs = [arg]
            if isinstance(arg, ast.Name):
                exprs += [v for _s, v, _i in assignments_to(g, arg.id)]
            joined = next((x for e in exprs for x in ast.walk(e) if isinstance(x, ast.Call) and isinstance(x.func, ast.Attribute) and x.func.attr == "join"), None)
            # element of an iteration over the row's entries?
            elem = False
            if isinstance(arg, ast.Name):
                cur = getattr(c, "_parent", None)
                while cur is not None and cur is not g.node:
                    if isinstance(cur, (ast.GeneratorExp, ast.ListComp)) and any(isinstance(t, ast.Name) and t.id == arg.id for gen in cur.generators for t in ast.walk(gen.target)):
                        elem = True
                    if isinstance(cur, ast.For) and any(isinstance(t, ast.Name) and t.id == arg.id for t in ast.walk(cur.target)):
                        elem = True
                    cur = getattr(cur, "_parent", None)
            ctx.instance(rule_id, "%s: get_num_atoms(%s) - element of an iteration over the entries: %s, joined pattern: %s" % (g.name, unparse(arg)[:40], elem, joined is not None), g.loc(c), ok=joined is None and elem)
            if joined is not None:
                ctx.finding(rule_id, "ExtractMCS.calculate_total_number_atoms_mcs_parallel:joined-pattern", g.loc(c), "the entries of a row are joined (%s) and counted as one pattern: one empty or failed entry makes the pattern unparsable and the whole row counts 0, so the condition with the most matched atoms is not the one retained" % unparse(joined)[:50])
            elif not elem:
                raise AnalysisError("%s: the argument of get_num_atoms is neither an entry of the row nor a joined pattern (form not modelled)" % g.loc(c))
    ctx.require(n >= 1, "the per-row totals no longer go through get_num_atoms")


def totals_alignment(ctx, rule_id: str) -> None:
    """Per-condition atom totals are an ordered, unfiltered map over the
    condition's rows (failed entries keep their position and count 0)."""
    prog = ctx.prog
    calc = prog.func("synrbl.SynMCSImputer.SubStructure.extract_common_mcs.ExtractMCS.calculate_total_number_atoms_mcs_parallel")
    ok = False
    for c in calls(calc):
        if unparse(c.func).split(".")[-1] == "Parallel":
            outer = getattr(c, "_parent", None)
            ra = next((k.value for k in c.keywords if k.arg == "return_as"), None)
            if isinstance(outer, ast.Call) and outer.args and isinstance(outer.args[0], ast.GeneratorExp):
                g = outer.args[0].generators[0]
                ok = not g.ifs and isinstance(g.iter, ast.Name) and g.iter.id == calc.params[0] and (ra is None or const_str(ra) in ("list", "generator"))
    ctx.instance(rule_id, "totals are computed by an ordered, unfiltered map over the condition's rows", calc.loc(), ok=ok)
    if not ok:
        ctx.finding(rule_id, "ExtractMCS.calculate_total_number_atoms_mcs_parallel:order", calc.loc(), "the totals are not an ordered, unfiltered map over the condition's rows: a skipped (failed / timed-out) entry shifts every later reaction's total to its neighbour")
