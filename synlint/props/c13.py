"""C13 - the confidence threshold only demotes low-confidence MCS results."""

from __future__ import annotations

import ast
from typing import Optional, Set

from ..cfg import CFG, normal_compare, split_cond
from ..model import own_nodes, unparse
from ..pipeline import Pipeline
from ..util import assignments_to, const_str, enclosing_stmt, influences_result, names_in, zip_partner
from ..values import Val, texts
from . import c01

EXPLANATION = (
    "Decides the structure of ConfidencePredictor.predict and its call site, not the numeric range of the model output: (H1) the row "
    "stays solved exactly on the branch `confidence >= threshold` (normalised comparison, both operands traced by def-use: the "
    "compared value is the one stored into the confidence column, the other operand is the threshold parameter); (H2) the threshold "
    "parameter flows only into that comparison and into the issue text; (H3) every row store of predict targets rows filtered by "
    "solved_by == the predictor's method, which the Balancer binds to the MCS validator's method constant; (H4) the demoting branch "
    "stores False into solved and an issue formatted with the threshold, the keeping branch stores nothing but the confidence; (H5) "
    "Balancer.confidence_threshold is consumed only as the threshold argument of predict (and by the cache-key helper); the benchmark "
    "command applies the same >= to the same column."
    ' (H6) every object that is given a confidence is also a target of the demotion store; (H7) neither the predict call in __run_pipeline nor the per-row loop in predict is enclosed by a handler that continues, so no row leaves solved and unscored.'
    " The decision site is discovered: predict (threshold parameter) or a later pipeline stage whose demotion is guarded by a comparison with the Balancer's threshold value; H1-H7 are judged there, and H3 then also accepts 'rows that carry a confidence' (presence, not truthiness) as scope."
    ' (H8) an issue is never written to a solved row after the MCS stage (shared with C03-V8); (H9) the threshold is stored as given.'
    ' (H10) the code that writes confidence and verdict into the rows is not dispatched to worker processes.'
    ' (H11) the rows that reach the scoring loop are selected by solved_by == method alone.'
    " (H12) the filter stage is built with the Balancer's column names (shared with C04-G16)."
)
ASSUMPTIONS = ["confidence in [0,1] is a property of the xgboost model output (not decided)"]

PREDICT = "synrbl.confidence_prediction.ConfidencePredictor.predict"


def check(ctx, only_h1: bool = False, h1_rule: str = "C13-H1") -> None:
    pl = Pipeline(ctx)
    prog = ctx.prog
    f = prog.func(PREDICT)
    stages = [s for s in pl.stages if s.callee.qualname == PREDICT]
    ctx.require(len(stages) == 1, "ConfidencePredictor.predict is called %d times from __run_pipeline" % len(stages))
    st = stages[0]
    inst = st.inst
    ctx.rule(h1_rule, "row stays solved exactly when confidence >= threshold (a threshold of 0 demotes nothing)", 1)
    if not only_h1:
        ctx.rule("C13-H2", "threshold flows only into the comparison and the issue text", 1)
    if not only_h1:
        ctx.rule("C13-H3", "all row stores of predict target rows with solved_by == MCS method", 3)
    if not only_h1:
        ctx.rule("C13-H4", "demotion stores solved := False and an issue naming the threshold; keeping stores nothing", 2)
    if not only_h1:
        ctx.rule("C13-H5", "confidence_threshold is consumed once; benchmark uses the same >=", 3)
    rule_h10(ctx)
    if not only_h1:
        rule_h11(ctx)
        # H12: the filter stage reads the rows by the Balancer's column names (shared with C04-G16): a stage built
        # without them fails as soon as it demotes a row, and the batch is lost for that threshold only
        from . import c04 as _c04

        _c04.rule_g16(ctx, "C13-H12")
    solved, issue, conf = pl.solved_col.text, pl.issue_col.text, texts(ctx.balancer.get("__confidence_col"))
    conf_store = [s for s in st.stores if s.keytexts & conf and s.func is f]
    ctx.require(conf_store, "predict no longer stores the confidence column")
    thr_vals = ctx.balancer.get("confidence_threshold")
    # the decision site: predict itself (it receives the threshold), or a later stage of the pipeline that demotes
    # rows under a comparison with the Balancer's threshold
    P = f
    dst = st
    if "threshold" in f.params and any(solved in s.keytexts and s.func is f for s in st.stores):
        thr = "threshold"

        def is_thr(e) -> bool:
            return isinstance(e, ast.Name) and e.id == thr
    else:
        def is_thr_in(stage, e) -> bool:
            if not isinstance(e, (ast.Name, ast.Attribute)) or stage.env is None:
                return False
            try:
                v = ctx.ev.eval(e, stage.env)
            except Exception:
                return False
            return bool(v) and v == thr_vals

        cands = []
        for x in pl.stages:
            if x.index <= st.index:
                continue
            for s_ in x.stores:
                if solved in s_.keytexts and isinstance(s_.value, ast.Constant) and s_.value.value is False and any(is_thr_in(x, n) for c, _p in s_.raw_guards for n in ast.walk(c)):
                    cands.append((x, s_))
        ctx.require(cands, "neither predict nor a later stage demotes rows under a comparison with the confidence threshold")
        ctx.require(len({id(x) for x, _ in cands}) == 1, "rows are demoted under the threshold in more than one stage")
        dst = cands[0][0]
        f = cands[0][1].func
        thr = "<threshold>"

        def is_thr(e) -> bool:
            return is_thr_in(dst, e)

        ctx.note("C13: the accept/demote decision is taken in %s (after predict), analysed there" % f.qualname.split("synrbl.", 1)[-1])

    def mentions_thr(e) -> bool:
        return any(is_thr(n) for n in ast.walk(e))

    conf_names = set()
    for s in conf_store:
        # the stored value with representation-only wrappers stripped
        v = s.value
        while True:
            if isinstance(v, ast.Call) and isinstance(v.func, ast.Attribute) and v.func.attr == "item" and not v.args:
                v = v.func.value
            elif isinstance(v, ast.Call) and isinstance(v.func, ast.Name) and v.func.id == "float" and len(v.args) == 1:
                v = v.args[0]
            else:
                break
        if isinstance(v, ast.Name):
            if f is P:
                conf_names.add(v.id)
        else:
            ctx.finding(h1_rule, "confidence_prediction.ConfidencePredictor.predict:stored-value", s.where(), "the stored confidence %s is a transformation of the value that is compared with the threshold; the reported confidence and the verdict can disagree" % unparse(s.value)[:50])
    if f is not P:
        # the decision reads the stored confidence back from the row: `c = row[conf]` / `row.get(conf)`
        for n in own_nodes(f.node):
            if isinstance(n, ast.Assign) and len(n.targets) == 1 and isinstance(n.targets[0], ast.Name):
                v = n.value
                key = None
                if isinstance(v, ast.Subscript):
                    key = v.slice
                elif isinstance(v, ast.Call) and isinstance(v.func, ast.Attribute) and v.func.attr == "get" and v.args:
                    key = v.args[0]
                if key is not None and texts(ctx.ev.eval(key, dst.env)) & conf:
                    conf_names.add(n.targets[0].id)
        ctx.require(conf_names, "the decision site %s does not read the stored confidence into a local" % f.name)
    demote = [s for s in dst.stores if solved in s.keytexts and s.func is f]
    ctx.require(demote, "the decision site no longer demotes rows (store to the solved column vanished)")
    cname = f.qualname.split("synrbl.", 1)[-1] if f is not P else "confidence_prediction.ConfidencePredictor.predict"
    st_P, st = st, dst
    # ---------------------------------------------------------------- H1
    for d in demote:
        cmp_ok = False
        seen = []
        for c, p in d.raw_guards:
            for cc, pp in split_cond(c, p):
                nc = normal_compare(cc, pp)
                if nc is None and isinstance(cc, ast.Name):
                    nc = _vector_compare(f, cc.id, pp, conf_names)
                if nc is None:
                    continue
                l, op, r = nc
                if mentions_thr(l) or mentions_thr(r):
                    # normalise to  <conf> op <threshold>
                    if is_thr(r):
                        a, o = l, op
                    elif is_thr(l):
                        a, o = r, {"<": ">", ">": "<", "<=": ">=", ">=": "<="}.get(op, op)
                    else:
                        seen.append(unparse(cc))
                        continue
                    seen.append("%s %s %s" % (unparse(a), o, thr))
                    if o == "<" and names_in(a) & conf_names and isinstance(a, ast.Name):
                        cmp_ok = True
        okv = isinstance(d.value, ast.Constant) and d.value.value is False
        ctx.instance(h1_rule, "demotion guard: %s" % seen, d.where(), ok=cmp_ok and okv)
        if not cmp_ok:
            ctx.finding(h1_rule, cname + ":boundary", d.where(), "demotion is not guarded by `confidence < threshold` on the stored confidence (normalised guards: %s)" % seen)
        if not okv:
            ctx.finding(h1_rule, cname + ":demotion-value", d.where(), "solved column receives %s in predict" % unparse(d.value))
    # counter on the keeping branch
    cfg = CFG(f.node)
    for n in own_nodes(f.node):
        if isinstance(n, ast.AugAssign) and isinstance(n.target, ast.Name):
            g = cfg.guards(cfg.node_of(n))
            keep = False
            for c, p in g:
                for cc, pp in split_cond(c, p):
                    nc = normal_compare(cc, pp)
                    if nc and (mentions_thr(nc[0]) or mentions_thr(nc[2])):
                        l, op, r = nc
                        o = op if is_thr(r) else {"<": ">", ">": "<", "<=": ">=", ">=": "<="}.get(op, op)
                        keep = o == ">="
            ctx.instance(h1_rule, "counter %s += on the keeping branch (>=)" % n.target.id, f.loc(n), ok=keep)
            if not keep:
                ctx.finding(h1_rule, cname + ":counter-branch", f.loc(n), "the confident counter is not incremented exactly under `confidence >= threshold`")
    if only_h1:
        return
    # ---------------------------------------------------------------- H2
    uses = [n for n in own_nodes(f.node) if isinstance(n, (ast.Name, ast.Attribute)) and isinstance(n.ctx, ast.Load) and is_thr(n)]
    for u in uses:
        stmt = enclosing_stmt(u)
        kind = None
        cur = u
        while cur is not None and cur is not stmt:
            par = getattr(cur, "_parent", None)
            if isinstance(par, ast.Compare):
                kind = "comparison"
            cur = par
        if kind is None and isinstance(stmt, ast.Assign) and any(isinstance(t, ast.Subscript) and issue in texts(ctx.ev.eval(t.slice, st.env)) for t in stmt.targets):
            kind = "issue-text"
        if kind is None and not influences_result(u):
            kind = "logging"
        # a comparison yields a decision (boolean / boolean array); it may be stored and counted.
        # What must not happen is that the threshold takes part in computing the confidence itself:
        # the statement must not define a value the stored confidence is derived from.
        if kind == "comparison" and isinstance(stmt, ast.Assign):
            feeds = set(conf_names)
            for _ in range(3):
                for nm in list(feeds):
                    zp = zip_partner(f, nm)
                    if zp and isinstance(zp[2][zp[1]], ast.Name):
                        feeds.add(zp[2][zp[1]].id)
                    for _st, v, _i in assignments_to(f, nm):
                        feeds |= names_in(v)
            tnames = {x.id for t in stmt.targets for x in ast.walk(t) if isinstance(x, ast.Name)}
            if tnames & feeds:
                kind = None
        ctx.instance("C13-H2", "use of threshold at %s: %s" % (f.loc(u), kind or "other"), f.loc(u), ok=kind is not None)
        if kind is None:
            ctx.finding("C13-H2", cname + ":threshold-flow", f.loc(u), "the threshold flows into %s (it may influence the confidence or the model input)" % unparse(stmt)[:70])
    ctx.require(len(uses) >= 1, "threshold is never used in predict")
    # threshold must not be rebound
    for n in own_nodes(f.node):
        if f is P and isinstance(n, ast.Name) and n.id == thr and isinstance(n.ctx, ast.Store):
            ctx.finding("C13-H2", cname + ":threshold-rebound", f.loc(n), "the threshold parameter is reassigned inside predict")
    # ---------------------------------------------------------------- H3
    method = inst.get("solved_by_method")
    mcs_val = ctx.stage("mcs_validator").get("method")
    okm = method == mcs_val and len(method) == 1 and next(iter(method)).kind == "const"
    ctx.instance("C13-H3", "predictor method %s == MCS validator method %s" % (sorted(map(repr, method)), sorted(map(repr, mcs_val))), "synrbl/balancing.py", ok=okm)
    if not okm:
        ctx.finding("C13-H3", "Balancer.conf_predictor:solved_by_method", "synrbl/balancing.py:1", "the confidence filter is bound to method %s but the MCS validator writes %s" % (sorted(map(repr, method)), sorted(map(repr, mcs_val))))
    mval = next(iter(method)).value if len(method) == 1 else None
    sb = pl.solved_by_col.text
    def by_method(s) -> bool:
        return any(a.kind == "cmp" and sb in a.keys and a.op == "==" and a.value == mval for a in s.atoms)

    def by_presence(s) -> bool:
        # rows that carry a confidence: `conf in row`, `row[conf] is not None`, `c = row.get(conf); c is not None`
        for a in s.atoms:
            if a.kind == "haskey" and set(map(str, a.keys)) & conf and a.op == "in":
                return True
            if a.kind == "cmp" and set(map(str, a.keys)) & conf and a.op in ("is not", "!=") and a.value is None:
                return True
            if a.kind == "var" and a.name in conf_names and a.op in ("is not", "!=") and a.value is None:
                return True
        return False

    for stage_, g_ in ([(st, f)] if f is P else [(st_P, P), (st, f)]):
        for s in stage_.stores:
            if s.func is not g_:
                continue
            scoped = by_method(s) or (g_ is not P and by_presence(s))
            ctx.instance("C13-H3", "store %s to %s is scoped to solved_by == %r%s" % (s.where(), sorted(map(str, s.keytexts)), mval, " (or to rows that carry a confidence)" if g_ is not P else ""), s.where(), ok=scoped)
            if not scoped:
                ctx.finding("C13-H3", (cname if g_ is f else "confidence_prediction.ConfidencePredictor.predict") + ":scope:" + "|".join(sorted(map(str, s.keytexts))), s.where(), "%s writes %s of rows that are not restricted to solved_by == %r%s (guards: %s)" % (g_.name, sorted(map(str, s.keytexts)), mval, " or to the rows that were given a confidence" if g_ is not P else "", s.atoms))
    # ---------------------------------------------------------------- H4
    for d in demote:
        sib = [s for s in st.stores if s.func is f and c01.same_or_adjacent(s.node, d.node) and s is not d]
        iss = [s for s in sib if issue in s.keytexts]
        names_thr = any(mentions_thr(s.value) for s in iss if s.value is not None)
        ctx.instance("C13-H4", "demotion branch writes issue naming the threshold", d.where(), ok=bool(iss) and names_thr)
        if not (iss and names_thr):
            ctx.finding("C13-H4", cname + ":demotion-issue", d.where(), "the demoting branch does not write an issue that names the threshold")
        other = [s for s in sib if not (issue in s.keytexts)]
        for s in other:
            ctx.finding("C13-H4", cname + ":demotion-extra:" + "|".join(sorted(map(str, s.keytexts))), s.where(), "the demoting branch also writes %s" % sorted(map(str, s.keytexts)))
    # stores under the keeping branch
    for s in st.stores:
        if s.func is not f:
            continue
        for c, p in s.raw_guards:
            for cc, pp in split_cond(c, pp if False else p):
                nc = normal_compare(cc, pp)
                if nc and (mentions_thr(nc[0]) or mentions_thr(nc[2])):
                    l, op, r = nc
                    o = op if is_thr(r) else {"<": ">", ">": "<", "<=": ">=", ">=": "<="}.get(op, op)
                    if o == ">=":
                        ctx.finding("C13-H4", cname + ":keep-branch-store:" + "|".join(sorted(map(str, s.keytexts))), s.where(), "the keeping branch writes row field %s" % sorted(map(str, s.keytexts)))
    ctx.instance("C13-H4", "keeping branch writes no row field", f.loc(), ok=True)
    # ---------------------------------------------------------------- H6
    # every object that receives a confidence also receives the verdict that goes with it
    from ..rows import package_stores

    ctx.rule("C13-H6", "each row variable that is given a confidence is also the target of the demotion under the threshold test", 1)
    # every subscript store of predict, keys evaluated in the environment of the pipeline's stage call
    from ..rows import KeyStore

    local = []
    for n in own_nodes(f.node):
        if isinstance(n, ast.Assign):
            for t in n.targets:
                if isinstance(t, ast.Subscript) and not isinstance(t.slice, ast.Slice):
                    local.append(KeyStore(f, n, t, ctx.ev.eval(t.slice, st.env), n.value, "assign"))
    all_conf = [k for k in local if k.keytexts & conf]
    all_dem = [k for k in local if solved in k.keytexts]
    if f is not P:
        same = bool(st.call.args) and bool(st_P.call.args) and unparse(st.call.args[0]) == unparse(st_P.call.args[0])
        ctx.instance("C13-H6", "the decision stage %s receives the rows predict scored (%s)" % (st.label, unparse(st.call.args[0]) if st.call.args else "?"), st.where(), ok=same)
        if not same:
            ctx.finding("C13-H6", cname + ":decision-over-other-rows", st.where(), "the stage that applies the threshold does not receive the row list that predict scored")
    dem_targets = {unparse(k.target.value) for k in all_dem}
    for k in all_conf:
        tv = unparse(k.target.value)
        ok = tv in dem_targets
        ctx.instance("C13-H6", "confidence stored on %s; demotion targets: %s" % (tv, sorted(dem_targets)), k.where(), ok=ok)
        if not ok:
            ctx.finding("C13-H6", cname + ":confidence-without-verdict:" + tv, k.where(), "%s receives a confidence but is never the target of the demotion (solved := False under confidence < threshold): such rows stay solved whatever their confidence" % tv)
    # ---------------------------------------------------------------- H7
    # no path returns the batch with the confidence filter skipped or abandoned half-way
    ctx.rule("C13-H7", "a failure of the confidence filter cannot be swallowed between predict and the return of the rows", 1)
    runf = prog.func("synrbl.balancing.Balancer.__run_pipeline")
    swallowed = None
    for call_ in ([st.call] if f is P else [st_P.call, st.call]):
        prev, cur = call_, getattr(call_, "_parent", None)
        while cur is not None and cur is not runf.node:
            if isinstance(cur, ast.Try) and any(prev is b or prev in ast.walk(b) for b in cur.body):
                for h in cur.handlers:
                    if not any(isinstance(x, ast.Raise) for x in ast.walk(h)):
                        swallowed = h
            prev, cur = cur, getattr(cur, "_parent", None)
    # inside predict: the per-row loop must not sit in a swallowing handler either
    for d in all_dem:
        prev, cur = d.node, getattr(d.node, "_parent", None)
        while cur is not None and cur is not f.node:
            if isinstance(cur, ast.Try) and any(prev is b or prev in ast.walk(b) for b in cur.body):
                for h in cur.handlers:
                    if not any(isinstance(x, ast.Raise) for x in ast.walk(h)):
                        swallowed = swallowed or h
            prev, cur = cur, getattr(cur, "_parent", None)
    ctx.instance("C13-H7", "predict call / demotion loop not enclosed by a handler that continues", st.where(), ok=swallowed is None)
    if swallowed is not None:
        ctx.finding("C13-H7", "Balancer.__run_pipeline:predict-failure-swallowed", "synrbl/%s:%d" % ("balancing.py" if swallowed in list(ast.walk(runf.node)) else "confidence_prediction.py", swallowed.lineno), "an exception raised while the confidence filter runs is caught and the rows are returned anyway: MCS results leave solved without a confidence, or only the rows handled before the failure are demoted")
    # ---------------------------------------------------------------- H5
    bcls = prog.cls("synrbl.balancing.Balancer")
    hash_helpers = _hash_helpers(ctx)
    n_reads = 0
    for m in bcls.methods.values():
        for n in own_nodes(m.node):
            if isinstance(n, ast.Attribute) and n.attr == "confidence_threshold" and isinstance(n.ctx, ast.Load):
                if not influences_result(n):
                    ctx.instance(h5 if False else "C13-H5", "read of confidence_threshold in %s only feeds logging" % m.qualname, m.loc(n), ok=True, nontrivial=False)
                    continue
                n_reads += 1
                # argument `threshold` of predict?
                par = getattr(n, "_parent", None)
                ok = False
                if isinstance(par, ast.keyword) and par.arg == thr and getattr(par, "_parent", None) is st.call:
                    ok = True
                elif par is st.call:
                    ok = True
                elif m.qualname in hash_helpers:
                    ok = True
                elif f is not P and m is f:
                    ok = True  # the decision site itself; its uses of the threshold are judged by H2
                ctx.instance("C13-H5", "read of confidence_threshold in %s" % m.qualname, m.loc(n), ok=ok)
                if not ok:
                    ctx.finding("C13-H5", "%s:confidence_threshold-read" % m.qualname.split("synrbl.balancing.", 1)[-1], m.loc(n), "confidence_threshold is consumed outside the threshold argument of predict (rows other than MCS results may depend on it)")
    ctx.require(n_reads >= 1, "confidence_threshold is never read")
    if f is P:
        targ = st.params.get(thr, frozenset())
        okt = targ == ctx.balancer.get("confidence_threshold")
        ctx.instance("C13-H5", "predict(threshold=%s)" % sorted(map(repr, targ)), st.where(), ok=okt)
        if not okt:
            ctx.finding("C13-H5", "Balancer.__run_pipeline:predict-threshold", st.where(), "predict is not called with threshold=self.confidence_threshold")
    else:
        ctx.instance("C13-H5", "the decision site compares with the Balancer's own threshold", st.where(), ok=True)
    # benchmark cross-check
    bf = prog.func("synrbl.SynCmd.cmd_benchmark.run")
    n_cmp = 0
    for n in own_nodes(bf.node):
        if isinstance(n, ast.Compare) and len(n.ops) == 1:
            l, r = n.left, n.comparators[0]
            if isinstance(l, ast.Subscript) and const_str(l.slice) in conf and "min_confidence" in unparse(r):
                n_cmp += 1
                ok = isinstance(n.ops[0], ast.GtE)
                ctx.instance("C13-H5", "benchmark: %s" % unparse(n), bf.loc(n), ok=ok)
                if not ok:
                    ctx.finding("C13-H5", "SynCmd.cmd_benchmark.run:boundary", bf.loc(n), "benchmark compares the confidence with %s instead of >=" % type(n.ops[0]).__name__)
    ctx.require(n_cmp >= 1, "benchmark no longer compares entry['confidence'] with min_confidence")
    rule_h9(ctx)
    # H8: rows that are not MCS results are the same for every threshold - also in that they survive: the filter asserts an
    # empty issue on the rows it demotes, which holds only if nobody writes an issue to a solved row (shared with C03-V8)
    from . import c03

    c03.rule_v8(ctx, pl, "C13-H8")


def rule_h11(ctx) -> None:
    """Every row solved by the MCS method is scored and put to the threshold test.  The rows that reach the scoring loop
    are selected from the stage's input by `solved_by == <MCS method>` alone: a further filter on row data (a value the
    row already carries in the confidence column - input columns pass through preprocessing -, a flag, the issue) lets
    rows keep `solved` without ever being compared with the threshold."""
    from ..pipeline import Pipeline

    ctx.rule("C13-H11", "the rows that reach the scoring loop are selected by solved_by == method alone", 1)
    prog = ctx.prog
    f = prog.func(PREDICT)
    pl = Pipeline(ctx)
    st = next((x for x in pl.stages if x.callee.qualname == PREDICT), None)
    ctx.require(st is not None and st.env is not None, "predict is not a stage of __run_pipeline")
    conf = texts(ctx.balancer.get("__confidence_col"))
    by = texts(st.inst.get("solved_by_col")) if st.inst is not None else set()
    ctx.require(by, "ConfidencePredictor lost its solved_by_col option")
    loops = []
    for s_ in st.stores:
        if s_.func is f and s_.keytexts & conf:
            cur = getattr(s_.node, "_parent", None)
            while cur is not None and cur is not f.node:
                if isinstance(cur, ast.For):
                    loops.append(cur)
                    break
                cur = getattr(cur, "_parent", None)
    ctx.require(loops, "the confidence column is no longer stored inside a loop over the rows of predict")
    rows_p = f.params[1] if len(f.params) > 1 else None

    def selection_only(cond, var) -> bool:
        for x in ast.walk(cond):
            if isinstance(x, ast.Subscript) and not isinstance(x.slice, ast.Slice):
                if not (texts(ctx.ev.eval(x.slice, st.env)) <= by):
                    return False
            elif isinstance(x, ast.Call):
                if isinstance(x.func, ast.Attribute) and x.func.attr in ("keys",) and not x.args:
                    continue
                if isinstance(x.func, ast.Name) and x.func.id in ("isinstance", "hasattr", "len", "str", "bool"):
                    continue  # shape tests, not a selection by the row's data
                if isinstance(x.func, ast.Attribute) and x.func.attr == "get" and x.args and texts(ctx.ev.eval(x.args[0], st.env)) <= by:
                    continue
                return False
        return True

    for lp in loops:
        it = lp.iter
        names = [a.id for a in (it.args if isinstance(it, ast.Call) and isinstance(it.func, ast.Name) and it.func.id in ("zip", "enumerate") else [it]) if isinstance(a, ast.Name)]
        bad, seen, work = None, set(), list(names)
        while work:
            nm = work.pop()
            if nm in seen:
                continue
            seen.add(nm)
            for stmt, v, _i in assignments_to(f, nm):
                if isinstance(v, (ast.ListComp, ast.GeneratorExp)):
                    for g in v.generators:
                        for c in g.ifs:
                            if not selection_only(c, g.target):
                                bad = bad or (c, nm)
                        work += [x.id for x in ast.walk(g.iter) if isinstance(x, ast.Name)]
                elif isinstance(v, ast.Call) and isinstance(v.func, ast.Name) and v.func.id == "filter":
                    bad = bad or (v, nm)
                elif isinstance(v, ast.Name):
                    work.append(v.id)
                elif isinstance(v, ast.Call) and isinstance(v.func, ast.Name) and v.func.id in ("list", "tuple") and v.args:
                    work += [x.id for x in ast.walk(v.args[0]) if isinstance(x, ast.Name)]
        ctx.instance("C13-H11", "predict: rows of the scoring loop come from %s by method selection only: %s" % (sorted(seen), bad is None), f.loc(lp), ok=bad is None)
        if bad is not None:
            ctx.finding("C13-H11", "confidence_prediction.ConfidencePredictor.predict:rows-withheld-from-threshold", f.loc(bad[0]), "the rows that are scored and compared with the threshold are filtered by %s on top of solved_by == method: an MCS-solved row that fails this test (e.g. one that arrives with a value in the confidence column; input columns pass through) stays solved whatever the threshold" % unparse(bad[0])[:60])


def rule_h10(ctx) -> None:
    """The confidence, the demotion and the issue are written *into the row dicts* the pipeline holds; nobody reads
    predict's return value.  A function that writes row fields must therefore run in this process: dispatched through
    joblib (`delayed(f)(rows)`), it gets pickled copies under the default backend and its writes are lost."""
    ctx.rule("C13-H10", "the code that writes confidence / verdict into the rows is not dispatched to worker processes", 1)
    prog = ctx.prog
    cls = prog.cls("synrbl.confidence_prediction.ConfidencePredictor")
    n = 0
    for m in cls.methods.values():
        for c in [x for x in own_nodes(m.node) if isinstance(x, ast.Call) and isinstance(x.func, ast.Name) and x.func.id == "delayed" and x.args]:
            n += 1
            tgt = c.args[0]
            g = None
            if isinstance(tgt, ast.Attribute) and isinstance(tgt.value, ast.Name) and tgt.value.id == m.params[0]:
                g = prog.lookup_method(cls, tgt.attr)
            elif isinstance(tgt, ast.Name):
                g = prog.functions.get(m.module.name + "." + tgt.id)
            writes = []
            if g is not None:
                for a in own_nodes(g.node):
                    if isinstance(a, ast.Assign) and any(isinstance(t, ast.Subscript) and isinstance(t.value, ast.Name) for t in a.targets):
                        writes.append(a)
            ok = not writes
            ctx.instance("C13-H10", "%s dispatches %s through joblib; it writes %d subscripted field(s)" % (m.name, unparse(tgt), len(writes)), m.loc(c), ok=ok)
            if not ok:
                ctx.finding("C13-H10", "ConfidencePredictor.%s:row-writes-in-workers" % m.name, m.loc(c), "%s runs %s in joblib workers although it writes into the rows it is given (%s): the workers change pickled copies, so the pipeline's rows get no confidence and are never demoted" % (m.name, unparse(tgt), unparse(writes[0])[:50]))
    if n == 0:
        ctx.instance("C13-H10", "the confidence filter dispatches nothing through joblib", cls.methods["predict"].loc() if "predict" in cls.methods else "", ok=True)


def rule_h9(ctx) -> None:
    """The threshold the rows are compared with is the threshold the caller gave.  Where the Balancer wraps the option
    in a property, the setter stores its argument unchanged (validation that raises and `float(..)` are not changes);
    rounding or clamping moves a threshold that equals an observed confidence across it."""
    ctx.rule("C13-H9", "the confidence threshold is stored as given (no rounding / clamping in a property setter or in the constructor)", 1)
    prog = ctx.prog
    bcls = prog.cls("synrbl.balancing.Balancer")

    def identity_of(f, e, pname, depth=0) -> bool:
        if depth > 4:
            return False
        if isinstance(e, ast.Name):
            if e.id == pname:
                defs = assignments_to(f, pname)
                return all(identity_of(f, v, pname, depth + 1) for _s, v, _i in defs) if defs else True
            defs = assignments_to(f, e.id)
            return bool(defs) and all(i is None and identity_of(f, v, pname, depth + 1) for _s, v, i in defs)
        if isinstance(e, ast.Call) and isinstance(e.func, ast.Name) and e.func.id == "float" and len(e.args) == 1 and not e.keywords:
            return _inner_identity(f, e.args[0], pname, depth)
        return False

    def _inner_identity(f, e, pname, depth):
        # `value = float(value)`: the argument is the parameter itself (as bound before this statement)
        return isinstance(e, ast.Name) and e.id == pname or identity_of(f, e, pname, depth + 1)

    n = 0
    for q, f in sorted(prog.functions.items()):
        if f.cls is not bcls:
            continue
        decos = [unparse(d) for d in getattr(f.node, "decorator_list", [])]
        is_setter = any(d.endswith("confidence_threshold.setter") for d in decos)
        if not (is_setter or f.name == "__init__"):
            continue
        pname = "confidence_threshold" if f.name == "__init__" else (f.params[1] if len(f.params) > 1 else None)
        if pname is None or pname not in f.params:
            continue
        for node in own_nodes(f.node):
            if isinstance(node, ast.Assign) and len(node.targets) == 1 and isinstance(node.targets[0], ast.Attribute) and isinstance(node.targets[0].value, ast.Name) and node.targets[0].value.id == f.params[0] and "confidence_threshold" in node.targets[0].attr:
                n += 1
                ok = identity_of(f, node.value, pname)
                ctx.instance("C13-H9", "%s stores %s" % (f.name, unparse(node)[:70]), f.loc(node), ok=ok)
                if not ok:
                    ctx.finding("C13-H9", "Balancer.%s:threshold-transformed" % f.name, f.loc(node), "the Balancer stores %s instead of the threshold it was given: rows are compared with (and the issue names) another threshold, so a row whose confidence equals the caller's threshold or its float neighbour is judged wrongly" % unparse(node.value)[:50])
    ctx.require(n >= 1, "no store of the confidence threshold found in Balancer.__init__ / a property setter")


def _vector_compare(f, flag: str, polarity: bool, conf_names):
    """``flag`` is the zip partner of an array ``A = <conf array> <op> threshold``:
    return the element-wise comparison (conf element, op, threshold) with the
    polarity folded in."""
    zp = zip_partner(f, flag)
    if zp is None:
        return None
    loop, pos, args = zp
    a = args[pos]
    if not isinstance(a, ast.Name):
        return None
    defs = assignments_to(f, a.id)
    if len(defs) != 1 or not isinstance(defs[0][1], ast.Compare):
        return None
    nc = normal_compare(defs[0][1], polarity)
    if nc is None:
        return None
    l, op, r = nc
    # map the array operand to its element in the same zip
    def elem(e):
        if isinstance(e, ast.Name) and isinstance(loop.target, ast.Tuple):
            for t, arg in zip(loop.target.elts, args):
                if isinstance(arg, ast.Name) and arg.id == e.id and isinstance(t, ast.Name):
                    return ast.Name(id=t.id, ctx=ast.Load())
        return e
    return elem(l), op, elem(r)


def _hash_helpers(ctx) -> Set[str]:
    """Balancer methods called inside the argument of get_hash_key(...)."""
    out = set()
    bcls = ctx.prog.cls("synrbl.balancing.Balancer")
    for m in bcls.methods.values():
        for n in own_nodes(m.node):
            if isinstance(n, ast.Call) and isinstance(n.func, ast.Attribute) and n.func.attr == "get_hash_key":
                for a in n.args:
                    for c in ast.walk(a):
                        if isinstance(c, ast.Call):
                            tgt = ctx.res.resolve_callee(c, m)
                            if tgt and tgt[0] == "func":
                                out.add(tgt[1])
    return out
