"""C11 - MCS-stage timeouts and failures are contained to the affected row."""

from __future__ import annotations

import ast
from typing import List, Optional, Set, Tuple

from ..cfg import CFG
from ..model import AnalysisError, dotted, Func, own_nodes, unparse
from ..pipeline import Pipeline
from ..util import assignments_to, calls, const_str, names_in
from ..values import texts

EXPLANATION = (
    "Decides exception containment in the per-row jobs of the MCS stage, not the equality of unaffected rows under wall-clock races: "
    "(X1) in single_mcs, single_mcs_safe, process_single_pair and the loop body of MCSBasedMethod.run every call into the analysis code "
    "and every AsyncResult.get(timeout) lies inside a try whose handlers cover Exception (multiprocessing.TimeoutError for the wait) "
    "and do not re-raise; (X2) each such handler writes a non-empty string into the issue field of the record that belongs to the "
    "current row and touches nothing else; (X3) impute_reaction reads the issue first and raises when it is non-empty before "
    "build_compounds, and the handler in MCSBasedMethod.run converts that into the row's issue without writing the reaction column; "
    "(X4) the MCS stage never removes rows: rows without a usable condition simply keep the seeded issue."
    ' X1 also treats RDKit calls of the per-row jobs as fallible (the else: branch of a try is not covered by its handlers); (X5) the watchdog pool is private to the job and releasing it does not wait for the running job (`with ThreadPoolExecutor`, shutdown() without wait=False and join() do wait); (X6) failed jobs keep their position in every per-condition table.'
    ' (X9) results are attached through the id -> index map (shared with C06-B2); (X10) stage code outside the per-row handlers does not unpack zip(*records) of a possibly empty list.'
    ' (X11) a search condition is subscripted only with keys every condition of the table defines; X7 covers the stage functions as well.'
    ' (X12) the statements of a handler that records a per-reaction fault cannot raise on any exception object (no index into a computed value, no foreign calls; shared with C06-B16). (X13) those handlers include a catch-all or the awaited work is itself fenced (shared with C06-B14).'
    ' (X14) stage code outside the per-row handlers takes no min() / max() without default over a list that a failed job leaves empty (keys read off the failure records). (X15) no joblib map on the MCS path is given a timeout.'
    ' (X16) per-condition results are accumulated in iteration order over all searched rows, the timed-out ones included (shared with C10-A4).'
)
ASSUMPTIONS = [
    "a worker thread that is still running after the timeout cannot raise into the caller (it may keep writing into the returned record; the affected row is then declined with a reason - examined, not a violation of the stated property)",
]

SINGLE = "synrbl.SynMCSImputer.SubStructure.mcs_process.single_mcs"
SAFE = "synrbl.SynMCSImputer.SubStructure.mcs_process.single_mcs_safe"
FSG = "synrbl.SynMCSImputer.MissingGraph.find_graph_dict.find_single_graph_parallel"


def pair_job(ctx) -> Func:
    """the per-pair job of the missing-fragment analysis: the function handed to `delayed(..)` inside
    find_single_graph_parallel (a closure on the pinned tree; a module-level function is as good)"""
    host = ctx.prog.func(FSG)
    for c in [n for n in own_nodes(host.node) if isinstance(n, ast.Call)]:
        if isinstance(c.func, ast.Name) and c.func.id == "delayed" and c.args:
            t = ctx.res.resolve_value(c.args[0], host)
            if t and t[0] == "func" and t[1] in ctx.prog.functions:
                return ctx.prog.functions[t[1]]
            if isinstance(c.args[0], ast.Name) and c.args[0].id in host.nested:
                return host.nested[c.args[0].id]
    raise AnalysisError("find_single_graph_parallel no longer hands a job function to delayed(..)")
RUN = "synrbl.SynMCSImputer.mcs_based_method.MCSBasedMethod.run"
IMPUTE = "synrbl.SynMCSImputer.mcs_based_method.impute_reaction"

ANALYSIS_PREFIXES = (
    "synrbl.SynMCSImputer.SubStructure.mcs_graph_detector.",
    "synrbl.SynMCSImputer.MissingGraph.find_missing_graphs.",
    "synrbl.SynMCSImputer.mcs_based_method.impute_reaction",
    "synrbl.SynMCSImputer.mcs_based_method.build_compounds",
    "synrbl.SynMCSImputer.merge.",
)


def _handler_names(h: ast.ExceptHandler) -> Set[str]:
    if h.type is None:
        return {"BaseException"}
    if isinstance(h.type, ast.Tuple):
        return {unparse(x).split(".")[-1] for x in h.type.elts}
    return {unparse(h.type).split(".")[-1]}


def _enclosing_tries(n: ast.AST, fn: ast.AST) -> List[ast.Try]:
    out = []
    prev, cur = n, getattr(n, "_parent", None)
    while cur is not None and cur is not fn:
        if isinstance(cur, ast.Try) and prev in cur.body:
            out.append(cur)
        prev, cur = cur, getattr(cur, "_parent", None)
    return out


def _covered(n: ast.AST, f: Func, need: Set[str]) -> Tuple[bool, Optional[ast.Try]]:
    for t in _enclosing_tries(n, f.node):
        names = set()
        for h in t.handlers:
            names |= _handler_names(h)
        if names & {"Exception", "BaseException"} or need <= names:
            return True, t
    return False, None


def _nonempty_when(test: ast.AST, lst_txt: str):
    """truth value of ``test`` under which the list ``lst_txt`` is known to be non-empty (None: unknown)"""
    if isinstance(test, ast.UnaryOp) and isinstance(test.op, ast.Not):
        w = _nonempty_when(test.operand, lst_txt)
        return None if w is None else (not w)
    if unparse(test) == lst_txt:
        return True
    if isinstance(test, ast.Compare) and len(test.ops) == 1 and isinstance(test.left, ast.Call) and getattr(test.left.func, "id", "") == "len" and test.left.args and unparse(test.left.args[0]) == lst_txt and isinstance(test.comparators[0], ast.Constant):
        op, k = type(test.ops[0]), test.comparators[0].value
        if (op, k) in ((ast.Gt, 0), (ast.NotEq, 0), (ast.GtE, 1)):
            return True
        if (op, k) in ((ast.Eq, 0), (ast.Lt, 1), (ast.LtE, 0)):
            return False
    return None


def _issue_store(ctx, h: ast.ExceptHandler, f: Func, issue_names: Set[str]) -> Optional[ast.Assign]:
    found = _issue_store_in(h, issue_names)
    if found is not None:
        return found
    # flag idiom: the handler only raises a local flag, and an `if <flag>:` block after the try records the issue
    flags = [x.targets[0].id for x in h.body if isinstance(x, ast.Assign) and len(x.targets) == 1 and isinstance(x.targets[0], ast.Name) and isinstance(x.value, ast.Constant) and x.value.value is True]
    if flags and len(flags) == len(h.body):
        for n in own_nodes(f.node):
            if isinstance(n, ast.If) and isinstance(n.test, ast.Name) and n.test.id in flags:
                inits = [a for a in own_nodes(f.node) if isinstance(a, ast.Assign) and any(isinstance(t, ast.Name) and t.id == n.test.id for t in a.targets)]
                # the flag is False unless the handler ran
                if all(isinstance(a.value, ast.Constant) and a.value.value in (True, False) for a in inits):
                    blk = ast.Module(body=n.body, type_ignores=[])
                    got = _issue_store_in(blk, issue_names)
                    if got is not None:
                        return got
    return None


def _issue_store_in(h: ast.AST, issue_names: Set[str]) -> Optional[ast.Assign]:
    for x in ast.walk(h):
        if isinstance(x, ast.Assign) and len(x.targets) == 1 and isinstance(x.targets[0], ast.Subscript):
            k = x.targets[0].slice
            kt = const_str(k) or (k.id if isinstance(k, ast.Name) else (k.attr if isinstance(k, ast.Attribute) else None))
            if kt in issue_names:
                return x
    return None


def _nonempty_text(e: ast.AST, f: Optional[Func] = None) -> bool:
    if isinstance(e, (ast.Name, ast.Attribute)) and f is not None:
        # a module-level constant
        from ..constfold import Unfoldable, fold_in

        try:
            v = fold_in(f, e)
        except Unfoldable:
            return False
        return isinstance(v, str) and v.strip() != ""
    if isinstance(e, ast.Constant):
        return isinstance(e.value, str) and e.value.strip() != ""
    if isinstance(e, ast.JoinedStr):
        return any(isinstance(v, ast.Constant) and str(v.value).strip() for v in e.values)
    if isinstance(e, ast.Call) and isinstance(e.func, ast.Attribute) and e.func.attr == "format":
        return _nonempty_text(e.func.value, f)
    if isinstance(e, ast.BinOp) and isinstance(e.op, ast.Add):
        return _nonempty_text(e.left, f) or _nonempty_text(e.right, f)
    return False


def _empty_on_failure_keys(ctx) -> Set[str]:
    """keys of the per-row records that a failed / timed-out job leaves as `[]` (read off the record displays of the
    job functions)"""
    keys: Set[str] = set()
    for f in (ctx.prog.func(SAFE), ctx.prog.func(SINGLE), pair_job(ctx)):
        for d in [x for x in own_nodes(f.node) if isinstance(x, ast.Dict)]:
            for k, v in zip(d.keys, d.values):
                if k is not None and isinstance(v, ast.List) and not v.elts and isinstance(k, ast.Constant) and isinstance(k.value, str):
                    keys.add(k.value)
    return keys


def rule_x14(ctx) -> None:
    """A failed or timed-out job leaves its record with empty lists (`smiles`, `mcs_results`, ...).  The stage code that
    walks over the records of *all* reactions afterwards runs outside the per-row handlers: `max()` / `min()` of such a
    list without a default raises ValueError for the failed reaction, and the Balancer drops every row of the batch."""
    ctx.rule("C11-X14", "stage code outside the per-row handlers takes no min() / max() without default over a list a failed job leaves empty", 1)
    prog = ctx.prog
    keys = _empty_on_failure_keys(ctx)
    ctx.require(len(keys) >= 3, "the failure records of the per-row jobs no longer carry empty lists (%s)" % sorted(keys))
    jobs = {SAFE, SINGLE, pair_job(ctx).qualname, RUN}
    inside = ctx.res.reachable(sorted(jobs - {RUN}), ctx.graph)
    stage = {q for q in ctx.res.reachable(["synrbl.mcs_search.MCSSearch.find"], ctx.graph) if q.startswith("synrbl.") and q not in inside}
    n = 0
    for q in sorted(stage):
        f = prog.functions.get(q)
        if f is None:
            continue
        n += 1
        for c in calls(f):
            if not (isinstance(c.func, ast.Name) and c.func.id in ("max", "min") and len(c.args) == 1 and not any(k.arg == "default" for k in c.keywords)):
                continue
            exprs = [c.args[0]]
            if isinstance(c.args[0], ast.Name):
                exprs += [v for _s, v, _i in assignments_to(f, c.args[0].id)]
            hit = None
            for e in exprs:
                its = [g.iter for x in ast.walk(e) if isinstance(x, (ast.GeneratorExp, ast.ListComp)) for g in x.generators] + [e]
                for it in its:
                    for y in ast.walk(it):
                        if isinstance(y, ast.Subscript) and isinstance(y.slice, ast.Constant) and y.slice.value in keys:
                            hit = y
            if hit is None:
                continue
            # a length / truth test of that list around the call makes it safe
            cfg = CFG(f.node)
            st_ = c
            while not isinstance(st_, ast.stmt):
                st_ = getattr(st_, "_parent", None)
            nid = cfg.node_of(st_)
            guarded = any(unparse(hit) in unparse(g_) for g_, _p in (cfg.guards(nid) if nid is not None else []))
            ctx.instance("C11-X14", "%s: %s over %s (guarded: %s)" % (q.split("synrbl.", 1)[-1], c.func.id, unparse(hit), guarded), f.loc(c), ok=guarded)
            if not guarded:
                ctx.finding("C11-X14", "%s:extreme-of-possibly-empty:%s" % (q.split("synrbl.", 1)[-1], hit.slice.value), f.loc(c), "%s takes %s() over %s without a default: a failed or timed-out job leaves that list empty, the call raises ValueError outside every per-row handler, and the whole batch is lost with it" % (f.name, c.func.id, unparse(hit)))
    ctx.instance("C11-X14", "%d stage-level function(s) of the MCS stage inspected; lists empty on failure: %s" % (n, sorted(keys)), "", ok=True)


def rule_x15(ctx) -> None:
    """joblib's `Parallel(timeout=..)` is not a per-job limit: when it expires, TimeoutError leaves the whole Parallel
    call - every result of the map is lost, not just the slow job's.  The per-row jobs carry their own watchdog."""
    ctx.rule("C11-X15", "no joblib map on the MCS path is given a `timeout` (it aborts the whole map, not one job)", 2)
    prog = ctx.prog
    scope = {q for q in ctx.res.reachable(["synrbl.mcs_search.MCSSearch.find", RUN], ctx.graph) if q.startswith("synrbl.")}
    n = 0
    for q in sorted(scope):
        f = prog.functions.get(q)
        if f is None:
            continue
        for c in calls(f):
            if unparse(c.func).split(".")[-1] != "Parallel":
                continue
            n += 1
            t = next((k for k in c.keywords if k.arg == "timeout"), None)
            ok = t is None or (isinstance(t.value, ast.Constant) and t.value.value is None)
            ctx.instance("C11-X15", "%s: %s" % (q.split("synrbl.", 1)[-1], unparse(c)[:60]), f.loc(c), ok=ok)
            if not ok:
                ctx.finding("C11-X15", "%s:joblib-map-timeout" % q.split("synrbl.", 1)[-1], f.loc(c), "Parallel(.., timeout=%s): when the wait for a result exceeds it joblib raises TimeoutError out of the whole map, outside every per-row handler: a few slow reactions in one dispatch batch cost every row of the batch" % unparse(t.value)[:30])
    ctx.require(n >= 2, "fewer than 2 joblib maps found on the MCS path (%d)" % n)


def check(ctx) -> None:
    prog = ctx.prog
    pl = Pipeline(ctx)
    ctx.rule("C11-X1", "fallible calls of the per-row jobs are inside covering, non re-raising handlers", 5)
    ctx.rule("C11-X2", "every such handler records a non-empty issue on the current row's record only", 3)
    ctx.rule("C11-X3", "a recorded issue blocks imputation before compounds are built", 3)
    ctx.rule("C11-X4", "the MCS stage never removes rows", 2)
    jobs = [
        (prog.func(SINGLE), {"issue_col", "issue"}),
        (prog.func(SAFE), {"issue_col", "issue"}),
        (pair_job(ctx), {"issue"}),
        (prog.func(RUN), {"issue_col"}),
    ]
    from ..util import param_attrs

    jobs = [(f_, names_ | (param_attrs(f_.cls, "issue_col") if f_.cls is not None else set())) for f_, names_ in jobs]
    for f, issue_names in jobs:
        short = f.qualname.split("synrbl.", 1)[-1]
        fallible = []
        for c in calls(f):
            tgt = ctx.res.resolve_callee(c, f)
            q = tgt[1] if tgt and tgt[0] in ("func", "class") else ""
            if any(q.startswith(p) for p in ANALYSIS_PREFIXES):
                fallible.append((c, q, {"Exception"}))
            elif not q:
                # toolkit calls on objects produced by the analysis (MolToSmiles(None) raises)
                d = dotted(c.func) or ""
                root = d.split(".")[0]
                r = prog.resolve_dotted(f.module, root) if root else None
                if isinstance(r, str) and r.split(".")[0] == "rdkit" and "." in d:
                    fallible.append((c, d, {"Exception"}))
            if isinstance(c.func, ast.Attribute) and c.func.attr == "get" and c.args and not c.keywords and isinstance(c.func.value, ast.Name) and "result" in c.func.value.id:
                fallible.append((c, "AsyncResult.get", {"TimeoutError"}))
            if isinstance(c.func, ast.Attribute) and c.func.attr == "apply_async":
                # the worker function is run by the pool: its failure surfaces in get()
                pass
        ctx.require(fallible, "%s: no fallible call recognised (analysis call / AsyncResult.get)" % short)
        handled_tries = []
        for c, q, need in fallible:
            # single_mcs is itself total (catches everything); calling it through the pool needs only the timeout handler
            ok, t = _covered(c, f, need)
            ctx.instance("C11-X1", "%s: %s covered by handler(s)" % (short, q or unparse(c.func)), f.loc(c), ok=ok)
            if not ok:
                ctx.finding("C11-X1", "%s:uncovered:%s" % (short, q.split(".")[-1] or "call"), f.loc(c), "call %s can raise out of the per-row job (no enclosing handler for %s); the exception aborts the whole batch" % (unparse(c.func), sorted(need)))
            elif t is not None and t not in handled_tries:
                handled_tries.append(t)
        for t in handled_tries:
            for h in t.handlers:
                reraises = any(isinstance(x, ast.Raise) for x in ast.walk(h))
                st = _issue_store(ctx, h, f, issue_names)
                sval = st.value if st is not None else None
                if isinstance(sval, ast.Name):
                    # a local of the handler bound once (`msg = str(e)`; `row[issue] = msg`)
                    d_ = [v for x in ast.walk(h) if isinstance(x, ast.Assign) and len(x.targets) == 1 and isinstance(x.targets[0], ast.Name) and x.targets[0].id == sval.id for v in [x.value]]
                    if len(d_) == 1:
                        sval = d_[0]
                text_ok = st is not None and _nonempty_text(sval, f) or (st is not None and isinstance(sval, ast.Call) and getattr(sval.func, "id", "") == "str")
                # writes in the handler: only the issue of the local record
                others = [x for x in ast.walk(h) if isinstance(x, ast.Assign) and x is not st and any(isinstance(tg, ast.Subscript) for tg in x.targets)]
                ok1 = not reraises
                ctx.instance("C11-X1", "%s: handler %s does not re-raise" % (short, sorted(_handler_names(h))), f.loc(h), ok=ok1)
                if not ok1:
                    ctx.finding("C11-X1", "%s:handler-reraises:%s" % (short, "|".join(sorted(_handler_names(h)))), f.loc(h), "the handler re-raises; a failure of one reaction aborts the batch")
                ok2 = st is not None and text_ok and not others
                ctx.instance("C11-X2", "%s: handler %s records an issue on the row's record" % (short, sorted(_handler_names(h))), f.loc(h), ok=ok2)
                if st is None:
                    ctx.finding("C11-X2", "%s:handler-no-issue:%s" % (short, "|".join(sorted(_handler_names(h)))), f.loc(h), "the handler swallows the failure without recording an issue on the row (the row would look searched and fine)")
                elif not text_ok:
                    ctx.finding("C11-X2", "%s:handler-empty-issue:%s" % (short, "|".join(sorted(_handler_names(h)))), f.loc(st), "the recorded issue may be empty")
                if others:
                    ctx.finding("C11-X2", "%s:handler-extra-writes:%s" % (short, "|".join(sorted(_handler_names(h)))), f.loc(others[0]), "the handler also writes %s" % unparse(others[0])[:60])
                # the record written belongs to the current row: local created in this call or the loop element
                if st is not None:
                    base = st.targets[0].value
                    ok3 = isinstance(base, ast.Name) and (base.id in f.params or bool(assignments_to(f, base.id)) or any(base.id in {x.id for x in ast.walk(l.target) if isinstance(x, ast.Name)} for l in own_nodes(f.node) if isinstance(l, ast.For)))
                    if not ok3:
                        ctx.finding("C11-X2", "%s:handler-foreign-record" % short, f.loc(st), "the issue is written to %s, which is not the record of the current row" % unparse(base))
    # ---------------------------------------------------------------- X8
    # code of the stage that runs *outside* the per-row handlers (selection among conditions, write-back) must not index
    # into a result list that a failed / timed-out job leaves empty without testing it first
    ctx.rule("C11-X8", "the selection step reads element [k] of a per-job result list only under a non-emptiness test of that list", 1)
    LIST_FIELDS = {"mcs_results", "sorted_reactants", "smiles", "boundary_atoms_products", "nearest_neighbor_products"}
    sel_funcs = [g for q, g in prog.functions.items() if q.startswith("synrbl.SynMCSImputer.SubStructure.extract_common_mcs.ExtractMCS.") or q == "synrbl.mcs_search.MCSSearch.find"]
    n_x8 = 0
    for g in sel_funcs:
        gcfg = None
        for n in own_nodes(g.node):
            alias_of = None
            if isinstance(n, ast.Subscript) and isinstance(n.slice, ast.Constant) and isinstance(n.slice.value, int) and isinstance(n.value, ast.Name) and isinstance(n.ctx, ast.Load):
                d_ = assignments_to(g, n.value.id)
                if len(d_) == 1 and d_[0][2] is None and isinstance(d_[0][1], ast.Subscript) and const_str(d_[0][1].slice) in LIST_FIELDS:
                    alias_of = d_[0][1]
            if (isinstance(n, ast.Subscript) and isinstance(n.slice, ast.Constant) and isinstance(n.slice.value, int) and isinstance(n.value, ast.Subscript) and const_str(n.value.slice) in LIST_FIELDS and isinstance(n.ctx, ast.Load)) or alias_of is not None:
                lst_txt = unparse(n.value)
                n_x8 += 1
                guarded = False
                # conditional expression around it
                cur, par = n, getattr(n, "_parent", None)
                while par is not None and par is not g.node:
                    if isinstance(par, ast.IfExp) and lst_txt in unparse(par.test):
                        w = _nonempty_when(par.test, lst_txt)
                        if (w is True and cur is par.body) or (w is False and cur is par.orelse):
                            guarded = True
                    if isinstance(par, ast.comprehension) or isinstance(par, (ast.ListComp, ast.GeneratorExp)):
                        for gen in getattr(par, "generators", []):
                            if any(lst_txt in unparse(c_) for c_ in gen.ifs):
                                guarded = True
                    if isinstance(par, ast.BoolOp) and isinstance(par.op, ast.And) and any(lst_txt in unparse(v_) for v_ in par.values[: par.values.index(cur)] if cur in par.values):
                        guarded = True
                    cur, par = par, getattr(par, "_parent", None)
                if not guarded:
                    if gcfg is None:
                        gcfg = CFG(g.node)
                    nid = gcfg.node_of(n)
                    if nid is not None:
                        guarded = any(_nonempty_when(c_, lst_txt) is _pol for c_, _pol in gcfg.guards(nid) if lst_txt in unparse(c_))
                    # inside a try that catches IndexError / Exception
                    ok_t, _t = _covered(n, g, {"IndexError"})
                    guarded = guarded or ok_t
                ctx.instance("C11-X8", "%s: %s" % (g.name, unparse(n)[:60]), g.loc(n), ok=guarded)
                if not guarded:
                    ctx.finding("C11-X8", "%s:unguarded-index:%s" % (g.qualname.split("synrbl.", 1)[-1].split(".")[-1], const_str((alias_of if alias_of is not None else n.value).slice)), g.loc(n), "%s is read without testing that the list is non-empty; a reaction whose search failed or timed out under every condition has an empty list, the IndexError escapes the MCS stage and the whole batch is dropped" % unparse(n)[:60])
    ctx.require(n_x8 >= 1, "no indexed read of a per-job result list found in the selection step")
    # ---------------------------------------------------------------- X10
    # the stage functions outside the per-row handlers see an *empty* list of records when every reaction of the batch
    # failed: unpacking `a, b = zip(*records)` raises for an empty list unless an emptiness test returns first
    ctx.rule("C11-X10", "stage code outside the per-row handlers does not unpack zip(*records) of a possibly empty list", 0)
    stage_funcs = [g for q, g in prog.functions.items() if q.startswith("synrbl.SynMCSImputer.MissingGraph.find_graph_dict.") or q.startswith("synrbl.SynMCSImputer.SubStructure.extract_common_mcs.") or q in ("synrbl.mcs_search.MCSSearch.find",)]
    n_x10 = 0
    for g in stage_funcs:
        if g.parent is not None:
            continue
        gcfg = None
        for n in own_nodes(g.node):
            if isinstance(n, ast.Assign) and len(n.targets) == 1 and isinstance(n.targets[0], (ast.Tuple, ast.List)) and isinstance(n.value, ast.Call) and getattr(n.value.func, "id", "") == "zip" and any(isinstance(a, ast.Starred) for a in n.value.args):
                n_x10 += 1
                star = next(a for a in n.value.args if isinstance(a, ast.Starred))
                srcs = {x.id for x in ast.walk(star.value) if isinstance(x, ast.Name) and (x.id in g.params or assignments_to(g, x.id))}
                gcfg = gcfg or CFG(g.node)
                nid = gcfg.node_of(n)
                guarded = False
                for c_, pol in gcfg.guards(nid) if nid is not None else []:
                    for nm in srcs:
                        if _nonempty_when(c_, nm) is pol:
                            guarded = True
                ok_t, _t = _covered(n, g, {"ValueError"})
                guarded = guarded or ok_t
                ctx.instance("C11-X10", "%s: %s (non-emptiness of %s established: %s)" % (g.name, unparse(n)[:60], sorted(srcs), guarded), g.loc(n), ok=guarded)
                if not guarded:
                    ctx.finding("C11-X10", "%s:unpack-of-empty-zip" % g.qualname.split("synrbl.", 1)[-1].split(".")[-1], g.loc(n), "%s unpacks zip(*..) of %s without an emptiness test: when every reaction that reached the MCS stage failed or timed out the list is empty, the ValueError escapes the stage and the whole batch is dropped" % (g.name, sorted(srcs)))
    if n_x10 == 0:
        ctx.note("C11-X10: no unpacking of zip(*records) in the stage functions on this tree")
    # ---------------------------------------------------------------- X11
    # the search conditions are a table of dicts with different key sets (the MCES condition has no ring options); stage
    # code that runs outside the per-row handlers may subscript a condition only with keys every condition has
    ctx.rule("C11-X11", "a search condition is subscripted only with keys that every condition of the table defines", 1)
    ms_init = prog.func("synrbl.mcs_search.MCSSearch.__init__")
    table = None
    for n in own_nodes(ms_init.node):
        if isinstance(n, ast.Assign) and any(isinstance(t, ast.Attribute) and t.attr == "conditions" for t in n.targets) and isinstance(n.value, (ast.List, ast.Tuple)):
            table = [d for d in n.value.elts if isinstance(d, ast.Dict)]
    common = None
    if table:
        for d in table:
            ks = {const_str(k) for k in d.keys if k is not None}
            common = ks if common is None else (common & ks)
    else:
        # the table is computed (constants, a helper): fold it
        from ..constfold import Unfoldable, fold_in

        for n in own_nodes(ms_init.node):
            if isinstance(n, ast.Assign) and any(isinstance(t, ast.Attribute) and t.attr == "conditions" for t in n.targets):
                try:
                    val = fold_in(ms_init, n.value, prog)
                    if isinstance(val, (list, tuple)) and val and all(isinstance(x, dict) for x in val):
                        table = list(val)
                        for x in val:
                            common = set(x) if common is None else (common & set(x))
                except Unfoldable:
                    pass
    if common is None:
        ctx.note("C11-X11: the conditions table of MCSSearch is not a literal on this tree; key agreement not decided")
        common = None
    ens = prog.func("synrbl.SynMCSImputer.SubStructure.mcs_process.ensemble_mcs")
    cond_vars = set()
    for l in own_nodes(ens.node):
        if isinstance(l, (ast.For, ast.comprehension)) and any(isinstance(x, ast.Name) and x.id == "conditions" for x in ast.walk(l.iter)):
            cond_vars |= {x.id for x in ast.walk(l.target) if isinstance(x, ast.Name)}
    n_x11 = 0
    for n in own_nodes(ens.node):
        if common is None:
            break
        if isinstance(n, ast.Subscript) and isinstance(n.ctx, ast.Load) and isinstance(n.value, ast.Name) and n.value.id in cond_vars and const_str(n.slice) is not None:
            n_x11 += 1
            k = const_str(n.slice)
            ok_t, _t = _covered(n, ens, {"KeyError"})
            ok = k in common or ok_t
            ctx.instance("C11-X11", "ensemble_mcs reads condition[%r] (keys of every condition: %s)" % (k, sorted(common)), ens.loc(n), ok=ok)
            if not ok:
                ctx.finding("C11-X11", "mcs_process.ensemble_mcs:condition-key:%s" % k, ens.loc(n), "ensemble_mcs reads condition[%r], a key that not every search condition defines (common keys: %s): for the condition without it the KeyError leaves the MCS stage and the whole batch is dropped" % (k, sorted(common)))
    ctx.instance("C11-X11", "%d constant-key read(s) of a condition in ensemble_mcs; table of %d conditions" % (n_x11, len(table or [])), ens.loc(), ok=True)
    # ---------------------------------------------------------------- X7
    # the per-row jobs keep no state between calls: an outcome that depends on the clock (a timeout) must not be
    # remembered and replayed for other rows (shared with C06-B4, restricted to what the jobs reach)
    from . import c06

    job_scope = ctx.res.reachable([f.qualname for f, _ in jobs if f.qualname != RUN] + ["synrbl.mcs_search.MCSSearch.find"], ctx.graph)
    c06.rule_b4(ctx, {q for q in job_scope if q.startswith("synrbl.SynMCSImputer.") or q.startswith("synrbl.mcs_search.")}, "C11-X7", class_level=False)
    # ---------------------------------------------------------------- X5
    ctx.rule("C11-X5", "every per-row job waits on a private one-thread pool that is created and terminated inside the job", 2)
    for f, _ in jobs:
        pools = [n for n in own_nodes(f.node) if isinstance(n, ast.Assign) and isinstance(n.value, ast.Call) and unparse(n.value.func).split(".")[-1] in ("ThreadPool", "Pool", "ThreadPoolExecutor")]
        asyncs = [c for c in calls(f) if isinstance(c.func, ast.Attribute) and c.func.attr in ("apply_async", "submit")]
        if not asyncs:
            continue
        short = f.qualname.split("synrbl.", 1)[-1]
        for a in asyncs:
            recv = a.func.value
            local = isinstance(recv, ast.Name) and any(isinstance(p.targets[0], ast.Name) and p.targets[0].id == recv.id for p in pools)
            term = [c for c in calls(f) if isinstance(c.func, ast.Attribute) and c.func.attr in ("terminate", "shutdown", "close") and unparse(c.func.value) == unparse(recv)]
            # `with ThreadPool(1) as pool:` creates and terminates the pool in the job
            managed = isinstance(recv, ast.Name) and any(
                isinstance(w, ast.withitem) and isinstance(w.optional_vars, ast.Name) and w.optional_vars.id == recv.id and isinstance(w.context_expr, ast.Call) and unparse(w.context_expr.func).split(".")[-1] in ("ThreadPool", "Pool", "ThreadPoolExecutor")
                for w in own_nodes(f.node)
            )
            # does leaving the job wait for a worker that is still running?  (library facts: ThreadPool.__exit__ and
            # terminate() do not join a busy worker; Executor.__exit__ is shutdown(wait=True), which does)
            kind = None
            for p_ in pools:
                if isinstance(p_.targets[0], ast.Name) and isinstance(recv, ast.Name) and p_.targets[0].id == recv.id:
                    kind = unparse(p_.value.func).split(".")[-1]
            for w in own_nodes(f.node):
                if isinstance(w, ast.withitem) and isinstance(w.optional_vars, ast.Name) and isinstance(recv, ast.Name) and w.optional_vars.id == recv.id and isinstance(w.context_expr, ast.Call):
                    kind = unparse(w.context_expr.func).split(".")[-1]
            blocking = None
            if kind in ("ThreadPoolExecutor", "ProcessPoolExecutor"):
                if managed:
                    blocking = "leaving `with %s(...)` calls shutdown(wait=True)" % kind
                for c in term:
                    if c.func.attr == "shutdown":
                        wv = next((k.value for k in c.keywords if k.arg == "wait"), c.args[0] if c.args else None)
                        if not (isinstance(wv, ast.Constant) and wv.value is False):
                            blocking = "shutdown() waits for the running job"
            joins = [c for c in calls(f) if isinstance(c.func, ast.Attribute) and c.func.attr == "join" and unparse(c.func.value) == unparse(recv)]
            if joins:
                blocking = "%s.join() waits for the running job" % unparse(recv)
            ok = ((local and len(term) >= 1) or managed) and blocking is None
            if blocking is not None:
                ctx.instance("C11-X5", "%s: releasing %s blocks until the job returns (%s)" % (short, unparse(recv), blocking), f.loc(a), ok=False)
                ctx.finding("C11-X5", "%s:watchdog-waits-for-job" % short, f.loc(a), "the time limit on the job is not enforced: %s, so a search that hangs or overruns holds up the whole batch" % blocking)
                continue
            ctx.instance("C11-X5", "%s: job submitted to %s (created in the job: %s, terminated: %d site(s))" % (short, unparse(recv), local, len(term)), f.loc(a), ok=ok)
            if not ok:
                ctx.finding("C11-X5", "%s:shared-watchdog-pool" % short, f.loc(a), "the job is submitted to %s, which is not a pool created and terminated inside this job: a search that runs past its timeout keeps the shared worker busy and the following, unaffected reactions time out behind it" % unparse(recv))
    # ---------------------------------------------------------------- X3
    imp = prog.func(IMPUTE)
    icfg = CFG(imp.node)
    bc = [c for c in calls(imp) if (ctx.res.resolve_callee(c, imp) or (None, ""))[1].endswith("build_compounds")]
    ctx.require(bc, "impute_reaction no longer calls build_compounds")
    raise_if = None
    for n in own_nodes(imp.node):
        if isinstance(n, ast.If) and any(isinstance(x, ast.Raise) for x in n.body):
            from ..cfg import normal_compare

            nc = normal_compare(n.test, True)
            if nc is not None and nc[1] == "!=":
                sides = [nc[0], nc[2]]
                if any(isinstance(x, ast.Constant) and x.value == "" for x in sides) and any(isinstance(x, ast.Name) and "issue" in x.id for x in sides):
                    raise_if = n
            elif isinstance(n.test, ast.Name) and "issue" in n.test.id:
                raise_if = n
    ok = raise_if is not None and all(icfg.dominates(icfg.node_of(raise_if), icfg.node_of(c)) for c in bc)
    src_ok = False
    if raise_if is not None:
        nm = [x for x in names_in(raise_if.test)]
        for name in nm:
            for _, v, _i in assignments_to(imp, name):
                if "issue_col" in unparse(v) and imp.params[0] in names_in(v):
                    src_ok = True
    ctx.instance("C11-X3", "impute_reaction raises on a non-empty issue before build_compounds", imp.loc(raise_if) if raise_if else imp.loc(), ok=ok and src_ok)
    if not (ok and src_ok):
        ctx.finding("C11-X3", "mcs_based_method.impute_reaction:issue-gate", imp.loc(), "impute_reaction does not refuse rows with a recorded issue before building compounds (a timed-out search would be imputed from partial data)")
    run = prog.func(RUN)
    st = next((s for s in pl.stages if s.callee is run), None)
    ctx.require(st is not None, "MCSBasedMethod.run is not a pipeline stage")
    rc = pl.reaction_col.text
    for s in st.stores:
        if s.func is run and rc in s.keytexts:
            okh = not s.handlers
            ctx.instance("C11-X3", "reaction column is written only on the success path of the try", s.where(), ok=okh)
            if not okh:
                ctx.finding("C11-X3", "mcs_based_method.MCSBasedMethod.run:reaction-write-in-handler", s.where(), "the reaction column is written on the failure path")
    # issue written by the handler is the instance's issue column == pipeline issue column
    okc = st.inst is not None and st.inst.get("issue_col") == frozenset({pl.issue_col})
    ctx.instance("C11-X3", "MCSBasedMethod records failures in the pipeline's issue column", st.where(), ok=okc)
    if not okc:
        ctx.finding("C11-X3", "Balancer.mcs_method:issue_col", st.where(), "MCSBasedMethod writes failures to another column than the pipeline's issue column")
    # ---------------------------------------------------------------- X4
    for stage in pl.stages:
        if stage.attr not in ("mcs_search", "mcs_method"):
            continue
        g = stage.callee
        rows = g.params[1]
        bad = None
        for n in own_nodes(g.node):
            if isinstance(n, ast.Call) and isinstance(n.func, ast.Attribute) and isinstance(n.func.value, ast.Name) and n.func.value.id == rows and n.func.attr in ("remove", "pop", "clear", "sort", "reverse", "insert"):
                bad = n
            if isinstance(n, ast.Delete) and any(isinstance(t, ast.Subscript) and isinstance(t.value, ast.Name) and t.value.id == rows for t in n.targets):
                bad = n
        rets = [n for n in own_nodes(g.node) if isinstance(n, ast.Return) and n.value is not None]
        same = all(isinstance(r.value, ast.Name) and r.value.id == rows for r in rets)
        ctx.instance("C11-X4", "stage %s keeps every row (no removal, returns the same list)" % stage.label, stage.where(), ok=bad is None and same)
        if bad is not None:
            ctx.finding("C11-X4", "%s:row-removed" % g.qualname.split("synrbl.", 1)[-1], g.loc(bad), "the MCS stage removes rows from the list: %s" % unparse(bad)[:50])
        if not same:
            ctx.finding("C11-X4", "%s:returns-other-list" % g.qualname.split("synrbl.", 1)[-1], g.loc(), "the MCS stage returns something other than the row list it was given")
    # X6: a failed job keeps its slot in the per-condition tables (shared with C10-A2)
    from . import c10

    ctx.rule("C11-X6", "failed / timed-out jobs keep their position in every per-condition table", 1)
    c10.totals_alignment(ctx, "C11-X6")
    # X9: a reaction whose search failed under every condition has no entry in the result tables; the results of the
    # others are attached through the id -> index map, never by position (shared with C06-B2)
    c06.rule_b2(ctx, pl, "C11-X9")
    # X12: the handlers that record a fault cannot fail themselves (shared with C06-B16); X13: they are complete
    # (shared with C06-B14)
    c06.rule_fence_handler_total(ctx, ctx.pipeline_reachable(), "C11-X12")
    c06.rule_b14(ctx, ctx.pipeline_reachable(), "C11-X13")
    rule_x14(ctx)
    rule_x15(ctx)
    # X16: the selection step compares the per-condition tables position by position, so every table lists the searched
    # reactions in the same order, the timed-out ones included: results are accumulated in iteration order over all rows
    # (shared with C10-A4)
    en16 = prog.func("synrbl.SynMCSImputer.SubStructure.mcs_process.ensemble_mcs")
    pc16 = [c for c in calls(en16) if unparse(c.func).split(".")[-1] == "Parallel"]
    ctx.rule("C11-X16", "per-condition results are accumulated in iteration order over all searched rows", 1)
    ok16 = bool(pc16) and c10._accumulates_in_order(en16, pc16)
    ctx.instance("C11-X16", "ensemble_mcs: results appended in iteration order per condition", en16.loc(), ok=ok16)
    if not ok16:
        ctx.finding("C11-X16", "mcs_process.ensemble_mcs:accumulation", en16.loc(), "the per-condition tables no longer list all searched reactions in the same order (rows skipped, pre-filled or re-ordered): the selection step compares the tables by position, so after one timeout every reaction listed before it is compared with a neighbour's results")
