"""C17 - benchmark comparison ignores molecule order (ordering clause)."""

from __future__ import annotations

import ast
from typing import Optional

from ..cfg import CFG, normal_compare
from ..model import own_nodes, unparse
from ..util import assignments_to, calls

EXPLANATION = (
    "Decides the ordering clause of C17: (O1) the sort that defines the normal form of a multiset of component SMILES in "
    "normalize_smiles is a total order on the elements - no key, or a key that contains the element itself (hence injective); a key "
    "such as (atom count, sum of character codes) ties for isomers and lets the input order leak through a stable sort; (O2) "
    "wc_similarity returns exactly 1 on the branch guarded by equality of the two normalised strings, before any fingerprint code, "
    "and both strings come from normalize_smiles of the two arguments; the benchmark normalises both sides with the same function.  "
    "Idempotence / spelling invariance of RDKit canonicalisation and symmetry / range of the fingerprint functions themselves are NOT decided (O3 and O10 decide the structural part: mirrored difference lists, returned values built from bounded operations only)."
    ' (O3) the two difference lists of _get_diff_mol are filled symmetrically; (O4) the atom-map removal applied first keeps the molecule (shared with C15-Rg1/Rg2); (O5) every return of normalize_smiles is a join of recursive results or canon_smiles(...).'
    ' (O1/O5 also follow a helper that builds the normal form for normalize_smiles); (O6) nothing reachable from the comparison mutates a container shared between calls (module level, mutable default, memoised result); (O7) canon_smiles sanitises with every RDKit step.'
    ' (O8) a hand-made memo decorator on the normalisation path keys on every argument; (O9) the benchmark compares the normal forms of the same row.'
    ' (O10) every value wc_similarity returns is a similarity, a constant in [0, 1] or a min / max of such values; a start value outside the interval must be replaced on every path (loops entered from outside run at least once).'
    " (O11) the benchmark judges each row by that row's similarity (pandas label-alignment rule)."
    ' (O12) the benchmark reads the reactions it compares as written (shared with C02-T8). (O13) in the two-molecule fingerprint helper every statement that reads one molecule has its mirror image for the other (compared up to the names it is bound to).'
)
ASSUMPTIONS = ["Python's list.sort is stable and orders tuples lexicographically"]

NORM = "synrbl.SynUtils.chem_utils.normalize_smiles"
WC = "synrbl.SynUtils.chem_utils.wc_similarity"


def key_is_injective(key: Optional[ast.AST], lookup=None) -> (bool, str):
    if key is None:
        return True, "no key: elements are compared themselves"
    if isinstance(key, ast.Lambda) and len(key.args.args) == 1:
        p = key.args.args[0].arg
        b = key.body
        if isinstance(b, ast.Name) and b.id == p:
            return True, "key is the element"
        if isinstance(b, ast.Tuple) and any(isinstance(e, ast.Name) and e.id == p for e in b.elts):
            return True, "key tuple contains the element itself"
        return False, "key %s does not contain the element itself, so distinct molecules can tie" % unparse(b)
    if isinstance(key, ast.Name) and key.id in ("str", "repr"):
        return True, "key is the identity on strings"
    if isinstance(key, ast.Name) and lookup is not None:
        g = lookup(key.id)
        if g is not None and len(g.params) == 1:
            body = [x for x in g.node.body if not (isinstance(x, ast.Expr) and isinstance(x.value, ast.Constant))]
            if len(body) == 1 and isinstance(body[0], ast.Return) and body[0].value is not None:
                lam = ast.Lambda(args=ast.arguments(posonlyargs=[], args=[ast.arg(arg=g.params[0])], kwonlyargs=[], kw_defaults=[], defaults=[]), body=body[0].value)
                return key_is_injective(lam)
    return False, "key %s is not recognised as injective" % unparse(key)


def _memo_target(prog, f, depth: int = 0):
    """`f` when it does the work itself; the wrapped function when every return of `f` forwards its argument to one
    function `g`, directly or through a module-level memo `X = lru_cache(..)(g)` / `X = cache(g)`"""
    if depth > 3:
        return f
    rets = [r for r in own_nodes(f.node) if isinstance(r, ast.Return) and r.value is not None]
    targets = set()
    for r in rets:
        v = r.value
        if not (isinstance(v, ast.Call) and isinstance(v.func, ast.Name) and len(v.args) == 1 and isinstance(v.args[0], ast.Name) and v.args[0].id in f.params and not v.keywords):
            return f
        nm = v.func.id
        g = prog.functions.get(f.module.name + "." + nm)
        if g is None:
            a = f.module.assigns.get(nm)
            inner = None
            if isinstance(a, ast.Call) and len(a.args) == 1 and isinstance(a.args[0], ast.Name):
                fn = a.func.func if isinstance(a.func, ast.Call) else a.func
                if unparse(fn).split(".")[-1] in ("lru_cache", "cache"):
                    inner = a.args[0].id
            g = prog.functions.get(f.module.name + "." + inner) if inner else None
        if g is None:
            return f
        targets.add(g.qualname)
    if len(targets) != 1:
        return f
    return _memo_target(prog, prog.functions[targets.pop()], depth + 1)


def rule_o6(ctx) -> None:
    """The normal form of a string must not depend on what was compared before: nothing reachable from the comparison
    mutates a container shared between calls (module level, mutable default, memoised result)."""
    from . import c06

    roots = [NORM, WC, "synrbl.SynUtils.chem_utils._get_diff_mol"]
    scope = {q for q in ctx.res.reachable(roots, ctx.graph) if q.startswith("synrbl.SynUtils.")}
    c06.rule_b4(ctx, scope, "C17-O6", class_level=False)


def rule_o8(ctx) -> None:
    """A hand-made memo decorator on the normalisation path must key on every argument it forwards: a table keyed by the
    SMILES alone returns, for the default call, what an earlier call with another option stored."""
    ctx.rule("C17-O8", "a memo decorator on the normalisation path keys on every argument of the decorated function", 0)
    prog = ctx.prog
    roots = [NORM, WC, "synrbl.SynUtils.chem_utils._get_diff_mol"]
    scope = {q for q in ctx.res.reachable(roots, ctx.graph) if q.startswith("synrbl.SynUtils.")}
    n = 0
    for q in sorted(scope):
        g = prog.functions.get(q)
        if g is None:
            continue
        for d in getattr(g.node, "decorator_list", []):
            dn = d.func if isinstance(d, ast.Call) else d
            D = prog.functions.get(g.module.name + "." + unparse(dn)) if isinstance(dn, ast.Name) else None
            if D is None:
                continue
            wrappers = [x for x in ast.walk(D.node) if isinstance(x, ast.FunctionDef) and x is not D.node]
            for W in wrappers:
                closure_names = {t.id for a in own_nodes(D.node) if isinstance(a, (ast.Assign, ast.AnnAssign)) for t in (a.targets if isinstance(a, ast.Assign) else [a.target]) if isinstance(t, ast.Name)}
                keys = [t.slice for a in ast.walk(W) if isinstance(a, ast.Assign) for t in a.targets if isinstance(t, ast.Subscript) and isinstance(t.value, ast.Name) and t.value.id in closure_names]
                if not keys:
                    continue
                n += 1
                key_names = {x.id for k in keys for x in ast.walk(k) if isinstance(x, ast.Name)}
                wparams = [a.arg for a in W.args.posonlyargs + W.args.args + W.args.kwonlyargs] + ([W.args.vararg.arg] if W.args.vararg else []) + ([W.args.kwarg.arg] if W.args.kwarg else [])
                forwarded = set()
                for c in ast.walk(W):
                    if isinstance(c, ast.Call) and isinstance(c.func, ast.Name) and c.func.id in D.params:
                        forwarded |= {x.id for a in list(c.args) + [k.value for k in c.keywords] for x in ast.walk(a) if isinstance(x, ast.Name)}
                missing = [p_ for p_ in wparams if p_ in forwarded and p_ not in key_names]
                gparams = [p_ for p_ in g.params + g.kwonly]
                ok = not missing or len(gparams) <= len([p_ for p_ in wparams if p_ in key_names])
                ctx.instance("C17-O8", "%s memoised by %s: key over %s, forwards %s; the function takes %s" % (g.name, D.name, sorted(key_names), sorted(forwarded), gparams), g.loc(), ok=ok)
                if not ok:
                    ctx.finding("C17-O8", "chem_utils.%s:memo-key-incomplete" % g.name, g.loc(), "%s is memoised by %s under a key made of %s only, but takes %s: a result stored for one value of the other argument(s) is returned for every later call with the same SMILES" % (g.name, D.name, sorted(key_names), gparams))
    if n == 0:
        ctx.note("C17-O8: no hand-made memo decorator on the normalisation path on this tree")


def rule_o9(ctx) -> None:
    """The benchmark compares the expected and the actual reaction *of one row*.  Both arguments of wc_similarity are
    normal forms of fields of the current row; if they are drawn from pre-computed lists, those lists keep one entry per
    row of the frame that is iterated (no dropna / unique / filter), otherwise a gap shifts every later pair."""
    ctx.rule("C17-O9", "the benchmark compares the two normal forms of the same row", 1)
    prog = ctx.prog
    bf = prog.func("synrbl.SynCmd.cmd_benchmark.run")
    wcs = [c for c in calls(bf) if (ctx.res.resolve_callee(c, bf) or ("", ""))[1] == WC]
    ctx.require(wcs, "the benchmark no longer calls wc_similarity")
    FILTERS = ("dropna", "unique", "drop_duplicates", "query", "nunique", "filter")

    def norm_like(q, depth=0) -> bool:
        """normalize_smiles itself, or a wrapper (memo, logging) whose every return is normalize_smiles(<its argument>)"""
        if q == NORM:
            return True
        g = prog.functions.get(q)
        if g is None or depth > 2:
            return False
        rets = [r for r in own_nodes(g.node) if isinstance(r, ast.Return) and r.value is not None]
        return bool(rets) and all(isinstance(r.value, ast.Call) and r.value.args and isinstance(r.value.args[0], ast.Name) and r.value.args[0].id in g.params and norm_like((ctx.res.resolve_callee(r.value, g) or ("", ""))[1], depth + 1) for r in rets)

    def origin(e, depth=0):
        """('row', <row variable>) | ('list', <why it is / is not aligned>, aligned?)"""
        if depth > 5:
            return ("unknown", unparse(e)[:40], False)
        if isinstance(e, ast.Call) and e.args:
            tgt = ctx.res.resolve_callee(e, bf)
            if tgt and tgt[0] == "func" and norm_like(tgt[1]):
                return origin(e.args[0], depth + 1)
        if isinstance(e, ast.Subscript) and isinstance(e.value, ast.Name):
            lb = [l for l in own_nodes(bf.node) if isinstance(l, ast.For) and any(isinstance(x, ast.Name) and x.id == e.value.id for x in ast.walk(l.target))]
            if lb:
                return ("row", e.value.id, True)
        if isinstance(e, ast.Name):
            # bound by the loop header from a pre-computed list?
            for l in [x for x in own_nodes(bf.node) if isinstance(x, ast.For)]:
                if isinstance(l.iter, ast.Call) and getattr(l.iter.func, "id", "") == "zip" and isinstance(l.target, ast.Tuple):
                    for t_, a_ in zip(l.target.elts, l.iter.args):
                        if isinstance(t_, ast.Name) and t_.id == e.id:
                            txt = unparse(a_)
                            if isinstance(a_, ast.Name):
                                for _s, v, _i in assignments_to(bf, a_.id):
                                    txt += " = " + unparse(v)
                                    if isinstance(v, ast.Call):
                                        tg = ctx.res.resolve_callee(v, bf)
                                        if tg and tg[0] == "func" and tg[1] in prog.functions:
                                            txt += " :: " + unparse(prog.functions[tg[1]].node)
                            bad = [w for w in FILTERS if "." + w + "(" in txt] + (["if"] if " if " in txt and " for " in txt else [])
                            return ("list", "%s (%s)" % (unparse(a_)[:30], "filtered by " + "/".join(bad) if bad else "one entry per row"), not bad)
            defs = assignments_to(bf, e.id)
            if len(defs) == 1 and defs[0][2] is None:
                return origin(defs[0][1], depth + 1)
        return ("unknown", unparse(e)[:40], False)

    for c in wcs:
        o1, o2 = origin(c.args[0]), origin(c.args[1]) if len(c.args) > 1 else ("unknown", "", False)
        ok = o1[2] and o2[2] and (o1[0] != "row" or o2[0] != "row" or o1[1] == o2[1])
        ctx.instance("C17-O9", "wc_similarity(%s, %s): %s / %s" % (unparse(c.args[0])[:20], unparse(c.args[1])[:20] if len(c.args) > 1 else "", o1[:2], o2[:2]), bf.loc(c), ok=ok)
        if not ok:
            ctx.finding("C17-O9", "SynCmd.cmd_benchmark.run:pairing", bf.loc(c), "the two reactions compared by the benchmark are not the normal forms of the same row (%s; %s): a row is then compared with the expected reaction of another row" % (o1[:2], o2[:2]))


def rule_o13(ctx) -> None:
    """Symmetry clause: `_fp(mol1, mol2)` computes both fingerprints the same way.  Every statement that looks at one of
    the two molecules has its mirror image for the other (`fp1 = gen.GetFingerprint(mol1)` / `fp2 = .. (mol2)`); a
    setting derived from one argument only (a fingerprint size chosen from `mol1.GetNumAtoms()`) makes
    wc_similarity(a, b) differ from wc_similarity(b, a)."""
    ctx.rule("C17-O13", "in the fingerprint helper every statement that reads one molecule has its mirror image for the other", 3)
    prog = ctx.prog
    f = prog.func("synrbl.SynUtils.chem_utils.wc_similarity")
    inner = [g for g in prog.functions.values() if g.parent is f and len(g.params) == 2]
    ctx.require(inner, "wc_similarity lost its two-molecule fingerprint helper")
    for g in inner:
        a, b = g.params
        stmts = [x for x in own_nodes(g.node) if isinstance(x, (ast.Assign, ast.AugAssign, ast.Expr, ast.Return))]
        texts_ = {unparse(x) for x in stmts}

        import copy as _copy

        class _Swap(ast.NodeTransformer):
            def visit_Name(self, node):
                if node.id == a:
                    node.id = b
                elif node.id == b:
                    node.id = a
                return node

        def core(x):
            """what the statement computes, without the name it is bound to (local names are the author's choice)"""
            return x.value if isinstance(x, (ast.Assign, ast.AugAssign)) else x

        texts_ = {unparse(core(x)) for x in stmts}

        def mirror(x) -> str:
            return unparse(_Swap().visit(_copy.deepcopy(core(x))))

        for x in stmts:
            names = {n.id for n in ast.walk(x) if isinstance(n, ast.Name)}
            if (a in names) == (b in names):
                continue
            t = unparse(x)
            ok = mirror(x) in texts_
            ctx.instance("C17-O13", "%s: `%s` has a mirror image: %s" % (g.name, t[:50], ok), g.loc(x), ok=ok)
            if not ok:
                ctx.finding("C17-O13", "chem_utils.wc_similarity.%s:one-sided-use-of-argument" % g.name, g.loc(x), "`%s` reads only one of the two molecules and has no mirror image for the other: what it computes (a fingerprint size, a generator setting) then depends on which reaction is passed first, and wc_similarity(a, b) != wc_similarity(b, a)" % t[:60])


def rule_o10(ctx) -> None:
    """Range clause: every value `wc_similarity` returns lies in [0, 1].  Tanimoto and Dice similarities do; constants
    inside the interval do; a minimum / maximum of such values does.  A start value outside the interval (`np.inf` for a
    running minimum) reaches the return on every path on which the running value is never replaced."""
    ctx.rule("C17-O10", "every value wc_similarity returns is a similarity, a constant in [0, 1], or a min / max of such values", 2)
    prog = ctx.prog
    f = prog.func("synrbl.SynUtils.chem_utils.wc_similarity")
    inner = {g.name: g for g in prog.functions.values() if g.parent is f}
    cfg = CFG(f.node)

    def inner_bounded(g) -> bool:
        rets = [r for r in own_nodes(g.node) if isinstance(r, ast.Return) and r.value is not None]
        return bool(rets) and all(bounded(g, r.value, r, 0)[0] for r in rets)

    def bounded(g, e, at, depth):
        """-> (ok, offending expression)"""
        if depth > 6:
            return False, e
        if isinstance(e, ast.Constant):
            ok = isinstance(e.value, (int, float)) and not isinstance(e.value, bool) and 0 <= e.value <= 1
            return ok, e
        if isinstance(e, ast.Call):
            t = unparse(e.func).split(".")[-1]
            if t in ("TanimotoSimilarity", "DiceSimilarity", "CosineSimilarity", "TverskySimilarity"):
                return True, None
            if t in inner:
                return (True, None) if inner_bounded(inner[t]) else (False, e)
            if t == "clip" and len(e.args) == 3:
                lo, hi = bounded(g, e.args[1], at, depth + 1), bounded(g, e.args[2], at, depth + 1)
                return (lo[0] and hi[0]), e
            if t in ("round", "abs", "fabs") and e.args:
                return bounded(g, e.args[0], at, depth + 1)
            if t in ("min", "max", "amin", "amax", "fmin", "fmax", "nanmin", "nanmax", "float"):
                args = []
                for a in e.args:
                    args += list(a.elts) if isinstance(a, (ast.List, ast.Tuple)) else [a]
                for a in args:
                    ok, off = bounded(g, a, at, depth + 1)
                    if not ok:
                        return False, off
                return bool(args), e
            return False, e
        if isinstance(e, ast.IfExp):
            for b in (e.body, e.orelse):
                ok, off = bounded(g, b, at, depth + 1)
                if not ok:
                    return False, off
            return True, None
        if isinstance(e, ast.Name):
            defs = [(st, v) for st, v, i in assignments_to(g, e.id) if i is None]
            if not defs:
                return False, e
            # a running value: `x = <start>` ... `x = min(x, ..)`; the start counts only if it can reach the use
            for st, v in defs:
                self_ref = any(isinstance(x, ast.Name) and x.id == e.id for x in ast.walk(v))
                if self_ref:
                    inner_e = ast.Call(func=ast.Name(id="min", ctx=ast.Load()), args=[a for a in (v.args if isinstance(v, ast.Call) else []) if not (isinstance(a, ast.Name) and a.id == e.id)], keywords=[])
                    if not (isinstance(v, ast.Call) and unparse(v.func).split(".")[-1] in ("min", "max", "fmin", "fmax")):
                        return False, v
                    ok, off = bounded(g, inner_e, st, depth + 1) if inner_e.args else (True, None)
                    if not ok:
                        return False, off
                    continue
                ok, off = bounded(g, v, st, depth + 1)
                if not ok:
                    # does this definition reach the use without being replaced?  (a loop entered from outside runs
                    # its body at least once)
                    if g is f and _reaches_unreplaced(cfg, f, st, at, e.id, [d for d, _v in defs if d is not st]):
                        return False, off
                    if g is not f:
                        return False, off
            return True, None
        return False, e

    rets = [r for r in own_nodes(f.node) if isinstance(r, ast.Return) and r.value is not None]
    ctx.require(len(rets) >= 2, "wc_similarity has fewer than two value returns")
    for r in rets:
        ok, off = bounded(f, r.value, r, 0)
        ctx.instance("C17-O10", "wc_similarity: return %s is within [0, 1]: %s" % (unparse(r.value)[:50], ok), f.loc(r), ok=ok)
        if not ok:
            ctx.finding("C17-O10", "chem_utils.wc_similarity:return-outside-unit-interval", f.loc(r), "the returned value %s can be %s, which is not a similarity, a constant in [0, 1] or a minimum / maximum of such values: for two reactions on which no side replaces the start value the similarity lies outside [0, 1]" % (unparse(r.value)[:40], unparse(off)[:40] if off is not None else "?"))


def _reaches_unreplaced(cfg, f, start_stmt, use_stmt, name, other_defs) -> bool:
    a, b = cfg.node_of(start_stmt), cfg.node_of(use_stmt)
    if a is None or b is None:
        return True
    blockers = {cfg.node_of(d) for d in other_defs} - {None}

    def inside(node_id, loop_stmt) -> bool:
        st = cfg.nodes[node_id].ast
        cur = st
        while cur is not None:
            if cur is loop_stmt:
                return True
            cur = getattr(cur, "_parent", None)
        return False

    seen, stack = set(), [(a, None)]
    while stack:
        x, pred = stack.pop()
        if (x, pred is not None and cfg.nodes[x].kind == "loop" and inside(pred, cfg.nodes[x].ast)) in seen:
            continue
        seen.add((x, pred is not None and cfg.nodes[x].kind == "loop" and inside(pred, cfg.nodes[x].ast)))
        if x == b:
            return True
        if x in blockers and x != a:
            continue
        n = cfg.nodes[x]
        succ = list(n.succ)
        if n.kind == "loop" and isinstance(n.ast, ast.For) and not (pred is not None and inside(pred, n.ast) and pred != x):
            # entered from outside: the body runs at least once
            succ = [y for y in succ if not (cfg.nodes[y].kind == "edge" and getattr(cfg.nodes[y], "polarity", None) is False)]
        for y in succ:
            stack.append((y, x))
    return False


def check(ctx) -> None:
    prog = ctx.prog
    f = prog.func(NORM)
    ctx.rule("C17-O1", "the normal-form sort orders by an injective key (total order on the elements)", 1)
    ctx.rule("C17-O2", "wc_similarity short-circuits to 1 on equal normal forms before any fingerprint code", 3)
    CANON_Q = "synrbl.SynUtils.chem_utils.canon_smiles"
    # O6 first: it needs no structural anchor of normalize_smiles
    rule_o6(ctx)
    rule_o8(ctx)
    rule_o9(ctx)
    rule_o10(ctx)
    rule_o13(ctx)
    # O11: the benchmark judges each row by that row's similarity (shared pandas label-alignment rule)
    from . import c06 as _c06

    _c06.rule_index_alignment(ctx, "C17-O11")
    # O12: the benchmark reads the reactions it compares as written ('#' is a bond, not a comment sign; shared with
    # C02-T8)
    from . import c02 as _c02

    _c02.rule_t8(ctx, "C17-O12")
    # the normal form may be built by normalize_smiles itself or by a helper it calls (e.g. a memoised per-side helper)
    family = [f]
    for c in calls(f):
        tgt = ctx.res.resolve_callee(c, f)
        if tgt and tgt[0] == "func" and tgt[1] in prog.functions and tgt[1] not in (NORM, CANON_Q):
            g = prog.functions[tgt[1]]
            if g.module is f.module and g not in family and any(isinstance(x, ast.Call) and ((isinstance(x.func, ast.Attribute) and x.func.attr == "sort") or (isinstance(x.func, ast.Name) and x.func.id == "sorted")) for x in own_nodes(g.node)):
                family.append(g)

    def canonical_elements(g, v) -> bool:
        """v is a list of normalised components: a comprehension whose element is normalize_smiles(..) / canon_smiles(..)"""
        if isinstance(v, ast.ListComp) and isinstance(v.elt, ast.Call):
            if getattr(v.elt.func, "id", "") == f.name:
                return True
            tgt = ctx.res.resolve_callee(v.elt, g)
            return bool(tgt and tgt[0] == "func" and tgt[1] in (NORM, CANON_Q))
        return False

    sorts = []
    for g in family:
        for n in own_nodes(g.node):
            if isinstance(n, ast.Call):
                if isinstance(n.func, ast.Attribute) and n.func.attr == "sort":
                    sorts.append((g, n))
                elif isinstance(n.func, ast.Name) and n.func.id == "sorted":
                    sorts.append((g, n))
    ctx.require(sorts, "normalize_smiles no longer sorts the components")
    for g, n in sorts:
        key = next((k.value for k in n.keywords if k.arg == "key"), None)
        ok, why = key_is_injective(key, lambda nm, _g=g: prog.functions.get(_g.module.name + "." + nm))
        ctx.instance("C17-O1", "%s: %s" % (g.name, unparse(n)[:90]), g.loc(n), ok=ok, reason=why)
        if not ok:
            ctx.finding("C17-O1", "chem_utils.%s:sort-key" % g.name, g.loc(n), "the canonical order of the molecules is not a total order: " + why)
    # the sorted list is what gets joined: the total order must be on the strings
    # that end up in the normal form, not on something they are derived from
    joins = [n for n in own_nodes(f.node) if isinstance(n, ast.Call) and isinstance(n.func, ast.Attribute) and n.func.attr == "join"]
    ctx.require(joins, "normalize_smiles no longer joins components")
    for g, n in sorts:
        lst = None
        if isinstance(n.func, ast.Attribute) and isinstance(n.func.value, ast.Name):
            lst = n.func.value.id
        elif isinstance(n.func, ast.Name):
            par = getattr(n, "_parent", None)
            if isinstance(par, ast.Assign) and isinstance(par.targets[0], ast.Name):
                lst = par.targets[0].id
        if lst is None:
            continue
        # elements of the sorted list must be the normalised components
        normalised = False
        for _, v, _i in assignments_to(g, lst):
            if canonical_elements(g, v):
                normalised = True
            if isinstance(v, ast.Call) and getattr(v.func, "id", "") == "sorted" and v.args and isinstance(v.args[0], ast.Name):
                for _, v2, _j in assignments_to(g, v.args[0].id):
                    if canonical_elements(g, v2):
                        normalised = True
            if isinstance(v, ast.Call) and getattr(v.func, "id", "") == "sorted" and v.args and canonical_elements(g, v.args[0]):
                normalised = True  # sorted([normalize_smiles(t) for t in ...], key=..)
        if g is f:
            joined_direct = any(j.args and isinstance(j.args[0], ast.Name) and j.args[0].id == lst for j in joins)
        else:
            rets = [r for r in own_nodes(g.node) if isinstance(r, ast.Return)]
            returns_list = bool(rets) and all(isinstance(r.value, ast.Name) and r.value.id == lst or (isinstance(r.value, ast.Call) and getattr(r.value.func, "id", "") in ("tuple", "list") and r.value.args and isinstance(r.value.args[0], ast.Name) and r.value.args[0].id == lst) for r in rets)
            joined_direct = returns_list and any(j.args and isinstance(j.args[0], ast.Call) and (ctx.res.resolve_callee(j.args[0], f) or ("", ""))[1] == g.qualname for j in joins)
        ok = normalised and joined_direct
        ctx.instance("C17-O1", "the sorted list %r of %s holds the normalised components and is joined as it is (normalised=%s, joined directly=%s)" % (lst, g.name, normalised, joined_direct), g.loc(n), ok=ok)
        if not ok:
            ctx.finding("C17-O1", "chem_utils.%s:sorted-values" % g.name, g.loc(n), "the list that is sorted (%r) is not the list of normalised components that is joined: the tie-break then looks at the input spelling instead of the normal form, and two spellings of one reaction can normalise differently" % lst)
    # -------------------------------------------------------------- O2
    w = prog.func(WC)
    cfg = CFG(w.node)
    p1, p2 = w.params[0], w.params[1]
    ret1 = [n for n in own_nodes(w.node) if isinstance(n, ast.Return) and isinstance(n.value, ast.Constant) and n.value.value in (1, 1.0) and not isinstance(n.value.value, bool)]
    ctx.require(ret1, "wc_similarity has no `return 1` any more")
    for r in ret1:
        g = cfg.guards(cfg.node_of(r))
        ok = False
        for c, p in g:
            nc = normal_compare(c, p)
            if nc and nc[1] == "==" and isinstance(nc[0], ast.Name) and isinstance(nc[2], ast.Name):
                srcs = []
                for nm in (nc[0].id, nc[2].id):
                    a = assignments_to(w, nm)
                    if len(a) == 1 and isinstance(a[0][1], ast.Call):
                        tgt = ctx.res.resolve_callee(a[0][1], w)
                        if tgt and tgt[0] == "func" and tgt[1] == NORM and a[0][1].args and isinstance(a[0][1].args[0], ast.Name):
                            srcs.append(a[0][1].args[0].id)
                ok = sorted(srcs) == sorted([p1, p2])
        ctx.instance("C17-O2", "return 1 guarded by equality of the two normal forms", w.loc(r), ok=ok)
        if not ok:
            ctx.finding("C17-O2", "chem_utils.wc_similarity:short-circuit-guard", w.loc(r), "`return 1` is not guarded by normalize_smiles(a) == normalize_smiles(b)")
        # dominates fingerprint code: every call of the nested _fp comes after the test
        test_node = None
        cur = getattr(r, "_parent", None)
        while cur is not None and not isinstance(cur, ast.If):
            cur = getattr(cur, "_parent", None)
        if cur is not None:
            test_node = cfg.node_of(cur)
        fp_calls = [c for c in calls(w) if isinstance(c.func, ast.Name) and c.func.id in w.nested]
        okd = test_node is not None and bool(fp_calls) and all(cfg.dominates(test_node, cfg.node_of(c)) for c in fp_calls)
        ctx.instance("C17-O2", "the equality test dominates %d fingerprint call(s)" % len(fp_calls), w.loc(r), ok=okd)
        if not okd:
            ctx.finding("C17-O2", "chem_utils.wc_similarity:short-circuit-position", w.loc(r), "fingerprint code can run before the equal-normal-forms short-circuit")
    # O3: the position-wise difference is collected symmetrically
    ctx.rule("C17-O3", "the two difference lists of _get_diff_mol are filled by mirrored statements under the same guards", 1)
    gd = prog.func("synrbl.SynUtils.chem_utils._get_diff_mol")
    # canonical form (synlint/canon.py): each difference list is a comprehension.  Symmetric = both are built from the
    # same generators (same pairs, same `differs` condition) and pick the two sides of the pair: (s1, s2) of a zip, or
    # A[i] / B[i] of one index set.
    comps = {}
    for n in own_nodes(gd.node):
        if isinstance(n, ast.Assign) and len(n.targets) == 1 and isinstance(n.targets[0], ast.Name) and isinstance(n.value, ast.ListComp):
            comps[n.targets[0].id] = n.value
    # `pairs = [(a, b) for a, b in zip(A, B) if a != b]; L1 = [a for a, _ in pairs]; L2 = [b for _, b in pairs]`: each
    # projection is the comprehension over the zip itself that picks that side
    import copy as _copy

    for nm, c_ in list(comps.items()):
        if len(c_.generators) == 1 and not c_.generators[0].ifs and isinstance(c_.generators[0].iter, ast.Name) and c_.generators[0].iter.id in comps and isinstance(c_.generators[0].target, ast.Tuple) and isinstance(c_.elt, ast.Name):
            src = comps[c_.generators[0].iter.id]
            tg = c_.generators[0].target
            if isinstance(src.elt, ast.Tuple) and len(src.elt.elts) == len(tg.elts) and all(isinstance(x, ast.Name) for x in tg.elts) and len(src.generators) == 1:
                pos = [i for i, x in enumerate(tg.elts) if x.id == c_.elt.id]
                if len(pos) == 1 and isinstance(src.elt.elts[pos[0]], ast.Name):
                    comps[nm] = ast.ListComp(elt=_copy.deepcopy(src.elt.elts[pos[0]]), generators=_copy.deepcopy(src.generators))
    joined = [c.args[0].id for c in calls(gd) if isinstance(c.func, ast.Attribute) and c.func.attr == "join" and c.args and isinstance(c.args[0], ast.Name)]
    lists = [x for x in joined if x in comps]
    sym, why = False, "the two difference lists are not both comprehensions (%s)" % sorted(comps)
    if len(lists) == 2:
        c1, c2 = comps[lists[0]], comps[lists[1]]
        g1 = [unparse(g) for g in c1.generators]
        g2 = [unparse(g) for g in c2.generators]
        if g1 != g2:
            sym, why = False, "the lists iterate different pairs / conditions (%s vs %s)" % (g1, g2)
        else:
            gen = c1.generators[0]
            e1, e2 = c1.elt, c2.elt
            if isinstance(gen.target, ast.Tuple) and len(gen.target.elts) == 2 and isinstance(gen.iter, ast.Call) and getattr(gen.iter.func, "id", "") == "zip" and len(gen.iter.args) == 2:
                t = [x.id for x in gen.target.elts if isinstance(x, ast.Name)]
                cond_names = {x.id for c in gen.ifs for x in ast.walk(c) if isinstance(x, ast.Name)}
                sym = isinstance(e1, ast.Name) and isinstance(e2, ast.Name) and [e1.id, e2.id] == t and set(t) <= cond_names
                why = "zip pairs %s, elements %s / %s, condition over %s" % (t, unparse(e1), unparse(e2), sorted(cond_names))
            elif isinstance(e1, ast.Subscript) and isinstance(e2, ast.Subscript) and isinstance(gen.target, ast.Name) and unparse(e1.slice) == gen.target.id == unparse(e2.slice) and unparse(e1.value) != unparse(e2.value):
                # index form: the index set must be computed from both sequences
                src = gen.iter
                if isinstance(src, ast.Name):
                    a_ = assignments_to(gd, src.id)
                    if len(a_) == 1:
                        src = a_[0][1]
                txt = unparse(src)
                sym = unparse(e1.value) in txt and unparse(e2.value) in txt and "!=" in txt
                why = "index set %s, elements %s / %s" % (txt[:60], unparse(e1), unparse(e2))
    if len(lists) != 2:
        # multiset difference: `for s in A: if s in B: B.remove(s) else: D.append(s)` leaves A-B in D and B-A in B
        for lp in [n for n in own_nodes(gd.node) if isinstance(n, ast.For) and isinstance(n.target, ast.Name) and len(n.body) == 1 and isinstance(n.body[0], ast.If)]:
            s_, iff = lp.target.id, lp.body[0]
            nc = normal_compare(iff.test, True)
            t = iff.test
            if isinstance(t, ast.Compare) and len(t.ops) == 1 and isinstance(t.ops[0], (ast.In, ast.NotIn)) and isinstance(t.left, ast.Name) and t.left.id == s_ and isinstance(t.comparators[0], ast.Name):
                other = t.comparators[0].id
                hit, miss = (iff.body, iff.orelse) if isinstance(t.ops[0], ast.In) else (iff.orelse, iff.body)
                def only_call(stmts, recv, meth):
                    return len(stmts) == 1 and isinstance(stmts[0], ast.Expr) and isinstance(stmts[0].value, ast.Call) and isinstance(stmts[0].value.func, ast.Attribute) and stmts[0].value.func.attr == meth and isinstance(stmts[0].value.func.value, ast.Name) and (recv is None or stmts[0].value.func.value.id == recv) and len(stmts[0].value.args) == 1 and isinstance(stmts[0].value.args[0], ast.Name) and stmts[0].value.args[0].id == s_
                if only_call(hit, other, "remove") and only_call(miss, None, "append"):
                    coll = miss[0].value.func.value.id
                    if sorted(joined) == sorted([coll, other]) and coll != other:
                        sym, why = True, "multiset difference: %s keeps the molecules of %s not matched in %s, which keeps its own unmatched molecules" % (coll, unparse(lp.iter)[:30], other)
    ctx.instance("C17-O3", "_get_diff_mol: %s" % why, gd.loc(), ok=sym)
    if not sym:
        ctx.finding("C17-O3", "chem_utils._get_diff_mol:asymmetric", gd.loc(), "the molecules that differ are not collected symmetrically for the two arguments (%s): wc_similarity(a, b) and wc_similarity(b, a) then compare different molecule sets" % why)
    # O5: every leaf of the recursion is canonicalised
    ctx.rule("C17-O5", "every return of normalize_smiles is a join of recursive results or the RDKit canonical form of the molecule", 2)
    CANON = "synrbl.SynUtils.chem_utils.canon_smiles"
    cs = _memo_target(prog, prog.func(CANON))
    canon_ok = any(isinstance(c.func, ast.Attribute) and c.func.attr in ("MolToSmiles", "CanonSmiles") for c in calls(cs))
    ctx.require(canon_ok, "canon_smiles no longer produces RDKit SMILES")

    # O7: the canonical form is that of the fully sanitised molecule (a partial sanitisation leaves spelling-dependent
    # features - hypervalent notations, Kekule rings - in the output for the inputs that need the skipped step)
    ctx.rule("C17-O7", "canon_smiles sanitises with every RDKit sanitisation step before writing the SMILES", 1)
    parses = [c for c in calls(cs) if unparse(c.func).split(".")[-1] == "MolFromSmiles"]
    sanit = [c for c in calls(cs) if unparse(c.func).split(".")[-1] == "SanitizeMol"]

    def restricted(c, pos):
        ops = next((k.value for k in c.keywords if k.arg == "sanitizeOps"), c.args[pos] if len(c.args) > pos else None)
        if ops is None:
            return None
        return None if unparse(ops).split(".")[-1] == "SANITIZE_ALL" else ops

    full_parse = [c for c in parses if (next((k.value for k in c.keywords if k.arg == "sanitize"), c.args[1] if len(c.args) > 1 else None) is None) or unparse(next((k.value for k in c.keywords if k.arg == "sanitize"), c.args[1] if len(c.args) > 1 else None)) == "True"]
    ctx.require(parses, "canon_smiles no longer parses with MolFromSmiles")
    if full_parse and len(full_parse) == len(parses):
        ctx.instance("C17-O7", "canon_smiles parses with full sanitisation", cs.loc(parses[0]), ok=True)
    else:
        ctx.require(sanit, "canon_smiles parses without sanitisation and never calls SanitizeMol")
        for c in sanit:
            r_ = restricted(c, 1)
            ctx.instance("C17-O7", "canon_smiles: %s" % unparse(c)[:70], cs.loc(c), ok=r_ is None)
            if r_ is not None:
                ctx.finding("C17-O7", "chem_utils.canon_smiles:partial-sanitisation", cs.loc(c), "canon_smiles sanitises with a restricted set of steps (%s): molecules whose spelling needs a skipped step (nitro as N(=O)=O, azides ...) are written unsanitised, so two spellings of one molecule keep different normal forms" % unparse(r_)[:60])

    def recursive(e, busy=frozenset()) -> bool:
        """elements come from recursive calls of normalize_smiles"""
        if isinstance(e, ast.ListComp):
            return isinstance(e.elt, ast.Call) and getattr(e.elt.func, "id", "") == f.name
        if isinstance(e, ast.Name):
            if e.id in busy:
                return True  # re-ordering of itself (token = sorted(token, ...))
            a = assignments_to(f, e.id)
            b2 = busy | {e.id}
            direct = [v for _, v, _i in a if isinstance(v, ast.ListComp) or (isinstance(v, ast.Call) and getattr(v.func, "id", "") in ("sorted", "list") and v.args and isinstance(v.args[0], ast.ListComp))]
            return bool(a) and any(recursive(v, b2) for v in direct) and all(recursive(v, b2) or (isinstance(v, ast.Call) and isinstance(v.func, ast.Attribute) and v.func.attr == "split") for _, v, _i in a)
        if isinstance(e, ast.Call) and getattr(e.func, "id", "") in ("sorted", "list") and e.args:
            return recursive(e.args[0], busy)
        if isinstance(e, ast.Call):
            tgt = ctx.res.resolve_callee(e, f)
            g = prog.functions.get(tgt[1]) if tgt and tgt[0] == "func" else None
            if g is not None and g in family and g is not f:
                rets = [r for r in own_nodes(g.node) if isinstance(r, ast.Return) and r.value is not None]
                def from_canon(v):
                    if isinstance(v, ast.Call) and getattr(v.func, "id", "") in ("tuple", "list", "sorted") and v.args:
                        v = v.args[0]
                    return isinstance(v, ast.Name) and any(canonical_elements(g, x) or (isinstance(x, ast.Call) and getattr(x.func, "id", "") == "sorted" and x.args and isinstance(x.args[0], ast.Name) and any(canonical_elements(g, y) for _, y, _k in assignments_to(g, x.args[0].id))) for _, x, _i in assignments_to(g, v.id))
                return bool(rets) and all(from_canon(r.value) for r in rets)
        return False

    for r in [n for n in own_nodes(f.node) if isinstance(n, ast.Return)]:
        v = r.value
        kind = None
        if isinstance(v, ast.Call) and isinstance(v.func, ast.Attribute) and v.func.attr == "join" and v.args and recursive(v.args[0]):
            kind = "join of recursive results"
        elif isinstance(v, ast.Call):
            tgt = ctx.res.resolve_callee(v, f)
            if tgt and tgt[0] == "func" and tgt[1] == CANON:
                kind = "canon_smiles(...)"
            elif tgt and tgt[0] == "func" and tgt[1] == NORM:
                kind = "recursive call"
        ctx.instance("C17-O5", "return %s: %s" % (unparse(v)[:50] if v is not None else None, kind or "not canonical"), f.loc(r), ok=kind is not None)
        if kind is None:
            ctx.finding("C17-O5", "chem_utils.normalize_smiles:uncanonical-return", f.loc(r), "normalize_smiles returns %s without RDKit canonicalisation: two spellings of the same molecule ([Li]O / O[Li], [Zn++] / [Zn+2]) keep different normal forms" % (unparse(v)[:50] if v is not None else "None"))
    # O4: normalize_smiles strips atom maps first; the rewrite must keep the molecule (shared with C15-Rg1/Rg2)
    from . import c15

    c15.rule_rg1_rg2(ctx, "C17-O4", "C17-O4")
    # benchmark normalises both sides with the same function
    bf = prog.func("synrbl.SynCmd.cmd_benchmark.run")
    n_norm = 0
    for c in calls(bf):
        tgt = ctx.res.resolve_callee(c, bf)
        if tgt and tgt[0] == "func" and tgt[1] == NORM:
            n_norm += 1
        elif tgt and tgt[0] == "func" and tgt[1] in prog.functions:
            # a wrapper (memo, logging) whose every return is normalize_smiles(<its argument>)
            g = prog.functions[tgt[1]]
            rets = [r for r in own_nodes(g.node) if isinstance(r, ast.Return) and r.value is not None]
            if rets and all(isinstance(r.value, ast.Call) and (ctx.res.resolve_callee(r.value, g) or ("", ""))[1] == NORM and r.value.args and isinstance(r.value.args[0], ast.Name) and r.value.args[0].id in g.params for r in rets):
                n_norm += 1
    ok = n_norm >= 2
    ctx.instance("C17-O2", "benchmark normalises expected and actual reaction (%d calls)" % n_norm, bf.loc(), ok=ok)
    if not ok:
        ctx.finding("C17-O2", "SynCmd.cmd_benchmark.run:normalise-both", bf.loc(), "the benchmark does not normalise both the expected and the actual reaction")
