"""C20 - tautomer standardisation (three constructs that each cause failures)."""

from __future__ import annotations

import ast
from typing import List, Optional, Set

from ..cfg import CFG
from ..model import Func, own_nodes, own_nodes_ordered, unparse
from ..util import assignments_to, loop_binding, names_in

EXPLANATION = (
    "Decides three constructs, each a confirmed cause of failure, not conservation/idempotence in general: (Y1) a function whose "
    "successful returns are SMILES (result of MolToSmiles/CanonSmiles or its own smiles parameter) must not also return a string "
    "constant / f-string that is not derived from one - the only caller feeds the value straight back to the functional-group query; "
    "(Y2) a loop that iterates a collection computed from a SMILES variable must not rebind that variable to a re-serialised molecule "
    "and go on using elements of the old collection as atom indices; (Y3) adjacency of atoms must not be inferred from arithmetic on "
    "atom indices (abs(i - j) == 1): atom order is arbitrary.  Rules are generic and run on MoleculeStandardizer (package-wide in "
    "the thorough tier)."
    ' (Y4) functions that mutate a list argument are only called with a fresh copy; (Y5) the scan over recognised groups stops early only under a test that the rewrite changed the SMILES; (Y6) no textual rewrite (re.sub / str.replace, directly or through a callee) is applied to the SMILES inside the standardiser.'
    " (Y7) the rewrite-until-stable loop is not capped by a bound independent of the input; (Y8) a hand-made hydrogen increase is not conditional on the receiver's current hydrogen count unless the other outcome refuses the rewrite; (Y9) every bond-order rewrite adjusts explicit hydrogen counts (atoms in brackets have no implicit hydrogens); (Y10) an absolute positive hydrogen count is set only after the atom's hydrogens were tested."
    ' (Y11) a failed sanitisation is noticed; (Y12) no result table is evicted between storing and reading an entry in one call; (Y13) the input is canonicalised before the first functional-group query - Y4/Y5 are only evaluated when it is not.'
    ' (Y14) the oxygen that gives up a hydrogen is tested to carry one; (Y15) a sequence derived from the group indices is not unpacked into a fixed number of names without a length test; Y11 was withdrawn (no failing input after the donor test).'
    ' (Y13) counts as canonicalised only after a sanitising parse (RDKit CanonSmiles / MolToSmiles, or a helper that does not parse with sanitize=False). (Y16) nothing keyed by the atom indices of one functional-group query is kept across a rewrite.'
    ' (Y17) a front end that standardises a column reports each result next to its compound (pandas label-alignment rule).'
)
ASSUMPTIONS = ["atom indices reported by the functional-group query refer to the SMILES that was queried"]

CLS = "synrbl.SynChemImputer.molecule_standardizer.MoleculeStandardizer"
SMILES_FUNCS = ("MolToSmiles", "CanonSmiles", "MolToCXSmiles")


def _ret_kind(f: Func, e: Optional[ast.AST], depth: int = 0) -> str:
    """smiles | text | none | other"""
    if e is None or (isinstance(e, ast.Constant) and e.value is None):
        return "none"
    if isinstance(e, ast.Constant) and isinstance(e.value, str):
        return "text"
    if isinstance(e, ast.JoinedStr):
        return "text"
    if isinstance(e, ast.Call):
        fn = unparse(e.func)
        if fn.split(".")[-1] in SMILES_FUNCS:
            return "smiles"
        if isinstance(e.func, ast.Attribute) and e.func.attr == "format" and isinstance(e.func.value, ast.Constant):
            return "text"
        return "other"
    if isinstance(e, ast.BinOp) and isinstance(e.op, (ast.Add, ast.Mod)):
        kinds = {_ret_kind(f, e.left, depth + 1), _ret_kind(f, e.right, depth + 1)}
        if "text" in kinds:
            return "text"
    if isinstance(e, ast.Name):
        if e.id in f.params and "smi" in e.id.lower():
            return "smiles"
        if depth < 3:
            kinds = {_ret_kind(f, v, depth + 1) for _, v, idx in assignments_to(f, e.id) if idx is None}
            if kinds == {"smiles"} or (kinds and kinds <= {"smiles", "other"} and "smiles" in kinds):
                return "smiles"
            if kinds == {"text"}:
                return "text"
        return "other"
    return "other"


def rule_y1(ctx, funcs: List[Func]) -> None:
    ctx.rule("C20-Y1", "a SMILES-returning function never returns an error text", 2)
    for f in funcs:
        rets = [n for n in own_nodes(f.node) if isinstance(n, ast.Return)]
        kinds = [(_ret_kind(f, r.value), r) for r in rets]
        if not any(k == "smiles" for k, _ in kinds):
            continue
        bad = [r for k, r in kinds if k == "text"]
        ctx.instance("C20-Y1", "%s: %d returns, %d SMILES-kind, %d text-kind" % (f.qualname.split(".")[-2] + "." + f.name, len(rets), sum(1 for k, _ in kinds if k == "smiles"), len(bad)), f.loc(), ok=not bad)
        if bad:
            ctx.finding(
                "C20-Y1",
                "%s.%s:error-text-as-smiles" % (f.qualname.split(".")[-2], f.name),
                f.loc(bad[0]),
                "%d return statement(s) yield an error message where callers expect a SMILES (e.g. %s)" % (len(bad), unparse(bad[0])[:70]),
            )


def rule_y2(ctx, funcs: List[Func]) -> None:
    ctx.rule("C20-Y2", "no rewrite loop reuses atom indices computed for a previous SMILES", 1)
    n = 0
    for f in funcs:
        cfg = None
        for loop in [x for x in own_nodes(f.node) if isinstance(x, ast.For)]:
            it = loop.iter
            it_txt = unparse(it)
            # how was the iterable computed?  <it> = g(..., s, ...)
            srcs: Set[str] = set()
            work, seen_t = [it_txt], set()
            while work:
                tt = work.pop()
                if tt in seen_t:
                    continue
                seen_t.add(tt)
                for a in own_nodes(f.node):
                    if isinstance(a, ast.Assign) and any(unparse(t) == tt for t in a.targets):
                        if isinstance(a.value, ast.Call):
                            srcs |= {x.id for arg in a.value.args for x in ast.walk(arg) if isinstance(x, ast.Name)}
                        elif isinstance(a.value, ast.Name):
                            work.append(a.value.id)  # a copy of another local (an expanded helper's result)
            if not srcs:
                continue
            # objects built from the same source before the loop describe the same
            # molecule: rewriting them makes the group list stale just the same
            for _ in range(2):
                for a in own_nodes(f.node):
                    if isinstance(a, ast.Assign) and len(a.targets) == 1 and isinstance(a.targets[0], ast.Name) and a.lineno < loop.lineno and names_in(a.value) & srcs:
                        if not any(a is x for x in ast.walk(loop)):
                            srcs.add(a.targets[0].id)
            n += 1
            tnames = {x.id for x in ast.walk(loop.target) if isinstance(x, ast.Name)}
            # names derived from the loop element inside the body
            derived = set(tnames)
            for _ in range(3):
                for a in ast.walk(loop):
                    if isinstance(a, ast.Assign) and names_in(a.value) & derived:
                        for t in a.targets:
                            if isinstance(t, ast.Name):
                                derived.add(t.id)
            stale = None
            # def-use inside the loop body: name -> names its assigned values mention
            deps = {}
            sites = {}
            for a in ast.walk(loop):
                if a is loop:
                    continue
                if isinstance(a, ast.Assign) and len(a.targets) == 1 and isinstance(a.targets[0], ast.Name):
                    deps.setdefault(a.targets[0].id, set()).update(names_in(a.value))
                    sites.setdefault(a.targets[0].id, []).append(a)

            def reaches(src, dst, seen=None):
                seen = seen or set()
                for d in deps.get(src, ()):
                    if d == dst:
                        return True
                    if d not in seen:
                        seen.add(d)
                        if reaches(d, dst, seen):
                            return True
                return False

            def closure(v):
                out, work = set(), [v]
                while work:
                    x = work.pop()
                    for d in deps.get(x, ()):
                        if d not in out:
                            out.add(d)
                            work.append(d)
                return out

            for v in sorted(srcs):
                if v in deps and reaches(v, v) and closure(v) & derived:
                    # the molecule is rewritten from itself with indices of the old query;
                    # can another iteration follow?
                    if cfg is None:
                        cfg = CFG(f.node)
                    header = cfg.node_of(loop)
                    for a in sites[v]:
                        start = cfg.node_of(a)
                        if start is not None and header is not None and header in cfg.reachable_from(start):
                            stale = (a, v)
            ctx.instance("C20-Y2", "%s: loop over %s (computed from %s)" % (f.name, it_txt, sorted(srcs)), f.loc(loop), ok=stale is None)
            if stale is not None:
                a, s = stale
                ctx.finding(
                    "C20-Y2",
                    "%s.%s:stale-indices" % (f.qualname.split(".")[-2], f.name),
                    f.loc(a),
                    "the loop iterates %s, computed from %r, rebinds %r to a rewritten molecule (%s) and continues with elements of the old collection as atom indices" % (it_txt, s, s, unparse(a)[:60]),
                )
    ctx.require(n >= 1, "no loop over a collection computed from a SMILES variable found in MoleculeStandardizer (anchor moved)")


def _index_names(f: Func) -> Set[str]:
    out: Set[str] = set()
    for n in own_nodes(f.node):
        if isinstance(n, ast.Assign) and isinstance(n.value, ast.Call) and isinstance(n.value.func, ast.Attribute) and n.value.func.attr == "GetIdx":
            for t in n.targets:
                if isinstance(t, ast.Name):
                    out.add(t.id)
        if isinstance(n, (ast.For, ast.comprehension)) and isinstance(n.target, ast.Name):
            src = names_in(n.iter)
            if any("indices" in s or "idx" in s for s in src):
                out.add(n.target.id)
    for p in f.params:
        if p.endswith("_idx") or p == "idx":
            out.add(p)
    # transitive: x = <index name>
    for _ in range(2):
        for n in own_nodes(f.node):
            if isinstance(n, ast.Assign) and isinstance(n.value, ast.Name) and n.value.id in out:
                for t in n.targets:
                    if isinstance(t, ast.Name):
                        out.add(t.id)
    return out


def rule_y3(ctx, funcs: List[Func]) -> None:
    ctx.rule("C20-Y3", "adjacency is never inferred from arithmetic on atom indices", 2)
    for f in funcs:
        idx = _index_names(f)
        if not idx:
            continue
        bad = None
        for n in own_nodes(f.node):
            if isinstance(n, ast.Compare):
                for side in [n.left] + list(n.comparators):
                    for b in ast.walk(side):
                        if isinstance(b, ast.BinOp) and isinstance(b.op, ast.Sub) and isinstance(b.left, ast.Name) and isinstance(b.right, ast.Name):
                            if b.left.id in idx and b.right.id in idx and any(isinstance(c, ast.Constant) and isinstance(c.value, int) for c in [n.left] + list(n.comparators)):
                                bad = n
        ctx.instance("C20-Y3", "%s: atom-index names %s" % (f.name, sorted(idx)), f.loc(), ok=bad is None)
        if bad is not None:
            ctx.finding(
                "C20-Y3",
                "%s.%s:index-arithmetic" % (f.qualname.split(".")[-2], f.name),
                f.loc(bad),
                "`%s` decides which atoms are bonded from the difference of their indices; atom numbering is arbitrary (C(O)=C and OC=C are the same molecule)" % unparse(bad),
            )


def rule_y4(ctx, funcs: List[Func]) -> None:
    """standardize_enol removes elements from the index list it is given: every caller
    must hand over a fresh list, otherwise the caller's group table is corrupted."""
    ctx.rule("C20-Y4", "functions that mutate a list argument are only called with a fresh copy", 0)
    if getattr(ctx, "_c20_canonical_first", False):
        ctx.note("C20-Y4: not needed on this tree - the input is canonicalised before the first query (Y13), so an edited group list can change later calls (C06-B4/B7) but not composition or f(f(x)) == f(x)")
        return
    prog = ctx.prog
    MUT = ("remove", "pop", "append", "extend", "insert", "clear", "sort", "reverse")
    n = 0
    for f in funcs:
        params = f.params
        mutated = set()
        rebound_first = set()
        for a in own_nodes_ordered(f.node):
            if isinstance(a, ast.Assign) and len(a.targets) == 1 and isinstance(a.targets[0], ast.Name) and a.targets[0].id in params and a.targets[0].id not in mutated:
                rebound_first.add(a.targets[0].id)
            if isinstance(a, ast.Call) and isinstance(a.func, ast.Attribute) and a.func.attr in MUT and isinstance(a.func.value, ast.Name) and a.func.value.id in params and a.func.value.id not in rebound_first:
                mutated.add(a.func.value.id)
        for p in sorted(mutated):
            pos = (params[1:] if (f.cls is not None and not f.is_static) else params).index(p)
            for g in prog.package_functions():
                for c in [x for x in own_nodes(g.node) if isinstance(x, ast.Call)]:
                    tgt = ctx.res.resolve_callee(c, g)
                    if not (tgt and tgt[0] == "func" and tgt[1] == f.qualname):
                        continue
                    arg = c.args[pos] if pos < len(c.args) else next((k.value for k in c.keywords if k.arg == p), None)
                    if arg is None:
                        continue
                    n += 1
                    fresh = (isinstance(arg, ast.Call) and unparse(arg.func) in ("list", "sorted", "copy.copy", "copy.deepcopy")) or (isinstance(arg, ast.Subscript) and isinstance(arg.slice, ast.Slice)) or isinstance(arg, (ast.List, ast.ListComp)) or (isinstance(arg, ast.Call) and isinstance(arg.func, ast.Attribute) and arg.func.attr == "copy")
                    ctx.instance("C20-Y4", "%s mutates %s; %s passes %s" % (f.name, p, g.name, unparse(arg)[:40]), g.loc(c), ok=fresh)
                    if not fresh:
                        ctx.finding("C20-Y4", "%s.%s:shared-list-argument:%s" % (g.qualname.split(".")[-2], g.name, f.name), g.loc(c), "%s removes elements from its argument %r, and %s passes %s without copying it: the caller's group table (or a cached query result) is edited in place, so a later call with the same molecule sees a damaged group" % (f.name, p, g.name, unparse(arg)[:40]))
    # calls through a dispatch table {name: self.<method>} stored on the instance
    cls = funcs[0].cls if funcs else None
    if cls is not None:
        tables = {}
        for m in cls.methods.values():
            for a in own_nodes(m.node):
                if isinstance(a, ast.Assign) and isinstance(a.value, ast.Dict):
                    meths = [v.attr for v in a.value.values if isinstance(v, ast.Attribute) and isinstance(v.value, ast.Name) and v.attr in cls.methods]
                    for t in a.targets:
                        if isinstance(t, ast.Attribute) and meths:
                            tables[t.attr] = meths
        mut_by_name = {}
        for f in funcs:
            rebound, mutd = set(), set()
            for a in own_nodes_ordered(f.node):
                if isinstance(a, ast.Assign) and len(a.targets) == 1 and isinstance(a.targets[0], ast.Name) and a.targets[0].id in f.params and a.targets[0].id not in mutd:
                    rebound.add(a.targets[0].id)
                if isinstance(a, ast.Call) and isinstance(a.func, ast.Attribute) and a.func.attr in MUT and isinstance(a.func.value, ast.Name) and a.func.value.id in f.params and a.func.value.id not in rebound:
                    mutd.add(a.func.value.id)
            if mutd:
                mut_by_name[f.name] = (f, mutd)
        for g in cls.methods.values():
            via = {}
            for a in own_nodes(g.node):
                if isinstance(a, ast.Assign) and len(a.targets) == 1 and isinstance(a.targets[0], ast.Name):
                    v = a.value
                    tab = None
                    if isinstance(v, ast.Call) and isinstance(v.func, ast.Attribute) and v.func.attr == "get" and isinstance(v.func.value, ast.Attribute):
                        tab = v.func.value.attr
                    elif isinstance(v, ast.Subscript) and isinstance(v.value, ast.Attribute):
                        tab = v.value.attr
                    if tab in tables:
                        via[a.targets[0].id] = tables[tab]
            for c in [x for x in own_nodes(g.node) if isinstance(x, ast.Call) and isinstance(x.func, ast.Name) and x.func.id in via]:
                for mname in via[c.func.id]:
                    if mname not in mut_by_name:
                        continue
                    f, mutd = mut_by_name[mname]
                    fparams = f.params[1:] if (f.cls is not None and not f.is_static) else f.params
                    for p in sorted(mutd):
                        pos = fparams.index(p)
                        arg = c.args[pos] if pos < len(c.args) else None
                        if arg is None:
                            continue
                        n += 1
                        fresh = (isinstance(arg, ast.Call) and unparse(arg.func) in ("list", "sorted", "copy.copy", "copy.deepcopy")) or (isinstance(arg, ast.Subscript) and isinstance(arg.slice, ast.Slice)) or isinstance(arg, (ast.List, ast.ListComp))
                        ctx.instance("C20-Y4", "%s mutates %s; %s calls it through a dispatch table with %s" % (f.name, p, g.name, unparse(arg)[:40]), g.loc(c), ok=fresh)
                        if not fresh:
                            ctx.finding("C20-Y4", "%s.%s:shared-list-argument:%s" % (g.qualname.split(".")[-2], g.name, f.name), g.loc(c), "%s removes elements from its argument %r, and %s hands it %s (through a dispatch table) without copying: the group table - here a cached query result - is edited in place, so standardising the same SMILES again skips the rewrite" % (f.name, p, g.name, unparse(arg)[:40]))
    if n == 0:
        ctx.note("C20-Y4: no function of the standardiser mutates a list argument on this tree")


def rule_y5(ctx, funcs: List[Func]) -> None:
    """A group that is recognised but cannot be rewritten returns its input (Y1
    repair).  The scan over the recognised groups may therefore stop only when a
    rewrite *changed* the SMILES; stopping at the first recognised group leaves
    convertible groups behind an unconvertible one (result depends on atom order,
    a second application converts more)."""
    ctx.rule("C20-Y5", "the scan over recognised groups stops early only under a test that the rewrite changed the SMILES", 0)
    if getattr(ctx, "_c20_canonical_first", False):
        ctx.note("C20-Y5: not needed on this tree - the input is canonicalised before the first query (Y13): whichever group decides, a second application sees the same spelling and the same groups")
        return
    n = 0
    for f in funcs:
        for loop in [x for x in own_nodes(f.node) if isinstance(x, ast.For)]:
            smi = [p_ for p_ in f.params[1:2]]
            rewrites = [c for c in ast.walk(loop) if isinstance(c, ast.Call) and ((isinstance(c.func, ast.Attribute) and c.func.attr.startswith("standardize_")) or (c.args and isinstance(c.args[0], ast.Name) and c.args[0].id in smi and len(c.args) >= 2 and not unparse(c.func).startswith("Chem.")))]
            if not rewrites:
                continue
            n += 1
            cfg = CFG(f.node)
            exits = [x for st_ in loop.body for x in ast.walk(st_) if isinstance(x, (ast.Break, ast.Return))]
            bad = None
            for x in exits:
                g = cfg.guards(cfg.node_of(x))
                changed = False
                for c, pol in g:
                    if isinstance(c, ast.Compare) and len(c.ops) == 1 and isinstance(c.ops[0], (ast.NotEq, ast.Eq)) and isinstance(c.left, ast.Name) and isinstance(c.comparators[0], ast.Name):
                        changed = True
                if not changed:
                    bad = x
            ctx.instance("C20-Y5", "%s: loop over %s with %d rewrite call(s); %d early exit(s), all under a changed-test: %s" % (f.name, unparse(loop.iter)[:30], len(rewrites), len(exits), bad is None), f.loc(loop), ok=bad is None)
            if bad is not None:
                ctx.finding("C20-Y5", "%s.%s:first-group-decides" % (f.qualname.split(".")[-2], f.name), f.loc(bad), "the scan over the recognised groups ends at the first group (%s) whether or not its rewrite changed the molecule: a group that cannot be rewritten hides the convertible groups after it" % unparse(bad)[:60])
    if n == 0:
        ctx.note("C20-Y5: no loop of the standardiser applies rewrites with an early exit on this tree (nothing to check)")


def rule_y6(ctx, funcs: List[Func]) -> None:
    """The standardiser edits molecules through RDKit only.  Text-level rewriting
    of the SMILES (regex substitution, str.replace) changes implicit-hydrogen
    semantics (a bracket atom and its bare symbol are different atoms)."""
    ctx.rule("C20-Y6", "no textual rewrite (re.sub / str.replace) is applied to the SMILES inside the standardiser", 3)
    prog = ctx.prog

    def text_rewrites(g: Func) -> List[ast.AST]:
        out = []
        for c in [x for x in own_nodes(g.node) if isinstance(x, ast.Call)]:
            if isinstance(c.func, ast.Attribute) and c.func.attr in ("sub", "subn", "replace", "translate") and c.args:
                out.append(c)
        return out

    for f in funcs:
        own = text_rewrites(f)
        bad = [(c, "%s in %s" % (unparse(c.func), f.name)) for c in own]
        for c in [x for x in own_nodes(f.node) if isinstance(x, ast.Call)]:
            tgt = ctx.res.resolve_callee(c, f)
            if tgt and tgt[0] == "func" and tgt[1] in prog.functions and prog.functions[tgt[1]].cls is not f.cls:
                for q in ctx.res.reachable([tgt[1]], ctx.graph):
                    h = prog.functions.get(q)
                    if h is not None and q.startswith("synrbl.") and text_rewrites(h):
                        bad.append((c, "%s (text substitution in %s)" % (unparse(c.func), q.split("synrbl.", 1)[-1])))
                        break
        ctx.instance("C20-Y6", "%s: textual rewrites reached: %s" % (f.name, [b[1] for b in bad] or "none"), f.loc(), ok=not bad)
        for c, why in bad:
            ctx.finding("C20-Y6", "%s.%s:text-rewrite:%s" % (f.qualname.split(".")[-2], f.name, unparse(c.func).split(".")[-1]), f.loc(c), "the standardiser rewrites the SMILES as text through %s: un-bracketing or editing tokens changes which hydrogens RDKit assumes ([O] radical becomes O with an H), so atoms are not conserved" % why)


def rule_y7(ctx, funcs: List[Func]) -> None:
    """Rewrite-until-stable: the loop that re-queries the groups after every rewrite must run until nothing changes.  A
    bounded `for _ in range(B)` is such a loop only if B grows with the input (every rewrite removes one group of the
    SMILES it was bounded for); a fixed or configured cap returns a partly standardised molecule for inputs with more
    groups, and a second application then rewrites the rest."""
    ctx.rule("C20-Y7", "the rewrite-until-stable loop is not capped by a bound that is independent of the input", 0)
    n = 0
    for f in funcs:
        if len(f.params) < 2:
            continue
        smi = f.params[1]
        for loop in [x for x in own_nodes(f.node) if isinstance(x, ast.For)]:
            rebinds = [a for a in ast.walk(loop) if isinstance(a, ast.Assign) and any(isinstance(t, ast.Name) and t.id == smi for t in a.targets)]
            requery = [c for c in ast.walk(loop) if isinstance(c, ast.Call) and any(isinstance(a, ast.Name) and a.id == smi for a in c.args) and isinstance(c.func, ast.Attribute) and c.func.attr in ("get", "query", "find", "match")]
            if not (rebinds and requery):
                continue
            n += 1
            it = loop.iter
            if not (isinstance(it, ast.Call) and isinstance(it.func, ast.Name) and it.func.id == "range" and it.args):
                ctx.instance("C20-Y7", "%s: rewrite loop over %s (not a counted loop)" % (f.name, unparse(it)[:40]), f.loc(loop), ok=True)
                continue
            bound = it.args[-1] if len(it.args) <= 2 else it.args[1]
            seen, work = set(), [bound]
            depends = False
            while work:
                e = work.pop()
                for nm in names_in(e):
                    if nm == smi:
                        depends = True
                    if nm in seen:
                        continue
                    seen.add(nm)
                    for _st, v, _i in assignments_to(f, nm):
                        work.append(v)
            ctx.instance("C20-Y7", "%s: rewrite loop bounded by %s (depends on the input SMILES: %s)" % (f.name, unparse(bound)[:40], depends), f.loc(loop), ok=depends)
            if not depends:
                ctx.finding("C20-Y7", "%s.%s:fixed-rewrite-cap" % (f.qualname.split(".")[-2], f.name), f.loc(loop), "the rewrite-until-stable loop stops after %s passes whatever the input: a molecule or mixture with more rewritable groups is returned partly standardised, and standardising the result again changes it" % unparse(bound)[:40])
    if n == 0:
        ctx.note("C20-Y7: no counted rewrite-until-stable loop on this tree (a loop that rebinds the SMILES and queries its groups again); Y2/Y5 decide the other loop shapes")


def rule_y8(ctx, funcs: List[Func]) -> None:
    """Hydrogens moved by hand.  Where a rewrite lowers the explicit hydrogen count of one atom, the matching increase on
    another atom must happen under the same conditions.  In particular it must not be conditional on the *current explicit
    count* of the receiving atom: a bracket atom without hydrogens ([C:1]) has count 0 and no implicit hydrogens, so it
    would never receive the hydrogen and the molecule loses an atom."""
    ctx.rule("C20-Y8", "hand-made hydrogen transfers: the increase is not conditional on the receiver's current hydrogen count", 2)
    COUNT_READS = ("GetNumExplicitHs", "GetTotalNumHs", "GetNumImplicitHs")
    for f in funcs:
        edits = [c for c in own_nodes(f.node) if isinstance(c, ast.Call) and isinstance(c.func, ast.Attribute) and c.func.attr == "SetNumExplicitHs" and c.args]
        if not edits:
            continue
        cfg = CFG(f.node)

        smi = f.params[0] if f.params and f.params[0] not in ("self", "cls") else (f.params[1] if len(f.params) > 1 else None)

        def refuses(cond, pol) -> bool:
            """the other outcome of the test gives the input SMILES back (the rewrite is refused, nothing is lost)"""
            for n in own_nodes(f.node):
                if isinstance(n, ast.If) and any(x is cond for x in ast.walk(n.test)):
                    other = n.orelse if pol else n.body
                    return bool(other) and isinstance(other[-1], ast.Return) and isinstance(other[-1].value, ast.Name) and other[-1].value.id == smi
            return False

        def count_guards(c):
            out = []
            nid = cfg.node_of(c)
            for cond, pol in cfg.guards(nid) if nid is not None else []:
                if any(isinstance(x, ast.Call) and isinstance(x.func, ast.Attribute) and x.func.attr in COUNT_READS for x in ast.walk(cond)):
                    if refuses(cond, pol):
                        continue
                    out.append(("" if pol else "not ") + unparse(cond))
            return out

        def may_raise(c):
            a = c.args[0]
            if isinstance(a, ast.Constant):
                return isinstance(a.value, int) and a.value > 0
            return any(isinstance(x, ast.BinOp) and isinstance(x.op, ast.Add) and not (isinstance(x.right, ast.Constant) and isinstance(x.right.value, int) and x.right.value <= 0) for x in ast.walk(a))

        raising = [c for c in edits if may_raise(c)]
        # an increase that is free of any hydrogen-count condition serves the receivers that have none
        free_raising = [c for c in raising if not count_guards(c)]
        for c in edits:
            g = count_guards(c)
            bad = c in raising and bool(g) and not free_raising
            ctx.instance("C20-Y8", "%s: %s under hydrogen-count condition(s) %s" % (f.name, unparse(c)[:50], g or "none"), f.loc(c), ok=not bad)
            if bad:
                ctx.finding("C20-Y8", "%s.%s:conditional-hydrogen-transfer" % (f.qualname.split(".")[-2], f.name), f.loc(c), "%s adds the moved hydrogen (%s) only if %s: a receiving bracket atom without hydrogens has count 0 and no implicit hydrogens, never gets it, and the rewritten molecule is one H short" % (f.name, unparse(c)[:50], " and ".join(g)))


def rule_y9(ctx, funcs: List[Func]) -> None:
    """A rewrite that changes bond orders (RemoveBond + AddBond on an EditableMol) changes the valence left for
    hydrogens on the atoms involved.  RDKit recomputes implicit hydrogens only for atoms written without brackets; an
    atom written in brackets (atom-mapped, isotope, charge) keeps its explicit count.  A rewrite that never touches the
    explicit hydrogen counts therefore produces a molecule with one hydrogen too few or too many whenever such an atom
    takes part and sanitisation still succeeds (a carbon that should gain a hydrogen becomes a radical)."""
    ctx.rule("C20-Y9", "every bond-order rewrite also keeps the hydrogen count of atoms without implicit hydrogens", 2)
    for f in funcs:
        adds = [c for c in own_nodes(f.node) if isinstance(c, ast.Call) and isinstance(c.func, ast.Attribute) and c.func.attr == "AddBond"]
        removes = [c for c in own_nodes(f.node) if isinstance(c, ast.Call) and isinstance(c.func, ast.Attribute) and c.func.attr == "RemoveBond"]
        if not (adds and removes):
            continue
        book = [c for c in own_nodes(f.node) if isinstance(c, ast.Call) and isinstance(c.func, ast.Attribute) and c.func.attr in ("SetNumExplicitHs", "SetNoImplicit")]
        ctx.instance("C20-Y9", "%s: %d bond edit(s), %d explicit-hydrogen adjustment(s)" % (f.name, len(adds) + len(removes), len(book)), f.loc(adds[0]), ok=bool(book))
        if not book:
            ctx.finding("C20-Y9", "%s.%s:no-hydrogen-bookkeeping" % (f.qualname.split(".")[-2], f.name), f.loc(adds[0]), "%s changes bond orders but never adjusts explicit hydrogen counts: for an atom written in brackets (no implicit hydrogens) the rewritten molecule has a different number of hydrogens than the input" % f.name)


def rule_y10(ctx, funcs: List[Func]) -> None:
    """`SetNumExplicitHs(<positive constant>)` states a belief about the atom (a hydroxyl oxygen that becomes water has
    exactly one hydrogen and one other neighbour).  The belief must be checked on the same atom before the count is set:
    for a metal alkoxide oxygen (no hydrogen, bonded to Na/K/Mg) the constant adds a hydrogen and sanitisation still
    succeeds (the metal bond becomes dative)."""
    ctx.rule("C20-Y10", "an absolute explicit-hydrogen count is set only after the atom's current hydrogens were tested", 0)
    STATE = ("GetTotalNumHs", "GetNumExplicitHs", "GetNumImplicitHs")
    n = 0
    for f in funcs:
        cfg = None
        for c in [x for x in own_nodes(f.node) if isinstance(x, ast.Call) and isinstance(x.func, ast.Attribute) and x.func.attr == "SetNumExplicitHs" and x.args]:
            a = c.args[0]
            if not (isinstance(a, ast.Constant) and isinstance(a.value, int) and a.value >= 0):
                continue
            n += 1
            cfg = cfg or CFG(f.node)
            recv = unparse(c.func.value)
            nid = cfg.node_of(c)
            tested = False
            for cond, _pol in cfg.guards(nid) if nid is not None else []:
                for x in ast.walk(cond):
                    if isinstance(x, ast.Call) and isinstance(x.func, ast.Attribute) and x.func.attr in STATE and unparse(x.func.value) == recv:
                        tested = True
            ctx.instance("C20-Y10", "%s: %s after a test of %s's hydrogens/neighbours: %s" % (f.name, unparse(c), recv, tested), f.loc(c), ok=tested)
            if not tested:
                ctx.finding("C20-Y10", "%s.%s:absolute-hydrogen-count:%d" % (f.qualname.split(".")[-2], f.name, a.value), f.loc(c), "%s sets the explicit hydrogen count of %s to %d without having tested how many hydrogens the atom has: an oxygen with another count (metal alkoxide O[Na], oxonium [OH2+]) ends with more or fewer hydrogens than the input" % (f.name, recv, a.value))
    if n == 0:
        ctx.note("C20-Y10: no absolute positive hydrogen count is set on this tree")


def rule_y11(ctx, funcs: List[Func]) -> None:
    """Sanitisation is the standardiser's only guard against an impossible rewrite (charged oxygen, wrong valence): the
    rewrite functions return the input when it fails.  `SanitizeMol(mol, catchErrors=True)` does not raise - it returns
    the failed operation - so its result has to be tested; called as a statement it lets every invalid molecule through."""
    ctx.rule("C20-Y11", "a failed sanitisation is noticed: SanitizeMol raises (no catchErrors) or its result is tested", 1)
    for f in funcs:
        for c in [x for x in own_nodes(f.node) if isinstance(x, ast.Call) and unparse(x.func).split(".")[-1] == "SanitizeMol"]:
            ce = next((k.value for k in c.keywords if k.arg == "catchErrors"), c.args[2] if len(c.args) > 2 else None)
            silent = ce is not None and not (isinstance(ce, ast.Constant) and ce.value is False)
            used = not isinstance(getattr(c, "_parent", None), ast.Expr)
            in_try = False
            cur = getattr(c, "_parent", None)
            while cur is not None and cur is not f.node:
                if isinstance(cur, ast.Try) and any(c in ast.walk(b) for b in cur.body):
                    in_try = True
                cur = getattr(cur, "_parent", None)
            ok = (not silent and in_try) or (silent and used)
            ctx.instance("C20-Y11", "%s: %s (raises: %s, inside try: %s, result used: %s)" % (f.name, unparse(c)[:50], not silent, in_try, used), f.loc(c), ok=ok)
            if not ok:
                ctx.finding("C20-Y11", "%s.%s:sanitisation-failure-unnoticed" % (f.qualname.split(".")[-2], f.name), f.loc(c), "%s calls %s %s: a rewrite that RDKit rejects (C=C[O-] -> CC=[O-]) is serialised and returned instead of the input" % (f.name, unparse(c)[:50], "with catchErrors and ignores the result" if silent else "outside any handler"))


def rule_y12(ctx, funcs: List[Func]) -> None:
    """The standardiser object lives as long as the Balancer.  If it keeps a table of earlier results, an entry that the
    current call has just stored must still be there when the call reads it: evicting (`clear` / `pop` / `del`) inside the
    loop that fills the table, and reading the table by key after or later in that loop, raises KeyError for a valid input
    once the table is full."""
    ctx.rule("C20-Y12", "no result table of the standardiser is evicted between storing and reading an entry in one call", 0)
    n = 0
    for f in funcs:
        for loop in [x for x in own_nodes(f.node) if isinstance(x, (ast.For, ast.While))]:
            stores, evicts = {}, {}
            for x in ast.walk(loop):
                if isinstance(x, ast.Assign):
                    for t in x.targets:
                        if isinstance(t, ast.Subscript) and isinstance(t.value, ast.Attribute) and isinstance(t.value.value, ast.Name) and t.value.value.id == "self":
                            stores.setdefault(t.value.attr, x)
                if isinstance(x, ast.Call) and isinstance(x.func, ast.Attribute) and x.func.attr in ("clear", "pop", "popitem") and isinstance(x.func.value, ast.Attribute) and isinstance(x.func.value.value, ast.Name) and x.func.value.value.id == "self":
                    evicts.setdefault(x.func.value.attr, x)
                if isinstance(x, ast.Delete):
                    for t in x.targets:
                        if isinstance(t, ast.Subscript) and isinstance(t.value, ast.Attribute) and isinstance(t.value.value, ast.Name) and t.value.value.id == "self":
                            evicts.setdefault(t.value.attr, x)
            for attr in sorted(set(stores) & set(evicts)):
                n += 1
                reads = [x for x in own_nodes(f.node) if isinstance(x, ast.Subscript) and isinstance(x.ctx, ast.Load) and isinstance(x.value, ast.Attribute) and x.value.attr == attr and isinstance(x.value.value, ast.Name) and x.value.value.id == "self"]
                ok = not reads
                ctx.instance("C20-Y12", "%s: self.%s is filled and evicted in one loop; %d keyed read(s) afterwards" % (f.name, attr, len(reads)), f.loc(evicts[attr]), ok=ok)
                if not ok:
                    ctx.finding("C20-Y12", "%s.%s:evicted-before-read:%s" % (f.qualname.split(".")[-2], f.name, attr), f.loc(evicts[attr]), "self.%s is emptied (%s) inside the loop that stores this call's entries and is read by key afterwards (%s): when the table fills up in the middle of a mixture the earlier entries of the same call are gone and a valid input raises KeyError" % (attr, unparse(evicts[attr])[:40], unparse(reads[0])[:40]))
    if n == 0:
        ctx.note("C20-Y12: the standardiser keeps no result table that is evicted on this tree")


def rule_y13(ctx, funcs: List[Func]) -> None:
    """Idempotence.  The loop stops when no recognised group can be rewritten *in the SMILES as it is spelled*, and the
    result is returned canonicalised.  Recognition depends on the spelling (an explicit `[H]` atom hides an enol), so a
    second application - which sees the canonical spelling - can rewrite more, unless the first query already ran on the
    canonical spelling: the input is canonicalised before the first functional-group query."""
    ctx.rule("C20-Y13", "the input is canonicalised before the first functional-group query", 1)
    n = 0
    for f in funcs:
        if len(f.params) < 2:
            continue
        smi = f.params[1]
        qattrs = {"query"}
        init = ctx.prog.lookup_method(f.cls, "__init__") if f.cls is not None else None
        if init is not None:
            for a_ in own_nodes(init.node):
                if isinstance(a_, ast.Assign) and isinstance(a_.value, ast.Call) and unparse(a_.value.func).split(".")[-1] == "FGQuery":
                    qattrs |= {t.attr for t in a_.targets if isinstance(t, ast.Attribute)}

        def is_query(c):
            return isinstance(c, ast.Call) and isinstance(c.func, ast.Attribute) and c.func.attr == "get" and isinstance(c.func.value, ast.Attribute) and c.func.value.attr in qattrs and bool(c.args)

        queries = [c for c in own_nodes(f.node) if is_query(c)]
        # a query made by a method of the class that this one hands the SMILES to
        for c in own_nodes(f.node):
            if isinstance(c, ast.Call) and isinstance(c.func, ast.Attribute) and isinstance(c.func.value, ast.Name) and c.func.value.id == f.params[0] and c.args:
                m = next((g for g in funcs if g.name == c.func.attr and g is not f), None)
                if m is not None and len(m.params) >= 2 and any(is_query(x) and isinstance(x.args[0], ast.Name) and x.args[0].id == m.params[1] for x in own_nodes(m.node)):
                    queries.append(c)
        rets = [r for r in own_nodes(f.node) if isinstance(r, ast.Return) and isinstance(r.value, ast.Call) and unparse(r.value.func).split(".")[-1] in SMILES_FUNCS]
        if not (queries and rets):
            continue
        n += 1
        cfg = CFG(f.node)
        def canonicaliser(call) -> bool:
            """RDKit's canonical writer after a *sanitising* parse (which also folds hydrogens written as atoms into
            their neighbours); a package helper counts only if it parses that way too"""
            t = unparse(call.func).split(".")[-1]
            if t in ("CanonSmiles", "MolToSmiles"):
                return True
            tgt = ctx.res.resolve_callee(call, f)
            g = ctx.prog.functions.get(tgt[1]) if tgt and tgt[0] == "func" else None
            if g is None:
                return False
            parses = [c for c in own_nodes(g.node) if isinstance(c, ast.Call) and unparse(c.func).split(".")[-1] == "MolFromSmiles"]
            writes = [c for c in own_nodes(g.node) if isinstance(c, ast.Call) and unparse(c.func).split(".")[-1] in ("MolToSmiles", "CanonSmiles")]
            raw = [c for c in parses if any(k.arg == "sanitize" and not (isinstance(k.value, ast.Constant) and k.value.value is True) for k in c.keywords)]
            return bool(writes) and not raw

        canon = [a for a in own_nodes(f.node) if isinstance(a, ast.Assign) and isinstance(a.value, ast.Call) and canonicaliser(a.value) and any(isinstance(t, ast.Name) for t in a.targets)]
        ok = False
        for q in queries:
            arg = q.args[0]
            qn = cfg.node_of(q)
            for a in canon:
                an = cfg.node_of(a)
                tnames = {t.id for t in a.targets if isinstance(t, ast.Name)}
                if an is not None and qn is not None and cfg.dominates(an, qn) and isinstance(arg, ast.Name) and (arg.id in tnames or any(isinstance(v, ast.Name) and v.id in tnames for _s, v, _i in assignments_to(f, arg.id))):
                    ok = True
        ctx._c20_canonical_first = getattr(ctx, "_c20_canonical_first", True) and ok
        ctx.instance("C20-Y13", "%s: the first query runs on a canonicalised SMILES: %s" % (f.name, ok), f.loc(queries[0]), ok=ok)
        if not ok:
            ctx.finding("C20-Y13", "%s.%s:query-on-given-spelling" % (f.qualname.split(".")[-2], f.name), f.loc(queries[0]), "%s queries the functional groups of the SMILES as given and returns the canonical spelling of the result: a group hidden by the given spelling (C(=C)O[H]) is rewritten only by a second application, so standardising twice differs from standardising once" % f.name)
    ctx.require(n >= 1, "no method of the standardiser both queries functional groups and returns a SMILES")


def rule_y16(ctx, funcs: List[Func]) -> None:
    """Atom indices reported by the functional-group query are positions in the SMILES that was queried.  Every rewrite
    returns a renumbered canonical SMILES, so anything remembered *by index* from one query (a set of groups already
    tried, a skip list) describes other atoms after the next rewrite: a group that can still be rewritten is skipped in
    this call and rewritten by the next one - applying twice differs from applying once."""
    ctx.rule("C20-Y16", "nothing keyed by atom indices of one functional-group query is kept across a rewrite (re-query)", 1)
    n = 0
    for f in funcs:
        qcalls = [c for c in own_nodes(f.node) if isinstance(c, ast.Call) and isinstance(c.func, ast.Attribute) and c.func.attr == "get" and isinstance(c.func.value, ast.Attribute) and "query" in c.func.value.attr and c.args]
        if not qcalls:
            continue
        # outermost loop around the query: one iteration = one SMILES
        def outer_loop(node):
            out, cur = None, getattr(node, "_parent", None)
            while cur is not None and cur is not f.node:
                if isinstance(cur, (ast.For, ast.While)):
                    out = cur
                cur = getattr(cur, "_parent", None)
            return out

        for q in qcalls:
            lp = outer_loop(q)
            if lp is None:
                continue
            n += 1
            # names bound to the query result, loops over them, their index variables
            st = q
            while not isinstance(st, ast.stmt):
                st = getattr(st, "_parent", None)
            holders = set()
            if isinstance(st, ast.Assign):
                for t in st.targets:
                    holders.add(unparse(t))
            idx_vars = set()
            for x in ast.walk(lp):
                if isinstance(x, ast.For) and (unparse(x.iter) in holders or x.iter is q):
                    idx_vars |= {v.id for v in ast.walk(x.target) if isinstance(v, ast.Name)}
            # derived locals (group = (name, tuple(atom_indices)))
            for _ in range(3):
                for x in ast.walk(lp):
                    if isinstance(x, ast.Assign) and any(isinstance(v, ast.Name) and v.id in idx_vars for v in ast.walk(x.value)):
                        idx_vars |= {t.id for t in x.targets if isinstance(t, ast.Name)}
            bad = None
            for x in ast.walk(lp):
                cont = None
                if isinstance(x, ast.Call) and isinstance(x.func, ast.Attribute) and x.func.attr in ("add", "append", "update", "extend", "setdefault", "insert") and isinstance(x.func.value, ast.Name) and any(isinstance(v, ast.Name) and v.id in idx_vars for a in x.args for v in ast.walk(a)):
                    cont = x.func.value.id
                elif isinstance(x, ast.Assign) and any(isinstance(t, ast.Subscript) and isinstance(t.value, ast.Name) and any(isinstance(v, ast.Name) and v.id in idx_vars for v in ast.walk(t.slice)) for t in x.targets):
                    cont = next(t.value.id for t in x.targets if isinstance(t, ast.Subscript) and isinstance(t.value, ast.Name))
                if cont is None:
                    continue
                defs = [d for d, _v, _i in assignments_to(f, cont)]
                inside = [d for d in defs if any(d is y for y in ast.walk(lp))]
                if defs and not inside:
                    bad = bad or (x, cont)
            ctx.instance("C20-Y16", "%s: containers filled by atom index inside the rewrite loop are rebuilt per query: %s" % (f.name, bad is None), f.loc(q), ok=bad is None)
            if bad is not None:
                ctx.finding("C20-Y16", "%s.%s:index-memo-across-rewrites:%s" % (f.qualname.split(".")[-2], f.name, bad[1]), f.loc(bad[0]), "%s remembers functional groups by atom index in `%s`, which is created before the rewrite loop and outlives a rewrite: the next query numbers the atoms of another SMILES, a group that can still be rewritten lands on a remembered index tuple and is skipped - a second application rewrites it, so standardising twice differs from standardising once" % (f.name, bad[1]))
    if n == 0:
        ctx.note("C20-Y16: no functional-group query sits inside a rewrite loop on this tree")


def rule_y14(ctx, funcs: List[Func]) -> None:
    """Both rewrites move a hydrogen away from an oxygen (enol O-H -> C-H; gem-diol O-H -> water).  The oxygen that
    gives it must have one: for an oxygen without hydrogen (radical `[O]`, oxenium `[O+]`) the receiving atom still gains
    one and the molecule ends one hydrogen richer.  Each rewrite function therefore returns its input when the donor's
    `GetTotalNumHs()` is 0 - decided here by evaluating the function's refusal tests for the counts 0..3."""
    from ..constfold import Folder, Unfoldable

    ctx.rule("C20-Y14", "the oxygen that gives up a hydrogen is tested to carry one (count 0 refuses the rewrite)", 2)
    for f in funcs:
        if not any(isinstance(c, ast.Call) and isinstance(c.func, ast.Attribute) and c.func.attr == "AddBond" for c in own_nodes(f.node)):
            continue
        cfg = CFG(f.node)
        # donors: the receiver of SetNumExplicitHs(0), or - where the hydrogens are moved by delta - the atom with delta -1
        donors = []
        for c in own_nodes(f.node):
            if isinstance(c, ast.Call) and isinstance(c.func, ast.Attribute) and c.func.attr == "SetNumExplicitHs" and c.args and isinstance(c.args[0], ast.Constant) and c.args[0].value == 0:
                donors.append((unparse(c.func.value), c, "count-set-to-zero"))
        for t in own_nodes(f.node):
            if isinstance(t, ast.Tuple) and len(t.elts) == 2 and isinstance(t.elts[1], ast.UnaryOp) and isinstance(t.elts[1].op, ast.USub) and isinstance(t.elts[0], ast.Name):
                donors.append(("GetAtomWithIdx(%s)" % t.elts[0].id, t, "hydrogen-moved-away"))
        for recv, site, how in donors:
            allowed = {0, 1, 2, 3}
            nid = cfg.node_of(site)
            for cond, pol in cfg.guards(nid) if nid is not None else []:
                hcalls = [c for c in ast.walk(cond) if isinstance(c, ast.Call) and isinstance(c.func, ast.Attribute) and c.func.attr == "GetTotalNumHs"]
                if not hcalls:
                    continue
                rrecv = unparse(hcalls[0].func.value)
                same = rrecv == recv or recv in rrecv or rrecv in recv
                if not same and recv.startswith("GetAtomWithIdx("):
                    idx = recv[len("GetAtomWithIdx(") : -1]
                    same = idx in rrecv or any(idx in unparse(v) for _s, v, _i in assignments_to(f, rrecv))
                if not same:
                    continue
                keep = set()
                for h in sorted(allowed):
                    try:
                        if bool(Folder(f.module, None).fold(clone_test(cond, hcalls, h))) == bool(pol):
                            keep.add(h)
                    except Exception:
                        keep.add(h)
                allowed = keep
            ok = 0 not in allowed
            ctx.instance("C20-Y14", "%s: hydrogen donor %s reaches the rewrite with hydrogen counts %s" % (f.name, recv, sorted(allowed)), f.loc(site), ok=ok)
            if not ok:
                ctx.finding("C20-Y14", "%s.%s:donor-without-hydrogen:%s" % (f.qualname.split(".")[-2], f.name, how), f.loc(site), "%s moves a hydrogen away from %s without refusing the rewrite when that atom has none (counts that reach the rewrite: %s): for a radical or cationic oxygen ([O]C=C, C=C[O+]) the receiving atom gains a hydrogen the molecule never had" % (f.name, recv, sorted(allowed)))


def rule_y15(ctx, funcs: List[Func]) -> None:
    """A recognised group does not always have three atoms (an explicit isotope hydrogen `[2H]` is an atom of the
    graph and is listed with the group).  Unpacking a sequence derived from the group's indices into a fixed number of
    names raises ValueError for such a group unless its length was tested or the unpacking sits in a handler - and an
    exception out of a rewrite function is an error in place of a SMILES."""
    ctx.rule("C20-Y15", "a sequence derived from the group indices is not unpacked into a fixed number of names without a length test", 0)
    n = 0
    for f in funcs:
        params = set(f.params)
        idx_params = {p_ for p_ in params if "ind" in p_.lower() or "idx" in p_.lower()}
        if not idx_params:
            continue
        cfg = None
        for a in [x for x in own_nodes(f.node) if isinstance(x, ast.Assign) and len(x.targets) == 1 and isinstance(x.targets[0], (ast.Tuple, ast.List))]:
            v = a.value
            derived = isinstance(v, (ast.ListComp, ast.GeneratorExp)) or (isinstance(v, ast.Call) and isinstance(v.func, ast.Name) and v.func.id in ("sorted", "list", "tuple", "filter", "reversed"))
            if not derived or not any(isinstance(x, ast.Name) and x.id in idx_params for x in ast.walk(v)):
                continue
            n += 1
            cfg = cfg or CFG(f.node)
            nid = cfg.node_of(a)
            guarded = any("len(" in unparse(c_) and any(p_ in unparse(c_) for p_ in idx_params) for c_, _pol in (cfg.guards(nid) if nid is not None else []))
            cur = getattr(a, "_parent", None)
            while cur is not None and cur is not f.node:
                if isinstance(cur, ast.Try) and any(any(y is a for y in ast.walk(b)) for b in cur.body):
                    guarded = True
                cur = getattr(cur, "_parent", None)
            ctx.instance("C20-Y15", "%s: %s (length tested / handled: %s)" % (f.name, unparse(a)[:60], guarded), f.loc(a), ok=guarded)
            if not guarded:
                ctx.finding("C20-Y15", "%s.%s:fixed-arity-unpacking" % (f.qualname.split(".")[-2], f.name), f.loc(a), "%s unpacks %s into %d names without testing how many atoms the group has: a group with an extra atom (an explicit isotope hydrogen) raises ValueError out of the standardiser" % (f.name, unparse(v)[:50], len(a.targets[0].elts)))
    if n == 0:
        ctx.note("C20-Y15: no fixed-arity unpacking of the group indices on this tree")


def clone_test(test, hcalls, h):
    """copy of `test` with every GetTotalNumHs() call replaced by the constant h"""
    from ..model import clone

    t = clone(test)
    targets = [unparse(c) for c in hcalls]

    class R(ast.NodeTransformer):
        def visit_Call(self, node):
            if unparse(node) in targets:
                return ast.copy_location(ast.Constant(value=h), node)
            self.generic_visit(node)
            return node

    t = R().visit(t)
    ast.fix_missing_locations(t)
    return t


def check(ctx) -> None:
    prog = ctx.prog
    cls = prog.cls(CLS)
    # Y17: a front end that standardises a column reports each result next to the compound it belongs to
    from . import c06 as _c06

    _c06.rule_index_alignment(ctx, "C20-Y17")
    funcs = [m for m in cls.methods.values() if m.name != "__init__"]
    ctx.require(len(funcs) >= 3, "MoleculeStandardizer lost its methods")
    if ctx.tier == "thorough":
        extra = [g for g in prog.package_functions() if g.cls is not cls and g.parent is None]
        rule_y13(ctx, funcs)
        rule_y1(ctx, funcs + extra)
        rule_y2(ctx, funcs)
        rule_y3(ctx, funcs + extra)
        rule_y4(ctx, funcs)
        rule_y5(ctx, funcs)
        rule_y6(ctx, funcs)
        rule_y7(ctx, funcs)
        rule_y8(ctx, funcs)
        rule_y9(ctx, funcs)
        rule_y10(ctx, funcs)
        rule_y12(ctx, funcs)
        rule_y14(ctx, funcs)
        rule_y15(ctx, funcs)
        rule_y16(ctx, funcs)
    else:
        rule_y13(ctx, funcs)
        rule_y1(ctx, funcs)
        rule_y2(ctx, funcs)
        rule_y3(ctx, funcs)
        rule_y4(ctx, funcs)
        rule_y5(ctx, funcs)
        rule_y6(ctx, funcs)
        rule_y7(ctx, funcs)
        rule_y8(ctx, funcs)
        rule_y9(ctx, funcs)
        rule_y10(ctx, funcs)
        rule_y12(ctx, funcs)
        rule_y14(ctx, funcs)
        rule_y15(ctx, funcs)
        rule_y16(ctx, funcs)
