"""C18 - run statistics agree with the returned rows (structure of the counters)."""

from __future__ import annotations

import ast
from typing import Dict, List, Optional, Set, Tuple

from ..cfg import CFG, normal_compare, split_cond
from ..model import Func, own_nodes, unparse
from ..pipeline import Pipeline, Stage
from ..rows import RowFlow
from ..util import assignments_to, const_str, enclosing_stmt, names_in
from ..values import Env, Val, texts

EXPLANATION = (
    "Decides where and how often each statistic is written and read, not data-dependent numeric equalities: (Z1) in "
    "Balancer.__run_pipeline each statistics key has exactly one writing stage call (the stats object reaches a stage only where "
    "its argument is passed; the second rule-based run must not receive it); (Z2) every key that cmd_run.print_result and "
    "cmd_benchmark.output_result read is stored on every pipeline path that returns rows, guarded at most by `stats is not None`; "
    "(Z3) counters sit on the decision they count: reaction_cnt is len(rows) before any stage, mcs_applied is incremented exactly "
    "under presence of the MCS key, mcs_solved next to the write-back, confident_cnt under confidence >= threshold, rb_applied is "
    "the length of the list handed to the rule imputer, rb_solved the length of the list written back; (Z4) every stored value is "
    "an int count so that merge_stats' key-wise + is the partition-independent sum."
    " Z3 also decides the source of balanced_cnt: len(A) - len(B) - len(C) with B and C the single-assignment filter_data selections of A by the labels other than 'Balance'."
    ' (Z5) in Balancer.rebalance the batch statistics are merged under exactly the conditions under which the batch rows are collected; (Z6) the validator labels a row solved under exactly the comparator-label / carbon-label / not-yet-solved tests that balanced_cnt is derived from.'
    ' (Z7) no row is folded into another before the counting stages (shared with C05-P1, duplicates); (Z8) the MCS search marks every row that is unsolved at its start.'
    ' (Z9) the statistics of a cached batch were computed under the settings in force (shared with C12-K1).'
    ' (Z10) the statistics stored in a cache entry are the dictionary handed to the pipeline (shared with C12-K3). (Z11) no attribute of a long-lived stage object carries counts from one batch to the next (shared with C06-B7).'
    ' (Z12) nobody edits a container that is a parameter default (shared with C06-B13).'
)
ASSUMPTIONS = ["that every row the imputer counted as solved survives validation is data-dependent and not decided"]

RUN = "synrbl.balancing.Balancer.__run_pipeline"


def stats_stores(ctx, f: Func, pname: str) -> List[Tuple[ast.AST, str, ast.AST]]:
    out = []
    for n in own_nodes(f.node):
        if isinstance(n, (ast.Assign, ast.AugAssign)):
            targets = n.targets if isinstance(n, ast.Assign) else [n.target]
            for t in targets:
                if isinstance(t, ast.Subscript) and isinstance(t.value, ast.Name) and t.value.id == pname:
                    k = const_str(t.slice)
                    out.append((n, k, n.value))
    return out


def is_int_count(f: Func, e: ast.AST, depth: int = 0) -> bool:
    if depth > 4:
        return False
    if isinstance(e, ast.Constant):
        return isinstance(e.value, int) and not isinstance(e.value, bool)
    if isinstance(e, ast.Call) and isinstance(e.func, ast.Name) and e.func.id in ("len", "int", "sum"):
        if e.func.id == "sum":
            return True
        return True
    if isinstance(e, ast.BinOp) and isinstance(e.op, (ast.Add, ast.Sub)):
        return is_int_count(f, e.left, depth + 1) and is_int_count(f, e.right, depth + 1)
    if isinstance(e, ast.Name):
        asg = assignments_to(f, e.id)
        aug = [n for n in own_nodes(f.node) if isinstance(n, ast.AugAssign) and isinstance(n.target, ast.Name) and n.target.id == e.id]
        if not asg:
            return False
        return all(idx is None and is_int_count(f, v, depth + 1) for _, v, idx in asg) and all(isinstance(a.op, ast.Add) and is_int_count(f, a.value, depth + 1) for a in aug)
    return False


def stat_writers(ctx, pl):
    """(writers: key -> [stage labels], key_site: key -> (func, stmt, value), first stage line)"""
    f = pl.func
    ctx.require(len(f.params) >= 3, "__run_pipeline lost its stats parameter")
    sname = f.params[2]
    writers: Dict[str, List[str]] = {}
    key_site: Dict[str, Tuple[Func, ast.AST, ast.AST]] = {}
    all_sites: Dict[str, list] = {}
    ctx._stat_sites = all_sites
    first_stage_line = min(s.call.lineno for s in pl.stages if not s.inline)
    for n, k, v in stats_stores(ctx, f, sname):
        writers.setdefault(k, []).append("__run_pipeline@%d" % n.lineno)
        key_site[k] = (f, n, v)
        all_sites.setdefault(k, []).append((f, n, sname))
    for st in pl.stages:
        if st.inline:
            continue
        callee = st.callee
        names = callee.params[1:] if (callee.cls is not None and not callee.is_static) else callee.params
        bound = None
        for i, a in enumerate(st.call.args):
            if isinstance(a, ast.Name) and a.id == sname and i < len(names):
                bound = names[i]
        for k in st.call.keywords:
            if isinstance(k.value, ast.Name) and k.value.id == sname:
                bound = k.arg
        if bound is None:
            continue
        for n, k, v in stats_stores(ctx, callee, bound):
            lab = "stage %d %s" % (st.index, st.label)
            if lab not in writers.setdefault(k, []):
                writers[k].append(lab)
            key_site[k] = (callee, n, v)
            all_sites.setdefault(k, []).append((callee, n, bound))
        for c in [x for x in own_nodes(callee.node) if isinstance(x, ast.Call)]:
            if any(isinstance(a, ast.Name) and a.id == bound for a in list(c.args) + [kw.value for kw in c.keywords]):
                tgt = ctx.res.resolve_callee(c, callee)
                if tgt and tgt[0] == "func":
                    ctx.note("stats object is passed on to %s from %s" % (tgt[1], callee.qualname))
    return writers, key_site, first_stage_line


def rule_z5(ctx) -> None:
    """The run statistics are the sum over exactly the batches whose rows are returned: in Balancer.rebalance the batch
    statistics are merged under the same conditions under which the batch rows are collected."""
    ctx.rule("C18-Z5", "batch statistics are merged exactly where the batch rows are collected", 1)
    prog = ctx.prog
    reb = prog.func("synrbl.balancing.Balancer.rebalance")
    cfg = CFG(reb.node)
    merges = [c for c in own_nodes(reb.node) if isinstance(c, ast.Call) and (ctx.res.resolve_callee(c, reb) or ("", ""))[1].endswith(".merge_stats")]
    ctx.require(merges, "rebalance no longer merges the batch statistics with merge_stats")
    # the batch result: first element of the tuple returned by the per-batch call
    pairs = []
    for n in own_nodes(reb.node):
        if isinstance(n, ast.Assign) and len(n.targets) == 1 and isinstance(n.targets[0], ast.Tuple) and len(n.targets[0].elts) == 2 and all(isinstance(e, ast.Name) for e in n.targets[0].elts) and isinstance(n.value, ast.Call):
            tgt = ctx.res.resolve_callee(n.value, reb)
            if tgt and tgt[0] == "func" and tgt[1].endswith("__rebalance_batch"):
                pairs.append((n.targets[0].elts[0].id, n.targets[0].elts[1].id))
    ctx.require(len(pairs) == 1, "rebalance no longer unpacks (rows, statistics) from __rebalance_batch")
    rows_nm, stats_nm = pairs[0]
    collects = []
    for n in own_nodes(reb.node):
        if isinstance(n, ast.Call) and isinstance(n.func, ast.Attribute) and n.func.attr in ("extend", "append") and any(isinstance(x, ast.Name) and x.id == rows_nm for a in n.args for x in ast.walk(a)):
            collects.append(n)
        if isinstance(n, ast.AugAssign) and isinstance(n.op, ast.Add) and any(isinstance(x, ast.Name) and x.id == rows_nm for x in ast.walk(n.value)):
            collects.append(n)
    ctx.require(collects, "rebalance no longer collects the rows of a batch")

    sinks = {m.args[0].id for m in merges if m.args and isinstance(m.args[0], ast.Name)}

    def guard_set(node):
        out = set()
        for c, p in cfg.guards(cfg.node_of(node)):
            if names_in(c) and names_in(c) <= sinks:
                continue  # `stats is not None` only decides whether anybody listens; it does not select batches
            nc = normal_compare(c, p)
            out.add("%s %s %s" % (unparse(nc[0]), nc[1], unparse(nc[2])) if nc else ("" if p else "not ") + unparse(c))
        return out

    def neutral(g):
        return g

    want = set()
    for c in collects:
        want |= neutral(guard_set(c))
    for m in merges:
        if not any(isinstance(x, ast.Name) and x.id == stats_nm for a in m.args for x in ast.walk(a)):
            continue
        have = neutral(guard_set(m))
        ok = have == want
        ctx.instance("C18-Z5", "merge_stats under %s; rows collected under %s" % (sorted(have) or "no condition", sorted(want) or "no condition"), reb.loc(m), ok=ok)
        if not ok:
            ctx.finding("C18-Z5", "Balancer.rebalance:merge-vs-collect", reb.loc(m), "the statistics of a batch are merged under %s but its rows are collected under %s: the counters then cover batches whose rows are not in the output (or miss batches that are)" % (sorted(have) or "no condition", sorted(want) or "no condition"))


def rule_z6(ctx, pl=None) -> None:
    """balanced_cnt is computed by the rule-based stage from the comparator label and the carbon label alone (Z3).  The
    validator must label a row input-balanced under exactly those two tests (plus `not yet solved`), otherwise count and
    labels describe different sets."""
    ctx.rule("C18-Z6", "the validator labels a row solved under exactly: label == 'Balance', carbon label == 'balanced', not yet solved", 3)
    pl = pl or Pipeline(ctx)
    solved = pl.solved_col.text
    carbon = texts(ctx.balancer.get("__carbon_balance_col"))
    st = next((x for x in pl.stages if x.attr == "input_validator"), None)
    ctx.require(st is not None, "the input validator stage was not found in __run_pipeline")
    stores = [s_ for s_ in st.stores if solved in s_.keytexts and isinstance(s_.value, ast.Constant) and s_.value.value is True]
    ctx.require(stores, "Validator.check no longer stores solved := True")
    for s_ in stores:
        kinds, extra = {}, []
        for a_ in s_.atoms:
            if a_.kind == "var" and a_.op == "==" and a_.value == "Balance":
                kinds["label"] = repr(a_)
            elif a_.kind == "cmp" and set(map(str, a_.keys)) & carbon and a_.op == "==" and a_.value == "balanced":
                kinds["carbon"] = repr(a_)
            elif a_.kind == "truth" and a_.op == "not" and solved in set(map(str, a_.keys)):
                kinds["unsolved"] = repr(a_)
            elif a_.kind == "cmp" and solved in set(map(str, a_.keys)) and a_.op in ("==", "is") and a_.value is False:
                kinds["unsolved"] = repr(a_)
            else:
                extra.append(repr(a_))
        for k in ("label", "carbon", "unsolved"):
            ctx.instance("C18-Z6", "solved := True guarded by %s test: %s" % (k, kinds.get(k)), s_.where(), ok=k in kinds)
            if k not in kinds:
                ctx.finding("C18-Z6", "Validator.check:label-condition:missing-%s" % k, s_.where(), "the validator labels rows solved without the %s test that balanced_cnt is derived from" % k)
        if extra:
            ctx.instance("C18-Z6", "additional condition(s) on the label: %s" % extra, s_.where(), ok=False)
            ctx.finding("C18-Z6", "Validator.check:label-condition:extra", s_.where(), "the validator labels a row solved only if additionally %s holds, a test balanced_cnt (computed in the rule-based stage from the comparator and carbon labels alone) does not apply: rows are counted as balanced but not labelled input-balanced" % extra)


def rule_z8(ctx, pl) -> None:
    """mcs_applied counts the rows that carry the MCS key (Z3).  It equals the number of rows the first two stages left
    unsolved only if the MCS search gives the key to *every* row that is unsolved when it starts: the store
    `row[mcs] = None` sits under `not row[solved]` and under nothing else."""
    ctx.rule("C18-Z8", "the MCS search marks every row that is unsolved at its start (the key that mcs_applied counts)", 1)
    solved = pl.solved_col.text
    mcs = texts(ctx.balancer.get("__mcs_data_col"))
    n = 0
    for st in pl.stages:
        if st.attr != "mcs_search":
            continue
        for s_ in st.stores:
            if not (s_.keytexts & mcs and isinstance(s_.value, ast.Constant) and s_.value.value is None):
                continue
            n += 1
            others = [a for a in s_.atoms if not (a.kind == "truth" and a.op == "not" and solved in set(map(str, a.keys)))]
            under_unsolved = any(a.kind == "truth" and a.op == "not" and solved in set(map(str, a.keys)) for a in s_.atoms)
            ok = under_unsolved and not others
            ctx.instance("C18-Z8", "MCSSearch.find marks rows under %s" % [repr(a) for a in s_.atoms], s_.where(), ok=ok)
            if not ok:
                ctx.finding("C18-Z8", "mcs_search.MCSSearch.find:mark-not-every-unsolved-row", s_.where(), "the MCS key is given under %s, not under `not solved` alone: unsolved rows without the key are not counted in mcs_applied, which then differs from the number of rows not solved before the MCS stage" % [repr(a) for a in s_.atoms])
    ctx.require(n >= 1, "MCSSearch.find no longer stores None under the MCS key")


def check(ctx) -> None:
    rule_z8(ctx, Pipeline(ctx))
    # Z10: the statistics replayed from a cache entry are those of exactly that batch (shared with C12-K3)
    from . import c12 as _c12

    _c12.rule_k3(ctx, "C18-Z10")
    # Z11: the counters a stage reports for a batch are computed from that batch: no attribute of a long-lived stage
    # object is written while a batch is processed and read back by a later one (shared with C06-B7)
    from . import c06 as _c06

    _c06.rule_b7(ctx, ctx.res.reachable(["synrbl.balancing.Balancer.rebalance"], ctx.graph), "C18-Z11")
    # Z12: the dictionary the counters are merged into is the caller's own for this run: nobody edits a container that
    # is a parameter default (a front end with `stats={}` keeps adding to one dictionary; shared with C06-B13)
    _c06.rule_b13(ctx, "C18-Z12")
    rule_z5(ctx)
    rule_z6(ctx)
    # Z7: the stages count the rows that are returned: no row is removed from (or folded into another row of) the batch
    # before the counting stages run (shared with C05-P1, de-duplication part)
    from . import c05

    c05.rule_p1(ctx, Pipeline(ctx), "C18-Z7", only_duplicates=True)
    # Z9: the statistics of a batch served from the cache were computed under the settings in force (shared with C12-K1)
    from . import c12

    c12.rule_k1(ctx, "C18-Z9")
    pl = Pipeline(ctx)
    prog = ctx.prog
    f = pl.func
    ctx.rule("C18-Z1", "each statistics key is written by exactly one stage call per pipeline run", 6)
    ctx.rule("C18-Z2", "every key read by the CLI/benchmark is stored on every path (guarded only by `stats is not None`)", 7)
    ctx.rule("C18-Z3", "counters sit on the decision they count", 5)
    ctx.rule("C18-Z4", "every stored statistic is an int count", 6)
    writers, key_site, first_stage_line = stat_writers(ctx, pl)
    ctx.require(None not in writers, "a statistics key is not a string constant")
    for k, ws in sorted(writers.items()):
        ok = len(ws) == 1
        ctx.instance("C18-Z1", "key %r written by %s" % (k, ws), key_site[k][0].loc(key_site[k][1]), ok=ok)
        if not ok:
            ctx.finding("C18-Z1", "stats:%s:writers" % k, key_site[k][0].loc(key_site[k][1]), "statistic %r is written by %d stage calls in one pipeline run (%s); the later one overwrites the earlier" % (k, len(ws), ws))
    # ---------------------------------------------------------------- Z2
    readers = {
        "synrbl.SynCmd.cmd_run.print_result": "stats",
        "synrbl.SynCmd.cmd_benchmark.output_result": "stats",
    }
    read_keys: Dict[str, str] = {}
    for q, p in readers.items():
        g = prog.func(q)
        for n in own_nodes(g.node):
            if isinstance(n, ast.Subscript) and isinstance(n.ctx, ast.Load) and isinstance(n.value, ast.Name) and n.value.id == p and const_str(n.slice):
                read_keys.setdefault(const_str(n.slice), q)
    ctx.require(len(read_keys) >= 6, "readers of the statistics changed shape: %s" % sorted(read_keys))
    for k, q in sorted(read_keys.items()):
        ok = k in writers
        guard_ok = True
        gs = []
        if ok:
            g, n, v = key_site[k]
            sites = getattr(ctx, "_stat_sites", {}).get(k) or [(g, n, None)]
            gcfg = CFG(g.node)
            store_nodes = {gcfg.node_of(sn) for sg, sn, _b in sites if sg is g}
            sname_g = next((b for sg, sn, b in sites if sg is g and b), None)

            def satisfied(nd):
                if nd.id in store_nodes:
                    return True
                # paths on which the caller passed no stats object are exempt
                if nd.kind == "edge" and nd.cond is not None:
                    t = unparse(nd.cond)
                    if sname_g and t == "%s is not None" % sname_g and nd.polarity is False:
                        return True
                    if sname_g and t == "%s is None" % sname_g and nd.polarity is True:
                        return True
                return False

            guard_ok, _ = gcfg.every_path_to_exit_passes(gcfg.entry, satisfied)
            gs = gcfg.guards(gcfg.node_of(n))
        ctx.instance("C18-Z2", "key %r read by %s" % (k, q.split(".")[-2] + "." + q.split(".")[-1]), "", ok=ok and guard_ok)
        if not ok:
            ctx.finding("C18-Z2", "stats:%s:never-written" % k, prog.func(q).loc(), "%s reads statistic %r which no pipeline stage writes" % (q, k))
        elif not guard_ok:
            g, n, v = key_site[k]
            ctx.finding("C18-Z2", "stats:%s:conditional" % k, g.loc(n), "statistic %r is only stored on some paths (guards: %s)" % (k, [unparse(c) for c, p in gs]))
    # ---------------------------------------------------------------- Z3
    # reaction_cnt: len(rows) before any stage
    if "reaction_cnt" in key_site:
        g, n, v = key_site["reaction_cnt"]
        is_len = isinstance(v, ast.Call) and isinstance(v.func, ast.Name) and v.func.id == "len" and v.args and isinstance(v.args[0], ast.Name) and v.args[0].id == pl.rows_param
        # the same count spelled as an unfiltered sum of ones over the rows
        is_sum = (
            isinstance(v, ast.Call) and isinstance(v.func, ast.Name) and v.func.id == "sum" and len(v.args) == 1 and isinstance(v.args[0], (ast.GeneratorExp, ast.ListComp))
            and isinstance(v.args[0].elt, ast.Constant) and v.args[0].elt.value == 1 and len(v.args[0].generators) == 1 and not v.args[0].generators[0].ifs
            and isinstance(v.args[0].generators[0].iter, ast.Name) and v.args[0].generators[0].iter.id == pl.rows_param
        )
        ok = g is f and (is_len or is_sum) and n.lineno < first_stage_line
        ctx.instance("C18-Z3", "reaction_cnt = len(rows) before the first stage", g.loc(n), ok=ok)
        if not ok:
            ctx.finding("C18-Z3", "stats:reaction_cnt:position", g.loc(n), "reaction_cnt is not len(<input rows>) taken before the first stage (rows may already be filtered)")
    mcs_key = texts(ctx.balancer.get("__mcs_data_col"))
    rb_done = False
    for st in pl.stages:
        if st.attr == "mcs_method":
            g = st.callee
            flow = RowFlow(ctx.ev, g, st.env, {g.params[1]})
            gcfg = flow.cfg
            for n in own_nodes(g.node):
                if isinstance(n, ast.AugAssign) and isinstance(n.target, ast.Name):
                    atoms = flow.atoms_for(gcfg.guards(gcfg.node_of(n)), set(flow.elements))
                    if _feeds(g, n.target.id, "mcs_applied"):
                        ok = len(atoms) == 1 and atoms[0].kind == "haskey" and atoms[0].op == "in" and bool(atoms[0].keys & mcs_key)
                        ctx.instance("C18-Z3", "mcs_applied counter under %s" % [repr(a) for a in atoms], g.loc(n), ok=ok)
                        if not ok:
                            ctx.finding("C18-Z3", "stats:mcs_applied:guard", g.loc(n), "mcs_applied is not incremented exactly for rows carrying the MCS key (guards: %s)" % [repr(a) for a in atoms])
                    elif _feeds(g, n.target.id, "mcs_solved"):
                        # same block as the write-back of the reaction
                        wb = [s for s in st.stores if s.func is g and pl.reaction_col.text in s.keytexts]
                        ok = bool(wb) and all(_same_try_body(n, s.node) for s in wb) and not gcfg.in_handler(gcfg.node_of(n))
                        ctx.instance("C18-Z3", "mcs_solved counter next to the write-back", g.loc(n), ok=ok)
                        if not ok:
                            ctx.finding("C18-Z3", "stats:mcs_solved:position", g.loc(n), "mcs_solved is not incremented in the block that writes the imputed reaction back")
        if st.attr == "rb_method" and "rb_applied" in key_site and key_site["rb_applied"][0] is st.callee and not rb_done:
            rb_done = True
            g = st.callee
            _, n, v = key_site["rb_applied"]
            tgt = _len_of(g, v)
            imp_arg = None
            for c in [x for x in own_nodes(g.node) if isinstance(x, ast.Call)]:
                if isinstance(c.func, ast.Attribute) and c.func.attr == "parallel_impute" and c.args and isinstance(c.args[0], ast.Name):
                    imp_arg = c.args[0].id
            ok = tgt is not None and tgt == imp_arg
            ctx.instance("C18-Z3", "rb_applied = len(%s) == list handed to the imputer (%s)" % (tgt, imp_arg), g.loc(n), ok=ok)
            if not ok:
                ctx.finding("C18-Z3", "stats:rb_applied:source", g.loc(n), "rb_applied is not the length of the list handed to the rule imputer")
            # balanced_cnt: the number of rows the comparator labelled 'Balance' among the carbon-balanced ones
            if "balanced_cnt" in key_site and key_site["balanced_cnt"][0] is g:
                _, nb, vb = key_site["balanced_cnt"]
                okb, whyb = _balanced_source(ctx, g, vb)
                ctx.instance("C18-Z3", "balanced_cnt: %s" % whyb, g.loc(nb), ok=okb)
                if not okb:
                    ctx.finding("C18-Z3", "stats:balanced_cnt:source", g.loc(nb), "balanced_cnt does not count exactly the rows labelled 'Balance': %s" % whyb)
            _, n2, v2 = key_site.get("rb_solved", (None, None, None))
            if n2 is not None:
                tgt2 = _len_of(g, v2)
                wb_iter = None
                for s in st.stores:
                    if s.func is g and pl.reaction_col.text in s.keytexts and s.kind == "assign":
                        cur = getattr(s.node, "_parent", None)
                        while cur is not None and not isinstance(cur, ast.For):
                            cur = getattr(cur, "_parent", None)
                        if cur is not None and isinstance(cur.iter, ast.Name):
                            wb_iter = cur.iter.id
                ok2 = tgt2 is not None and tgt2 == wb_iter
                ctx.instance("C18-Z3", "rb_solved = len(%s) == list written back (%s)" % (tgt2, wb_iter), g.loc(n2), ok=ok2)
                if not ok2:
                    ctx.finding("C18-Z3", "stats:rb_solved:source", g.loc(n2), "rb_solved is not the length of the list whose reactions are written back")
    # confident_cnt under c >= threshold: shared with C13-H1 (counter-branch); re-derived here
    for st in pl.stages:
        if st.attr == "conf_predictor":
            g = st.callee
            gcfg = CFG(g.node)
            for n in own_nodes(g.node):
                if isinstance(n, ast.AugAssign) and isinstance(n.target, ast.Name) and _feeds(g, n.target.id, "confident_cnt"):
                    keep = False
                    for c, p in gcfg.guards(gcfg.node_of(n)):
                        for cc, pp in split_cond(c, p):
                            nc = normal_compare(cc, pp)
                            if nc and "threshold" in names_in(nc[0]) | names_in(nc[2]):
                                l, op, r = nc
                                o = op if (isinstance(r, ast.Name) and r.id == "threshold") else {"<": ">", ">": "<", "<=": ">=", ">=": "<="}.get(op, op)
                                keep = o == ">="
                    ctx.instance("C18-Z3", "confident_cnt counter on the keeping branch", g.loc(n), ok=keep)
                    if not keep:
                        ctx.finding("C18-Z3", "stats:confident_cnt:guard", g.loc(n), "confident_cnt is not incremented exactly on the branch that keeps the row solved")
    # confident_cnt computed in one go: must be a count of the very comparison that keeps rows solved
    if "confident_cnt" in key_site:
        g, n, v = key_site["confident_cnt"]
        cname = v.id if isinstance(v, ast.Name) else None
        has_counter = cname is not None and any(isinstance(x, ast.AugAssign) and isinstance(x.target, ast.Name) and x.target.id in _copy_closure(g, cname) for x in own_nodes(g.node))
        if cname is not None and not has_counter:
            # arrays compared with the threshold for the count vs. for the demotion
            def cmp_arrays(e):
                out = set()
                for c in ast.walk(e):
                    if isinstance(c, ast.Compare) and "threshold" in names_in(c):
                        out |= {x for x in names_in(c) if x != "threshold"}
                return out
            count_arr = set()
            for _, val, _i in assignments_to(g, cname):
                count_arr |= cmp_arrays(val)
                for nm in names_in(val):
                    for _, v2, _j in assignments_to(g, nm):
                        count_arr |= cmp_arrays(v2)
            dem_arr = set()
            gcfg = CFG(g.node)
            from ..util import zip_partner

            for st2 in pl.stages:
                if st2.callee is g:
                    for s2 in st2.stores:
                        if pl.solved_col.text in s2.keytexts and s2.func is g:
                            for c, p in s2.raw_guards:
                                for nm in names_in(c) - {"threshold"}:
                                    zp = zip_partner(g, nm)
                                    if zp and isinstance(zp[2][zp[1]], ast.Name):
                                        src = zp[2][zp[1]].id
                                        dem_arr.add(src)
                                        # a boolean array zipped in: follow to the compared array
                                        for _, v3, _k in assignments_to(g, src):
                                            dem_arr |= cmp_arrays(v3)
            ok = bool(count_arr) and bool(count_arr & dem_arr)
            ctx.instance("C18-Z3", "confident_cnt counts a comparison on %s; demotion compares %s" % (sorted(count_arr), sorted(dem_arr)), g.loc(n), ok=ok)
            if not ok:
                ctx.finding("C18-Z3", "stats:confident_cnt:source", g.loc(n), "confident_cnt is computed from a comparison on %s while rows are kept/demoted by a comparison on %s: the count and the number of rows left solved can differ" % (sorted(count_arr) or "?", sorted(dem_arr) or "?"))
    # ---------------------------------------------------------------- Z4
    for k, (g, n, v) in sorted(key_site.items()):
        ok = isinstance(n, ast.Assign) and is_int_count(g, v)
        ctx.instance("C18-Z4", "stats[%r] = %s is an int count" % (k, unparse(v)[:40]), g.loc(n), ok=ok)
        if not ok:
            ctx.finding("C18-Z4", "stats:%s:not-a-count" % k, g.loc(n), "statistic %r is not an int count (%s); key-wise + in merge_stats is then not the partition-independent sum" % (k, unparse(n)[:60]))
    # merge_stats adds key-wise
    ms = prog.func("synrbl.balancing.merge_stats")
    adds = [n for n in own_nodes(ms.node) if isinstance(n, ast.AugAssign) and isinstance(n.op, ast.Add) and isinstance(n.target, ast.Subscript)]
    ok = len(adds) == 1
    ctx.instance("C18-Z4", "merge_stats combines by key-wise +=", ms.loc(), ok=ok)
    if not ok:
        ctx.finding("C18-Z4", "balancing.merge_stats:combine", ms.loc(), "merge_stats no longer adds the statistics key-wise")


def _len_of(g: Func, v: ast.AST, depth: int = 0) -> Optional[str]:
    """name X if v is len(X), possibly through a single-assignment local"""
    if isinstance(v, ast.Call) and isinstance(v.func, ast.Name) and v.func.id == "len" and v.args and isinstance(v.args[0], ast.Name):
        return v.args[0].id
    if isinstance(v, ast.Name) and depth < 3:
        a = assignments_to(g, v.id)
        if len(a) == 1 and a[0][2] is None:
            return _len_of(g, a[0][1], depth + 1)
    return None


def _balanced_source(ctx, g: Func, v: ast.AST):
    """balanced_cnt is len(<selection by 'Balance'>) or len(A) - len(B) - len(C) with B, C the
    selections of A by the remaining labels; every operand is bound exactly once."""
    from . import c07

    e = v
    if isinstance(e, ast.Name):
        a = assignments_to(g, e.id)
        if len(a) != 1:
            return False, "%s is assigned %d times" % (e.id, len(a))
        e = a[0][1]
    terms = []  # (sign, name)

    def flat(x, sign):
        if isinstance(x, ast.BinOp) and isinstance(x.op, (ast.Sub, ast.Add)):
            flat(x.left, sign)
            flat(x.right, sign if isinstance(x.op, ast.Add) else -sign)
        else:
            nm = _len_of(g, x)
            terms.append((sign, nm, x))

    flat(e, 1)
    if any(nm is None for _, nm, _x in terms):
        return False, "term %s is not the length of a list" % unparse([x for _, nm, x in terms if nm is None][0])[:40]

    def selection(nm):
        a = assignments_to(g, nm)
        if len(a) != 1:
            return None, "%s is bound %d times (a selection that is filtered again no longer matches its label)" % (nm, len(a))
        val = a[0][1]
        if isinstance(val, ast.Call) and unparse(val.func).split(".")[-1] == "filter_data" and val.args and isinstance(val.args[0], ast.Name):
            labs = None
            for k in val.keywords:
                if k.arg == "unbalance_values":
                    labs = c07._str_consts(k.value, g)
            extra = {k.arg: unparse(k.value) for k in val.keywords if k.arg in ("min_count", "max_count", "element_key")}
            if labs is None:
                return None, "%s: unbalance_values is not a list of literals" % nm
            if extra.get("element_key", "None") != "None":
                return None, "%s also filters by element (%s)" % (nm, extra)
            return (val.args[0].id, frozenset(labs)), ""
        return None, "%s is not a filter_data selection" % nm

    pos = [t for t in terms if t[0] > 0]
    neg = [t for t in terms if t[0] < 0]
    if len(pos) != 1:
        return False, "not of the form len(A) - len(B) - ..."
    base = pos[0][1]
    if not neg:
        sel, why = selection(base)
        if sel is None:
            return False, why
        return sel[1] == frozenset({"Balance"}), "len(%s), selection %s" % (base, sorted(sel[1]))
    if len(assignments_to(g, base)) != 1:
        return False, "%s is bound %d times" % (base, len(assignments_to(g, base)))
    labels = set()
    for _, nm, _x in neg:
        sel, why = selection(nm)
        if sel is None:
            return False, why
        if sel[0] != base:
            return False, "%s is selected from %s, not from %s" % (nm, sel[0], base)
        if labels & sel[1]:
            return False, "label(s) %s subtracted twice" % sorted(labels & sel[1])
        labels |= sel[1]
    produced = set(c07.produced_labels(ctx)[0]) if hasattr(c07, "produced_labels") else {"Balance", "Both", "Products", "Reactants"}
    want = produced - {"Balance"}
    return labels == want, "len(%s) minus the selections by %s (labels other than 'Balance': %s)" % (base, sorted(labels), sorted(want))


def _copy_closure(g: Func, name: str) -> Set[str]:
    """names whose value reaches `name` through plain copies (`name = other`)"""
    out, work = {name}, [name]
    while work:
        x = work.pop()
        for _st, v, i in assignments_to(g, x):
            if i is None and isinstance(v, ast.Name) and v.id not in out:
                out.add(v.id)
                work.append(v.id)
    return out


def _feeds(g: Func, counter: str, key: str) -> bool:
    for n in own_nodes(g.node):
        if isinstance(n, ast.Assign) and any(isinstance(t, ast.Subscript) and const_str(t.slice) == key for t in n.targets):
            if isinstance(n.value, ast.Name) and counter in _copy_closure(g, n.value.id):
                return True
    return False


def _same_try_body(a: ast.AST, b: ast.AST) -> bool:
    def try_of(x):
        cur = getattr(x, "_parent", None)
        while cur is not None:
            if isinstance(cur, ast.Try):
                return cur
            cur = getattr(cur, "_parent", None)
        return None

    ta, tb = try_of(a), try_of(b)
    return ta is not None and ta is tb
