"""C14 - composition-determined outcomes ignore how the SMILES is written."""

from __future__ import annotations

import ast
from typing import Dict, List, Optional, Set

from ..model import Func, own_nodes, unparse
from ..smitext import TextFlow
from ..util import assignments_to, calls, const_str, names_in

EXPLANATION = (
    "Decides that the solver's inputs and the gating predicates of the rule-based path do not observe spelling or molecule order, not "
    "that RDKit parses equivalent spellings to the same composition: (S1) every argument that reaches SyntheticRuleMatcher (constructor "
    "and match) derives from the difference formula and the rule table only - no value carrying SMILES text (may-taint) - and the side "
    "chosen for the append derives from the unbalance label only; (S2) on the input-balanced / rule-based / post-processing path no "
    "predicate over a *joined* side string that carries input molecules (substring `in`, str.count/find/startswith, regex "
    "search/findall/match, ordering) gates a write; predicates that are invariant under respelling and reordering by construction "
    "are allowed: emptiness, separator presence, whole-component equality / membership / count on the list obtained by split('.').  "
    "A substring or regex test on a joined string is position dependent ('.X' never matches the first component) and prefix dependent "
    "('.[H]' matches '.[H][H]'), whatever the marker."
    ' (S3) the solver never selects the first entry of the imbalance / rule mapping; (S4) the carbon label counts molecules, not distinct spellings (shared with C07-E6); S2 also classifies textual identity between two pieces of given text and length thresholds on SMILES text as spelling-observing predicates; (S5) atom-map removal keeps the molecule (shared with C15-Rg1/Rg2).'
    ' (S6) no two mappings are paired by position of their values()/items()/keys() sequences on the rule-based path (key order = spelling order).'
    " (S7) rows are never removed because their text equals another row's (shared with C05-P1, duplicates)."
    ' (S8) can_parse applies no test on the characters of the text; (S9) the command line drops no rows after a look at their text (shared with C05-P11).'
    ' (S10) the composition is computed from the whole side string (shared with C07-E2). (S11) the carbon count tests atoms by element (shared with C07-E13).'
    ' (S12) completions come from the solver on the composition vector only (shared with C08-D8).'
)
ASSUMPTIONS = [
    "PostProcess.label_reactions is a single named exemption: its label only routes a row to a curation step whose edits depend on RDKit's count of isolated radical atoms and on whole-component filters; no failing pair of spellings could be produced",
]

MATCHER = "synrbl.SynRuleImputer.synthetic_rule_matcher.SyntheticRuleMatcher"
EXEMPT = {
    "synrbl.SynChemImputer.post_process.PostProcess.label_reactions": {".[H]|.[O]"},
}
PATH_ROOTS = [
    "synrbl.rule_based.RuleBasedMethod.run",
    "synrbl.postprocess.Validator.check",
    "synrbl.balancing.Balancer.__post_process",
    "synrbl.preprocess.preprocess",
]


def _gating(f: Func, node: ast.AST, prog, res) -> bool:
    """Is the predicate evaluated in a condition (if / while / comprehension
    filter / conditional expression / assert), or returned by a helper whose
    result is used in one?"""
    cur = node
    par = getattr(cur, "_parent", None)
    while par is not None and par is not f.node:
        if isinstance(par, (ast.If, ast.While)) and cur is par.test:
            return True
        if isinstance(par, ast.IfExp) and cur is par.test:
            return True
        if isinstance(par, ast.comprehension) and cur in par.ifs:
            return True
        if isinstance(par, ast.Assert):
            return False
        if isinstance(par, ast.Assign):
            # boolean local used in a condition later
            for t in par.targets:
                if isinstance(t, ast.Name):
                    for n in own_nodes(f.node):
                        if isinstance(n, (ast.If, ast.While)) and t.id in names_in(n.test):
                            return True
                        if isinstance(n, ast.IfExp) and t.id in names_in(n.test):
                            return True
                        if isinstance(n, ast.comprehension) and any(t.id in names_in(c) for c in n.ifs):
                            return True
            return False
        if isinstance(par, ast.Return):
            # helper predicate: used in a condition by some caller?
            for g in prog.package_functions():
                for c in calls(g):
                    tgt = res.resolve_callee(c, g)
                    if tgt and tgt[0] == "func" and tgt[1] == f.qualname:
                        if _gating(g, c, prog, res):
                            return True
            return False
        cur, par = par, getattr(par, "_parent", None)
    return False


def _record_fallback(ctx, f: Func, op) -> bool:
    """The tested text comes from a local helper that returns the join of a
    recorded list ``reaction.get(<non text key>)`` and falls back to the whole
    side only under ``<record> is None``."""
    h = None
    for c in ast.walk(op.node):
        if isinstance(c, ast.Call):
            if isinstance(c.func, ast.Name) and c.func.id in f.nested:
                h = f.nested[c.func.id]
            else:
                t = ctx.res.resolve_callee(c, f)
                if t and t[0] == "func" and t[1] in ctx.prog.functions and t[1].startswith("synrbl."):
                    h = ctx.prog.functions[t[1]]
    if h is None:
        return False
    from ..cfg import CFG

    cfg = CFG(h.node)
    rets = [n for n in own_nodes(h.node) if isinstance(n, ast.Return) and n.value is not None]
    if len(rets) != 2:
        return False
    rec_name = None
    for n in own_nodes(h.node):
        if isinstance(n, ast.Assign) and isinstance(n.value, ast.Call) and isinstance(n.value.func, ast.Attribute) and n.value.func.attr == "get" and n.value.args:
            k = n.value.args[0]
            if isinstance(k, ast.BinOp) and isinstance(k.left, ast.Constant) and str(k.left.value).startswith("added_") and isinstance(n.targets[0], ast.Name):
                rec_name = n.targets[0].id
    if rec_name is None:
        return False
    ok_fallback = ok_record = False
    for r in rets:
        guards = [(unparse(c), p) for c, p in cfg.guards(cfg.node_of(r))]
        if ("%s is None" % rec_name, True) in guards:
            ok_fallback = True
        elif rec_name in names_in(r.value) and "join" in unparse(r.value):
            ok_record = True
    return ok_fallback and ok_record


def _record_chain(ctx):
    """On the pipeline path the record always exists: the imputer sets
    imputed_side next to new_reaction, and the constraint step stores the
    added lists whenever imputed_side is present."""
    prog = ctx.prog
    si = prog.func("synrbl.SynRuleImputer.synthetic_rule_imputer.SyntheticRuleImputer.single_impute")
    side = [n for n in own_nodes(si.node) if isinstance(n, ast.Assign) and isinstance(n.targets[0], ast.Subscript) and const_str(n.targets[0].slice) == "imputed_side"]
    newr = [n for n in own_nodes(si.node) if isinstance(n, ast.Assign) and isinstance(n.targets[0], ast.Subscript) and const_str(n.targets[0].slice) == "new_reaction"]
    a = bool(side) and bool(newr) and all(getattr(x, "_parent", None) is getattr(newr[0], "_parent", None) for x in side)
    mod = prog.func("synrbl.SynRuleImputer.synthetic_rule_constraint.RuleConstraint.reduction_oxidation_rules_modify")
    from ..cfg import CFG

    cfg = CFG(mod.node)
    stores = [n for n in own_nodes(mod.node) if isinstance(n, ast.Assign) and isinstance(n.targets[0], ast.Subscript) and str(const_str(n.targets[0].slice)).startswith("added_")]
    b = len(stores) >= 2
    for st in stores:
        g = cfg.guards(cfg.node_of(st))
        base = st.targets[0].value
        okg = (
            len(g) == 1
            and g[0][1] is True
            and isinstance(g[0][0], ast.Compare)
            and len(g[0][0].ops) == 1
            and isinstance(g[0][0].ops[0], ast.In)
            and const_str(g[0][0].left) == "imputed_side"
            and unparse(g[0][0].comparators[0]) == unparse(base)
        )
        if not okg:
            b = False
    return a and b, "imputer records imputed_side with new_reaction: %s; constraint step stores added_* iff imputed_side: %s" % (a, b)


def check(ctx) -> None:
    prog = ctx.prog
    reach = ctx.pipeline_reachable()
    tf = TextFlow(ctx, reach)
    ctx.rule("C14-S1", "no SMILES text reaches the rule solver; the append side derives from the label only", 3)
    ctx.rule("C14-S2", "no spelling-observing predicate over a joined side string gates a write on the rule-based path", 4)
    # ---------------------------------------------------------------- S1
    for m in ("__init__", "match", "dfs", "apply_rule", "can_match"):
        q = MATCHER + "." + m
        prog.func(q)
        pt = tf.param_taint.get(q, {})
        bad = {p: sorted(l) for p, l in pt.items() if "T" in l}
        ctx.instance("C14-S1", "SyntheticRuleMatcher.%s parameters carrying SMILES text: %s" % (m, bad or "none"), prog.func(q).loc(), ok=not bad)
        for p in bad:
            ctx.finding("C14-S1", "SyntheticRuleMatcher.%s:text-argument:%s" % (m, p), prog.func(q).loc(), "parameter %r of the composition solver receives text that carries the given molecules; the completion can then depend on the spelling" % p)
    si = prog.func("synrbl.SynRuleImputer.synthetic_rule_imputer.SyntheticRuleImputer.single_impute")
    # the solver is constructed in single_impute or in a helper it calls (two levels)
    holders, frontier, seen_h = [], [si], {si.qualname}
    for _ in range(3):
        nxt = []
        for g in frontier:
            cs = [c for c in calls(g) if (ctx.res.resolve_callee(c, g) or (None, ""))[1] == MATCHER]
            if cs:
                holders.append((g, cs))
            for c in calls(g):
                t = ctx.res.resolve_callee(c, g)
                if t and t[0] == "func" and t[1] in prog.functions and t[1] not in seen_h and t[1].startswith("synrbl.SynRuleImputer."):
                    seen_h.add(t[1])
                    nxt.append(prog.functions[t[1]])
        frontier = nxt
    ctx.require(holders, "neither single_impute nor its helpers construct SyntheticRuleMatcher any more")
    names = tf._names_cache.get(si.qualname, {})
    for g, cs in holders:
        gnames = tf._names_cache.get(g.qualname, {})
        for c in cs:
            args = list(c.args) + [k.value for k in c.keywords]
            tainted = [unparse(a) for a in args if any("T" in gnames.get(x, frozenset()) for x in names_in(a))]
            ctx.instance("C14-S1", "%s constructs the solver from %s (arguments carrying SMILES text: %s)" % (g.name, [unparse(a)[:40] for a in args], tainted or "none"), g.loc(c), ok=not tainted)
            if tainted:
                ctx.finding("C14-S1", "SyntheticRuleImputer.%s:solver-input" % g.name, g.loc(c), "the solver is constructed from text that carries the given molecules (%s)" % tainted)
    # side selection
    side = [n for n in own_nodes(si.node) if isinstance(n, ast.Assign) and isinstance(n.value, ast.IfExp) and {const_str(n.value.body), const_str(n.value.orelse)} == {"products", "reactants"}]
    oks = bool(side) and all("Unbalance" in unparse(n.value.test) and not any("T" in names.get(x, frozenset()) for x in names_in(n.value.test) if x != si.params[0] and x != "dict_impute") for n in side)
    ctx.instance("C14-S1", "append side chosen from the unbalance label only", si.loc(side[0]) if side else si.loc(), ok=oks)
    if not oks:
        ctx.finding("C14-S1", "SyntheticRuleImputer.single_impute:side-selection", si.loc(), "the side that receives the completion is not chosen from the unbalance label alone")
    # ---------------------------------------------------------------- S3
    ctx.rule("C14-S3", "the solver never selects 'the first' entry of the imbalance / rule mapping (key order = spelling order)", 5)
    solver_funcs = [MATCHER + "." + m for m in ("__init__", "match", "dfs", "apply_rule", "can_match", "exit_strategy_solution")] + ["synrbl.SynRuleImputer.synthetic_rule_imputer.SyntheticRuleImputer.single_impute"]
    for q in solver_funcs:
        g = prog.func(q)
        params = set(g.params) | {"self.data_dict"}
        bad = None
        for n in own_nodes(g.node):
            if isinstance(n, ast.Call) and isinstance(n.func, ast.Name) and n.func.id == "next" and n.args:
                a = n.args[0]
                src = None
                if isinstance(a, (ast.GeneratorExp, ast.ListComp)):
                    src = a.generators[0].iter
                elif isinstance(a, ast.Call) and getattr(a.func, "id", "") == "iter" and a.args:
                    src = a.args[0]
                if src is not None and (unparse(src).split(".items")[0].split(".keys")[0] in params or (isinstance(src, ast.Subscript) and unparse(src.value) in params)):
                    bad = n
            if isinstance(n, ast.Subscript) and isinstance(n.slice, ast.Constant) and isinstance(n.slice.value, int) and isinstance(n.value, ast.Call) and getattr(n.value.func, "id", "") in ("list", "tuple") and n.value.args and unparse(n.value.args[0]).split(".keys")[0].split(".items")[0] in params:
                bad = n
            if isinstance(n, ast.Call) and isinstance(n.func, ast.Attribute) and n.func.attr == "popitem" and unparse(n.func.value) in params:
                bad = n
        ctx.instance("C14-S3", "%s: no first-entry selection from a mapping parameter" % q.split(".")[-1], g.loc(), ok=bad is None)
        if bad is not None:
            ctx.finding("C14-S3", "%s:first-entry-of-mapping" % q.split("synrbl.", 1)[-1].split(".", 1)[-1], g.loc(bad), "`%s` picks the first entry of a mapping whose key order is the order in which the elements occur in the SMILES: two spellings of one reaction can get different completions" % unparse(bad)[:60])
    # ---------------------------------------------------------------- S2
    path = ctx.res.reachable(PATH_ROOTS, ctx.graph)
    by_func: Dict[str, List] = {}
    n_admissible = 0
    for o in tf.all_ops():
        if o.func.qualname not in path:
            continue
        if o.klass == "component":
            n_admissible += 1
            continue
        if o.klass != "predicate":
            continue
        if "L" in o.labels and "S" not in o.labels:
            n_admissible += 1
            continue
        by_func.setdefault(o.func.qualname, []).append(o)
    ctx.require(n_admissible >= 4, "fewer than 4 admissible (component-wise) predicates found on the rule-based path; text-flow lost its anchors")
    ctx.instance("C14-S2", "%d whole-component predicates / filters on the path (admissible)" % n_admissible, "", ok=True)
    for q, ops in sorted(by_func.items()):
        f = prog.functions[q]
        gating = [o for o in ops if _gating(f, o.node, prog, ctx.res)]
        markers = sorted({o.literal if o.literal is not None else o.detail.split("(")[0].strip() for o in ops})
        short = q.split("synrbl.", 1)[-1]
        if not gating:
            ctx.instance("C14-S2", "%s: predicate(s) %s do not gate a branch" % (short, markers), ops[0].where(), ok=True)
            continue
        fb = [o for o in gating if _record_fallback(ctx, f, o)]
        if fb and len(fb) == len(gating):
            chain_ok, why = _record_chain(ctx)
            ctx.instance("C14-S2", "%s: predicate(s) %s test the recorded added molecules; whole-side text only as fallback for entries without that record (%s)" % (short, markers, why), gating[0].where(), ok=chain_ok)
            if chain_ok:
                continue
        if q in EXEMPT and set(markers) <= EXEMPT[q]:
            ctx.instance("C14-S2", "%s: %s (named exemption: routing label only)" % (short, markers), ops[0].where(), ok=True)
            continue
        ctx.instance("C14-S2", "%s: spelling-observing predicate(s) %s gate a branch" % (short, markers), gating[0].where(), ok=False)
        ctx.finding(
            "C14-S2",
            "%s:{%s}" % (short.split(".", 1)[-1] if "." in short else short, ",".join(markers)),
            gating[0].where(),
            "a spelling-observing test (substring, regex, text length or textual identity) on text that carries the given molecules gates the outcome (%s); it sees how and in which order the molecules are written" % "; ".join(o.detail for o in gating),
        )
    # ---------------------------------------------------------------- S6
    # composition mappings are filled in the order in which the elements occur in the SMILES: two such mappings may be
    # compared key by key, never position by position
    ctx.rule("C14-S6", "no two mappings are paired by position of their values()/items()/keys() sequences on the rule-based path", 1)

    def order_view(e):
        """the mapping expression whose iteration order `e` exposes as a sequence, else None"""
        if isinstance(e, ast.Call) and isinstance(e.func, ast.Name) and e.func.id in ("list", "tuple") and len(e.args) == 1:
            e = e.args[0]
            seq = True
        else:
            seq = False
        if isinstance(e, ast.Call) and isinstance(e.func, ast.Attribute) and e.func.attr in ("values", "items", "keys") and not e.args:
            return unparse(e.func.value), seq
        return None

    n_funcs = 0
    for q in sorted(path):
        g = prog.functions.get(q)
        if g is None:
            continue
        n_funcs += 1
        for n in own_nodes(g.node):
            pair = None
            if isinstance(n, ast.Compare) and len(n.ops) == 1 and isinstance(n.ops[0], (ast.Eq, ast.NotEq, ast.Lt, ast.LtE, ast.Gt, ast.GtE)):
                a, b = order_view(n.left), order_view(n.comparators[0])
                # dict views compare as sets (items/keys) - only materialised sequences compare by position
                if a and b and a[0] != b[0] and a[1] and b[1]:
                    pair = (a[0], b[0])
            elif isinstance(n, ast.Call) and isinstance(n.func, ast.Name) and n.func.id == "zip":
                views = [order_view(a) for a in n.args]
                srcs = [v[0] for v in views if v]
                if len(set(srcs)) >= 2:
                    pair = (srcs[0], [x for x in srcs if x != srcs[0]][0])
            if pair:
                ctx.instance("C14-S6", "%s pairs %s and %s by position" % (g.name, pair[0], pair[1]), g.loc(n), ok=False)
                ctx.finding("C14-S6", "%s:positional-pairing-of-mappings" % q.split("synrbl.", 1)[-1].split(".", 1)[-1], g.loc(n), "`%s` pairs the entries of %s and %s by position; the order of a composition mapping is the order in which the elements first occur in the SMILES, so two spellings of one reaction can be judged differently" % (unparse(n)[:70], pair[0], pair[1]))
    ctx.instance("C14-S6", "%d function(s) on the rule-based path scanned for positional pairing of two mappings" % n_funcs, "", ok=True)
    # S4: the carbon label counts molecules, not distinct spellings (shared with C07-E6)
    from . import c07

    c07.rule_e6(ctx, "C14-S4")
    # S5: the atom-mapped spelling denotes the same molecules after map removal (shared with C15-Rg1/Rg2)
    from . import c15

    c15.rule_rg1_rg2(ctx, "C14-S5", "C14-S5")
    # S7: rows are never removed because their text equals another row's text: which of two equivalent reactions
    # survives would depend on how they are spelled (shared with C05-P1, de-duplication part)
    from ..pipeline import Pipeline
    from . import c05

    c05.rule_p1(ctx, Pipeline(ctx), "C14-S7", only_duplicates=True)
    # S9: the front end does not drop rows after a look at their text (shared with C05-P11)
    c05.rule_p11(ctx, "C14-S9")
    rule_s8(ctx)
    # S10: the composition of a side does not depend on where the dots are: it is computed from the whole side string,
    # not summed over separately parsed pieces (`C1.O1` is methanol; shared with C07-E2)
    ctx.rule("C14-S10", "the text parsed for the composition is the whole side string handed to decompose", 0)
    c07.piecewise_findings(ctx, "C14-S10")
    # S11: the carbon count behind the carbon label counts by element, aromatic and aliphatic spelling alike (shared
    # with C07-E13)
    c07.rule_e13(ctx, "C14-S11")
    # S12: what is added is decided by the solver from the composition vector alone: no second source of completions
    # (a lookup keyed by text built in the order the elements happen to appear; shared with C08-D8)
    from . import c08

    c08.rule_d8(ctx, "C14-S12")


def rule_s8(ctx) -> None:
    """Whether a row is a reaction at all is decided by parsing it (and by counting the separator): the admission test
    of the pipeline applies no regular expression or character test to the text, which would reject some spellings of a
    reaction (two-digit ring closures written with `%`) and accept others."""
    ctx.rule("C14-S8", "RSMIProcessing.can_parse decides by the separator and by RDKit parsing, not by a test on the characters", 1)
    f = ctx.prog.func("synrbl.SynProcessor.rsmi_processing.RSMIProcessing.can_parse")
    lexical = []
    for c in [x for x in own_nodes(f.node) if isinstance(x, ast.Call) and isinstance(x.func, ast.Attribute)]:
        if c.func.attr in ("fullmatch", "match", "search", "findall", "isalnum", "isalpha", "isascii", "isprintable", "startswith", "endswith") or (c.func.attr in ("sub", "count", "find") and c.args):
            lexical.append(c)
    for n in own_nodes(f.node):
        if isinstance(n, ast.Compare) and len(n.ops) == 1 and isinstance(n.ops[0], (ast.In, ast.NotIn)) and isinstance(n.left, ast.Constant) and isinstance(n.left.value, str):
            lexical.append(n)
    ctx.instance("C14-S8", "can_parse: %d test(s) on the characters of the text" % len(lexical), f.loc(), ok=not lexical)
    for c in lexical:
        ctx.finding("C14-S8", "RSMIProcessing.can_parse:lexical-test", f.loc(c), "can_parse rejects a row after %s on its text: spellings of one reaction that differ in characters (`%%10` ring closures, isotopes, unusual bonds) are then admitted or dropped differently" % unparse(c)[:50])
