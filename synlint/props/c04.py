"""C04 - an already balanced reaction passes through as input-balanced.

G1  the input validator is the first stage after preprocess, called once,
    preceded only by atom-map removal
G2  every writer of the reaction column is guarded against rows solved by
    the input check
G3  the 'input-balanced' literal is bound to one validator only
"""

from __future__ import annotations

import ast

from .. import stageclass
from ..pipeline import Pipeline
from ..model import unparse, own_nodes
from ..values import Val, texts

EXPLANATION = (
    "Decides ordering and guards behind C04, not the balance verdict itself: (G1) in Balancer.__run_pipeline the first stage after "
    "preprocess is the validator whose method constant is 'input-balanced'; it is called exactly once and the only earlier writer of "
    "the reaction column is the atom-map removal; (G2) each of the reaction-column write sites reachable from the pipeline carries "
    "one of the guards found in the code - not solved / solved_by != 'input-balanced' / a fresh side-comparison label other than "
    "'Balance' / presence of the MCS key (which is only set under not solved) / restore of a text saved by such a guarded stage; "
    "(G3) no other validator or stage can write 'input-balanced' into the method column."
    ' (G4) the carbon label compares sums over every component of the two sides (shared with C07-E6); (G5) ids used as list positions are positions of that list (shared with C06-B2); (G6) before the input check the solved column is set to the constant False for every row on every path (a verdict of an earlier run cannot survive); (G7) the composition the input check compares is a total, injective function of the element (shared with C07-E1).'
    ' (G10) no row disappears because an equal row shares its batch (shared with C05-P1, duplicates).'
    ' (G11) a column option of a stage object is passed on to every callee with a parameter of that name (judged on the program as written); (G12) computed annotations are not shadowed by keys unpacked from the row.'
    ' (G13) the carbon count behind the carbon label tests every atom by element; a substructure query counts only by atomic number (shared with C07-E13).'
    " (G14) 'Balance' only under key-set and value equality, compare_dicts the only producer (shared with C01-R4). (G15) the validator decomposes the fields it refreshes, for the rows it labels (shared with C01-R2). (G16) every stage constructor parameter named like a column setting of the Balancer, and read by the stage, is bound where the Balancer builds the stage."
)
ASSUMPTIONS = [
    "the tool's balance verdict is the reference (its coincidence with an independent verdict is C07 behaviour, not decided)",
    "a row solved by the input check has a reaction whose fresh side-comparison label is 'Balance' (C01-R1/R2)",
]

ACCEPTED = {
    "revert-unsolved": "not solved",
    "unsolved-only": "not solved",
    "unsolved-only(mcs-key)": "MCS key present (set only under not solved)",
    "fresh-unbalanced": "fresh label != Balance",
    "fresh-unbalanced(slice)": "rows drawn from a non-Balance selection",
    "solved-not-input-balanced": "solved_by != 'input-balanced'",
}


def rule_g6(ctx, pl: Pipeline, rule_id: str = "C04-G6") -> None:
    """The input validator only labels rows whose solved flag is false: the flag
    has to be reset for every row, unconditionally, before the validator runs."""
    from ..cfg import CFG

    ctx.rule(rule_id, "before the input check the solved column is set to the constant False for every row on every path", 1)
    st0 = pl.stages[0]
    solved = pl.solved_col
    f = st0.callee
    cfg = CFG(f.node)
    cands = []
    for ks in list(st0.frame_stores) + list(st0.stores):
        keys = getattr(ks, "keys", frozenset())
        if solved not in keys and solved.text not in {k.text for k in keys if k.kind in ("const", "sym")}:
            continue
        func = ks.func
        cands.append((ks, func))
    ok_any = False
    for ks, func in cands:
        v = ks.value
        const_false = isinstance(v, ast.Constant) and v.value is False
        plain = ks.kind == "assign"
        guarded = bool(getattr(ks, "atoms", [])) or bool(getattr(ks, "raw_guards", []))
        every = False
        if func is f:
            top = ks.node
            while getattr(top, "_parent", None) is not None and top._parent is not f.node:
                top = top._parent
            nid = cfg.node_of(top)
            shape = isinstance(top, (ast.Assign, ast.For))
            if nid is not None and shape:
                every, _ = cfg.every_path_to_exit_passes(cfg.entry, lambda nd, nid=nid: nd.id == nid)
            if isinstance(top, ast.Assign) and not guarded:
                guarded = bool(cfg.guards(nid)) if nid is not None else True
        ok = const_false and plain and not guarded and every
        ok_any = ok_any or ok
        ctx.instance(rule_id, "%s: %s (constant False: %s, plain assignment: %s, unguarded: %s, on every path: %s)" % (func.name, unparse(ks.node)[:60], const_false, plain, not guarded, every), ks.where(), ok=ok)
    if not ok_any:
        where = cands[0][0].where() if cands else st0.where()
        if not cands:
            ctx.instance(rule_id, "no plain store of False into the solved column before the input check", where, ok=False)
        ctx.finding(rule_id, "preprocess:solved-reset", where, "the solved column is not reset to False for every row before the input check (%s): a row that carries solved=True from an earlier run skips the input check and keeps its old label" % ("; ".join(unparse(k.node)[:50] for k, _ in cands) or "no store found"))


def check(ctx) -> None:
    pl = Pipeline(ctx)
    writers = stageclass.classify(ctx, pl)
    ctx.rule("C04-G1", "first stage after preprocess is the 'input-balanced' validator, called once, preceded only by atom-map removal", 2)
    ctx.rule("C04-G2", "every reaction-column writer is guarded against input-balanced rows", 5)
    ctx.rule("C04-G3", "'input-balanced' is bound to exactly one validator and written nowhere else", 3)
    # ---------------------------------------------------------------- G1
    real = [s for s in pl.stages]
    ctx.require(len(real) >= 3, "stage sequence of __run_pipeline collapsed")
    first, second = real[0], real[1]
    ok0 = first.callee.qualname == "synrbl.preprocess.preprocess" and first.rows_rebound
    ctx.instance("C04-G1", "stage 0 is %s" % first.label, first.where(), ok=ok0)
    if not ok0:
        ctx.finding("C04-G1", "Balancer.__run_pipeline:first-stage", first.where(), "the pipeline does not start with `reactions = preprocess(...)` (found %s)" % first.label)
    m = second.inst.get("method") if second.inst is not None else frozenset()
    ok1 = second.callee.qualname == stageclass.VALIDATOR_CHECK and m == frozenset({Val("const", "input-balanced")})
    ctx.instance("C04-G1", "stage 1 is %s with method %s" % (second.label, sorted(map(repr, m))), second.where(), ok=ok1)
    if not ok1:
        ctx.finding("C04-G1", "Balancer.__run_pipeline:input-validator-first", second.where(), "the first stage after preprocess is %s, not the 'input-balanced' validator" % second.label)
    n_input = [s for s in pl.stages if s.inst is not None and s.inst.get("method") == frozenset({Val("const", "input-balanced")}) and s.callee.qualname == stageclass.VALIDATOR_CHECK]
    okn = len(n_input) == 1
    ctx.instance("C04-G1", "input validator is invoked %d time(s)" % len(n_input), second.where(), ok=okn)
    if not okn:
        ctx.finding("C04-G1", "Balancer.__run_pipeline:input-validator-count", second.where(), "the 'input-balanced' validator is invoked %d times (a later call would label completed reactions as input-balanced)" % len(n_input))
    for w in writers:
        if w.stage.index == 0:
            v = w.store.value
            ok = isinstance(v, ast.Call) and getattr(v.func, "id", getattr(v.func, "attr", "")) == "remove_atom_mapping"
            ctx.instance("C04-G1", "pre-verdict writer: %s" % w.where, w.where, ok=ok)
            if not ok:
                ctx.finding("C04-G1", "preprocess:pre-verdict-writer", w.where, "the reaction is edited before the input check by something other than atom-map removal")
    # ---------------------------------------------------------------- G2
    for s, ok, how in stageclass.mcs_key_only_on_unsolved(ctx, pl):
        ctx.instance("C04-G2", "MCS key store %s under %s" % (s.where(), how), s.where(), ok=ok)
        if not ok:
            ctx.finding("C04-G2", "%s:mcs-key-on-solved" % s.func.qualname.split("synrbl.", 1)[-1], s.where(), "the MCS key may be set on solved rows; 'has MCS key' no longer excludes input-balanced rows")
    sites = 0
    by_stage = {st.index: st for st in pl.stages}
    for w in writers:
        if w.stage.index == 0:
            continue
        sites += 1
        guard = ACCEPTED.get(w.klass)
        if guard is None and w.klass.startswith("restore-saved("):
            k = int(w.klass[len("restore-saved("):-1])
            src = [x for x in writers if x.stage.index == k]
            if src and all(x.klass in ACCEPTED for x in src):
                guard = "restores rows written by stage %d (%s)" % (k, ACCEPTED[src[0].klass])
        ctx.instance("C04-G2", "stage %d %s: %s [%s]" % (w.stage.index, w.stage.label, w.where, guard or w.klass), w.where, ok=guard is not None)
        if guard is None:
            ctx.finding(
                "C04-G2",
                "%s@%s" % (w.construct, w.stage.label),
                w.where,
                "writer of the reaction column is not guarded against rows solved by the input check (class %s; guards %s)" % (w.klass, [repr(a) for a in w.store.atoms]),
            )
    ctx.require(sites >= 5, "only %d reaction-column write sites found after the input check (5 confirmed by hand)" % sites)
    # ---------------------------------------------------------------- G3
    holders = {}
    for attr, inst in sorted(ctx.balancer.attr_inst.items()):
        for a, v in inst.attrs.items():
            if Val("const", "input-balanced") in v:
                holders.setdefault(attr, []).append(a)
    for attr, attrs in sorted(holders.items()):
        inst = ctx.balancer.attr_inst[attr]
        ok = inst.cls.qualname == "synrbl.postprocess.Validator" and "method" in attrs and attr.endswith("input_validator")
        ctx.instance("C04-G3", "Balancer.%s carries 'input-balanced' in %s" % (attr, attrs), "synrbl/balancing.py", ok=ok)
        if not ok:
            ctx.finding("C04-G3", "Balancer.%s:%s" % (attr, attrs[0]), "synrbl/balancing.py:1", "'input-balanced' is bound to %s.%s, not (only) to the method of the input validator" % (attr, attrs[0]))
    if not any(k.endswith("input_validator") for k in holders):
        ctx.finding("C04-G3", "Balancer.input_validator:method", "synrbl/balancing.py:1", "no validator is bound to the method 'input-balanced'")
    # completion stages come after the input validator
    for st in pl.stages[2:]:
        ctx.instance("C04-G3", "stage %d %s runs after the input check" % (st.index, st.label), st.where(), ok=True, nontrivial=False)
    # no literal store of 'input-balanced' into a row anywhere in the package
    from ..rows import package_stores

    for ks in package_stores(ctx):
        if isinstance(ks.value, ast.Constant) and ks.value.value == "input-balanced" and ks.func.qualname.startswith("synrbl."):
            ctx.instance("C04-G3", "literal store of 'input-balanced' in %s" % ks.func.qualname, ks.where(), ok=False)
            ctx.finding("C04-G3", "%s:literal-input-balanced" % ks.func.qualname.split("synrbl.", 1)[-1], ks.where(), "'input-balanced' is written outside the input validator")
    # G4: a balanced reaction can only be recognised if the carbon label counts every component (shared with C07-E6)
    from . import c07

    c07.rule_e6(ctx, "C04-G4")
    # G7: the composition the input check compares is defined for every element (shared with C07-E1)
    c07.rule_e1(ctx, "C04-G7")
    # G8: ... and is computed from the whole side string, not summed over separately parsed pieces (shared with C07-E2)
    c07.piecewise_findings(ctx, "C04-G7")
    # G9: an input-balanced row served from the cache was computed under the settings in force (shared with C12-K1)
    from . import c12

    c12.rule_k1(ctx, "C04-G9")
    # G6: no verdict of an earlier run survives into the input check
    rule_g6(ctx, pl)
    # G5: results are written back to the row they were computed for (shared with C06-B2)
    from . import c06

    c06.rule_b2(ctx, pl, "C04-G5")
    # G10: every balanced input row gets its own output row: no row disappears because an equal row shares its batch
    # (shared with C05-P1, de-duplication part)
    from . import c05

    c05.rule_p1(ctx, pl, "C04-G10", only_duplicates=True)
    rule_g11(ctx)
    # G13: the carbon label that gates 'input-balanced' counts every atom of the element (shared with C07-E13)
    c07.rule_e13(ctx, "C04-G13")
    # G14: the verdict behind 'input-balanced' is 'Balance' only under key-set and value equality of the two compositions,
    # and compare_dicts is its only producer (shared with C01-R4); G15: the compositions compared are those of the sides
    # the row carries now - the decomposer reads the fields the validator refreshes, for the rows it labels (shared with
    # C01-R2)
    from . import c01

    rule_g16(ctx)
    c01.rule_r4(ctx, "C04-G14")
    c01.rule_r2(ctx, pl, "C04-G15")


def rule_g16(ctx, rule_id: str = "C04-G16") -> None:
    """The Balancer's column settings are the caller's: `Balancer(id_col="rxn_id")` is legal.  A stage object whose
    constructor has a parameter of the same name (`id_col`, `reaction_col`) reads rows by that column; built without it,
    the stage falls back to its own default name and raises KeyError (or reads another column) as soon as it touches the
    column - inside the pipeline, where the Balancer's handler drops the whole batch."""
    ctx.rule(rule_id, "every stage constructor parameter named like a column setting of the Balancer is bound where the Balancer builds the stage", 5)
    prog = ctx.prog
    cls = prog.cls("synrbl.balancing.Balancer")
    init = prog.lookup_method(cls, "__init__")
    bparams = {p for p in init.params[1:] + init.kwonly if p.endswith("_col")}
    ctx.require(bparams, "the Balancer no longer takes column settings")
    from ..util import calls as _calls

    n = 0
    for c in _calls(init):
        sub = ctx.ev._ctor_of(c, init)
        if sub is None:
            continue
        scls = sub[0]
        sinit = prog.lookup_method(scls, "__init__")
        if sinit is None:
            continue
        sp = sinit.params[1:]
        bound = {sp[i] for i, _a in enumerate(c.args) if i < len(sp)} | {k.arg for k in c.keywords if k.arg}
        star = any(k.arg is None for k in c.keywords)
        for p_ in sp + sinit.kwonly:
            if p_ not in bparams:
                continue
            n += 1
            ok = p_ in bound or star
            if not ok:
                # only a column the stage actually reads rows by matters
                from ..util import param_attrs

                attrs = param_attrs(scls, p_)
                used = any(
                    isinstance(x, (ast.Subscript, ast.Call)) and any((isinstance(y, ast.Attribute) and y.attr in attrs) or (isinstance(y, ast.Name) and y.id == p_) for y in ast.walk(x.slice if isinstance(x, ast.Subscript) else ast.Tuple(elts=list(x.args) + [k.value for k in x.keywords], ctx=ast.Load())))
                    for m in scls.methods.values() if m.name != "__init__" for x in own_nodes(m.node)
                )
                ok = not used
            ctx.instance(rule_id, "%s(%s=..) is bound in Balancer.__init__ (or never read): %s" % (scls.name, p_, ok), init.loc(c), ok=ok)
            if not ok:
                ctx.finding(rule_id, "Balancer.__init__:stage-column-unbound:%s.%s" % (scls.name, p_), init.loc(c), "%s takes %s but the Balancer builds it without: with Balancer(%s=<other name>) the stage looks for its default column, the first access raises inside the pipeline and every row of the batch is lost" % (scls.name, p_, p_))
    ctx.require(n >= 5, "fewer than 5 stage column parameters found (%d)" % n)


def rule_g11(ctx, rule_id: str = "C04-G11") -> None:
    """The columns are configurable (`reaction_col`, `id_col`, ...): every stage object stores them as options.  When
    a method of such an object calls a package function that has a parameter of the same name, the option has to be
    passed on - a parameter left at its default makes the callee work on the literal default column while its caller
    works on the configured one."""
    ctx.rule(rule_id, "a column option of a stage object is passed on to every callee that has a parameter of that name", 3)
    # judged on the program as written: an expanded helper has its defaults bound already
    prog, res = ctx.raw
    reach = set(res.reachable(["synrbl.balancing.Balancer.__run_pipeline"], res.call_graph()))
    n = 0
    for q in sorted(reach):
        f = prog.functions.get(q)
        if f is None or f.cls is None or not q.startswith("synrbl."):
            continue
        init = prog.lookup_method(f.cls, "__init__")
        if init is None:
            continue
        options = {p_ for p_ in init.params[1:] + init.kwonly if p_.endswith("_col")}
        if not options:
            continue
        for c in [x for x in own_nodes(f.node) if isinstance(x, ast.Call)]:
            tgt = res.resolve_callee(c, f)
            g = None
            if tgt and tgt[0] == "func":
                g = prog.functions.get(tgt[1])
            elif tgt and tgt[0] == "class":
                gc = prog.classes.get(tgt[1])
                g = prog.lookup_method(gc, "__init__") if gc is not None else None
            if g is None or g.cls is f.cls:
                continue
            defaults = g.param_defaults()
            gparams = g.params + g.kwonly
            skip = 1 if (g.cls is not None and not g.is_static) else 0
            for p_ in sorted(options & set(gparams)):
                if p_ not in defaults:
                    continue  # required: a missing argument would not run at all
                n += 1
                passed = any(k.arg == p_ for k in c.keywords) or any(k.arg is None for k in c.keywords) or (gparams.index(p_) - skip) < len(c.args)
                ctx.instance(rule_id, "%s -> %s(..): %s %s" % (q.split("synrbl.", 1)[-1], g.name if g.name != "__init__" else g.cls.name, p_, "passed" if passed else "left at its default %s" % unparse(defaults[p_])), f.loc(c), ok=passed)
                if not passed:
                    ctx.finding(rule_id, "%s:%s:%s-defaulted" % (q.split("synrbl.", 1)[-1], g.name if g.name != "__init__" else g.cls.name, p_), f.loc(c), "%s calls %s without its %s: the callee works on the default column %s while %s is configured with another one, so with a caller-chosen column the two look at different data" % (f.name, g.name, p_, unparse(defaults[p_]), f.cls.name))
    ctx.require(n >= 1, "no call that forwards a column option found on the pipeline path")
    rule_g12(ctx)


def rule_g12(ctx, rule_id: str = "C04-G12") -> None:
    """Where a stage annotates a copy of a row with values it has just computed (`{"Unbalance": side, **row}`), the
    computed entries must win: in a dict display the later entry overrides the earlier one, so `**row` has to come first.
    Otherwise a column of that name that travels with the input shadows the fresh value and routes the row wrongly."""
    from ..pipeline import Pipeline

    ctx.rule(rule_id, "computed annotations are not shadowed by keys unpacked from the row afterwards", 0)
    pl = Pipeline(ctx)
    n, seen = 0, set()
    for st in pl.stages:
        f = st.callee
        if f.qualname in seen or st.inline:
            continue
        seen.add(f.qualname)
        names = f.params[1:] if (f.cls is not None and not f.is_static) else f.params
        root = None
        for i, a_ in enumerate(st.call.args):
            if isinstance(a_, ast.Name) and a_.id == pl.rows_param and i < len(names):
                root = names[i]
        if root is None:
            continue
        # names bound to a row: loop variables over the rows parameter (directly, enumerate, zip)
        row_names = set()
        for l in own_nodes(f.node):
            if isinstance(l, (ast.For, ast.comprehension)) and any(isinstance(x, ast.Name) and x.id == root for x in ast.walk(l.iter)):
                row_names |= {x.id for x in ast.walk(l.target) if isinstance(x, ast.Name)}
        for d in [x for x in own_nodes(f.node) if isinstance(x, ast.Dict)]:
            if None not in d.keys:
                continue
            first_const = next((i for i, k in enumerate(d.keys) if k is not None), None)
            if first_const is None:
                continue
            late = [d.values[i] for i, k in enumerate(d.keys) if k is None and i > first_const and isinstance(d.values[i], ast.Name) and d.values[i].id in row_names]
            unp = [d.values[i] for i, k in enumerate(d.keys) if k is None and isinstance(d.values[i], ast.Name) and d.values[i].id in row_names]
            if not unp:
                continue
            n += 1
            ctx.instance(rule_id, "%s: %s" % (f.qualname.split("synrbl.", 1)[-1], unparse(d)[:70]), f.loc(d), ok=not late)
            for u in late:
                ctx.finding(rule_id, "%s:row-keys-shadow-annotations" % f.qualname.split("synrbl.", 1)[-1], f.loc(d), "%s builds %s: the keys unpacked from the row %s come after the computed entries and override them, so a column of the same name in the input decides instead of the value just computed" % (f.name, unparse(d)[:60], unparse(u)[:30]))
    if n == 0:
        ctx.note("%s: no stage builds a dict from computed entries and an unpacked row on this tree" % rule_id)
