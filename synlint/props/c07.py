"""C07 - element, hydrogen and charge accounting (structural clauses only).

E1  element labelling is total and injective over Z = 1..118
E2  the atoms counted are those of AddHs(parsed molecule)
E3  net charge read with GetFormalCharge and stored under the key the
    consumers use
E4  label / key agreement between producers and consumers
"""

from __future__ import annotations

import ast
from typing import Dict, List, Optional, Set, Tuple

from ..cfg import CFG, normal_compare
from ..model import AnalysisError, Func, dotted, own_nodes, unparse
from ..util import assignments_to, calls, const_str, loop_binding, zip_partner
from ..pipeline import ContextMap
from ..values import Env, texts

EXPLANATION = (
    "Decides structural clauses of C07, not the behaviour: (E1) the atomic-number -> composition-key mapping written in "
    "RSMIDecomposer.decompose is injective over Z=1..118 (no two elements share a key), (E2) the atoms that are counted are the "
    "atoms of AddHs(MolFromSmiles(smiles)) (def-use), (E3) the net charge is GetFormalCharge of that molecule and is stored under "
    "the key every consumer uses, (E4) every label literal a consumer compares with is produced by a producer (unbalance labels, "
    "carbon labels) and the hard-coded row keys agree.  The truth of RDKit's counts, additivity over mixtures and the comparator "
    "over all composition pairs are NOT decided (they quantify over runtime values)."
    ' (E5) signed composition vectors never pass through Counter arithmetic; (E6) carbon totals are sums over every component; (E7) the count memo cannot outlive the object that fixes its other inputs; (E8) if a function of the decompose chain is memoised, no receiver anywhere in the package mutates the dictionary it gets; E1 also requires a directly indexed table to cover Z=1..118 and accepts constant keys under `atomic number == n`; E3 accepts a per-atom charge sum only when it runs for every atom of the loop.'
    ' (E11) the validator decomposes, compares and counts carbon on the rows it labels (shared with C01-R2); (E12) a side is parsed as a whole before its fragments are counted one by one.'
    " (E13) the per-fragment carbon count tests every atom by element (symbol / atomic number), never by a bare-symbol SMARTS. (E14) the comparator's functions do not edit the compositions they are given. (E15) reaction text is split at the whole separator, arguments folded under parameter defaults."
    ' (E16) a re-labelled both-sided difference is the given vector or its complete negation (shared with C08-D7). (E17) a value that may be a data-frame column is iterated, never subscripted with a positional loop counter.'
    ' (E18) the per-reaction work of the processors is not partitioned into strided slices (results joined slice after slice are a permutation).'
)
ASSUMPTIONS = [
    "RDKit's AddHs/GetAtoms/GetFormalCharge/GetSymbol compute what their names say",
    "the periodic table (118 symbols) embedded in synlint is correct (cross-checked against RDKit when available)",
]

DECOMPOSE = "synrbl.SynProcessor.rsmi_decomposer.RSMIDecomposer.decompose"
COMPARE = "synrbl.SynProcessor.rsmi_comparator.RSMIComparator.compare_dicts"
RUN_PARALLEL = "synrbl.SynProcessor.rsmi_comparator.RSMIComparator.run_parallel"
BOTHSIDE_REV = "synrbl.SynProcessor.rsmi_both_side_process.BothSideReact.reverse_values_if_negative_except_Q"
BOTHSIDE_FIT = "synrbl.SynProcessor.rsmi_both_side_process.BothSideReact.fit"
CARBON_PROC = "synrbl.SynProcessor.check_carbon_balance.CheckCarbonBalance.process_reaction"
RB_RUN = "synrbl.rule_based.RuleBasedMethod.run"

SYMBOLS = (
    "H He Li Be B C N O F Ne Na Mg Al Si P S Cl Ar K Ca Sc Ti V Cr Mn Fe Co Ni Cu Zn Ga Ge As Se Br Kr Rb Sr Y Zr Nb Mo "
    "Tc Ru Rh Pd Ag Cd In Sn Sb Te I Xe Cs Ba La Ce Pr Nd Pm Sm Eu Gd Tb Dy Ho Er Tm Yb Lu Hf Ta W Re Os Ir Pt Au Hg Tl "
    "Pb Bi Po At Rn Fr Ra Ac Th Pa U Np Pu Am Cm Bk Cf Es Fm Md No Lr Rf Db Sg Bh Hs Mt Ds Rg Cn Nh Fl Mc Lv Ts Og"
).split()
assert len(SYMBOLS) == 118


def _literal_int_dict(e: ast.AST) -> Optional[Dict[int, object]]:
    if not isinstance(e, ast.Dict):
        return None
    out = {}
    for k, v in zip(e.keys, e.values):
        if not (isinstance(k, ast.Constant) and isinstance(k.value, int)):
            return None
        out[k.value] = v.value if isinstance(v, ast.Constant) else None
    return out


def _mentions_atom(e: ast.AST, atom: str) -> bool:
    return any(isinstance(n, ast.Name) and n.id == atom for n in ast.walk(e))


def _resolve_expr(func: Func, e: ast.AST, depth: int = 0) -> ast.AST:
    """Follow single-assignment locals."""
    while isinstance(e, ast.Name) and depth < 5:
        asg = assignments_to(func, e.id)
        if len(asg) != 1 or asg[0][2] is not None:
            break
        e = asg[0][1]
        depth += 1
    return e


def _has_atom_loop(f: Func) -> bool:
    for n in own_nodes(f.node):
        if isinstance(n, ast.For) and isinstance(n.iter, ast.Call) and isinstance(n.iter.func, ast.Attribute) and n.iter.func.attr == "GetAtoms":
            if any(isinstance(x, (ast.AugAssign, ast.Assign)) for x in ast.walk(n)):
                return True
    return False


def locate_counting(ctx):
    """(function holding the per-atom counting loop, [(caller, call, callee)] hops from decompose)"""
    prog = ctx.prog
    root = prog.func(DECOMPOSE)
    if _has_atom_loop(root):
        return root, []
    seen = {root.qualname}
    frontier = [(root, [])]
    for _ in range(2):
        nxt = []
        for f, hops in frontier:
            for c in calls(f):
                tgt = ctx.res.resolve_callee(c, f)
                if tgt and tgt[0] == "func" and tgt[1] in prog.functions and tgt[1] not in seen:
                    g = prog.functions[tgt[1]]
                    seen.add(g.qualname)
                    h = hops + [(f, c, g)]
                    if _has_atom_loop(g):
                        return g, h
                    nxt.append((g, h))
        frontier = nxt
    raise AnalysisError("%s: no per-atom counting loop found in decompose or its callees (restructured)" % DECOMPOSE)


def piecewise_findings(ctx, rule_id: str) -> None:
    """The text that is parsed must be the whole side string handed to
    decompose: parsing dot-separated pieces one by one loses molecules that
    are only valid as a whole (ring closures across '.') and changes what an
    unparsable piece means."""
    g, hops = locate_counting(ctx)
    for caller, call, callee in hops:
        arg = call.args[0] if call.args else None
        whole = isinstance(arg, ast.Name) and arg.id in caller.params
        why = ""
        if isinstance(arg, ast.Name) and not whole:
            for loop, target, it in loop_binding(caller, arg.id):
                if isinstance(it, ast.Call) and isinstance(it.func, ast.Attribute) and it.func.attr in ("split", "rsplit"):
                    why = "each piece of %s is parsed on its own" % unparse(it)
        ctx.instance(rule_id, "%s hands %s to %s" % (caller.name, unparse(arg) if arg is not None else "?", callee.name), caller.loc(call), ok=whole)
        if not whole:
            ctx.finding(rule_id, "RSMIDecomposer.decompose:piecewise", caller.loc(call), "the composition is no longer computed from the whole side string (%s): a molecule written with a ring closure across '.' (C1.O1) is dropped piece by piece and counts as nothing" % (why or "argument %s" % (unparse(arg) if arg is not None else "?")))


def rule_e1(ctx, rule_id: str = "C07-E1") -> None:
    """Element labelling injective (also serves C01-R5)."""
    prog = ctx.prog
    f, _hops = locate_counting(ctx)
    ctx.rule(rule_id, "composition key of an atom is an injective function of its element over Z=1..118", 1)
    # the counting store: comp[<key>] += 1 inside a loop over atoms
    stores = []
    for n in own_nodes(f.node):
        if isinstance(n, ast.AugAssign) and isinstance(n.target, ast.Subscript) and isinstance(n.op, ast.Add):
            stores.append(n)
        elif isinstance(n, ast.Assign) and len(n.targets) == 1 and isinstance(n.targets[0], ast.Subscript):
            # comp[k] = comp.get(k, 0) + 1
            v = n.value
            if isinstance(v, ast.BinOp) and isinstance(v.op, ast.Add) and isinstance(v.right, ast.Constant) and v.right.value == 1:
                stores.append(n)
    # keep those whose key depends on the loop variable of an atom loop
    counted = []
    for s in stores:
        tgt = s.target if isinstance(s, ast.AugAssign) else s.targets[0]
        loop = None
        cur = getattr(s, "_parent", None)
        while cur is not None and cur is not f.node:
            if isinstance(cur, ast.For) and isinstance(cur.target, ast.Name):
                loop = cur
                break
            cur = getattr(cur, "_parent", None)
        if loop is None:
            continue
        it = loop.iter
        if not (isinstance(it, ast.Call) and isinstance(it.func, ast.Attribute) and it.func.attr == "GetAtoms"):
            continue
        counted.append((s, tgt, loop))
    ctx.require(counted, "%s: no per-atom counting store found (decompose was restructured)" % DECOMPOSE)
    for s, tgt, loop in counted:
        atom = loop.target.id
        key = _resolve_expr(f, tgt.slice)
        where = f.loc(s)
        if isinstance(key, ast.Constant) and isinstance(key.value, str):
            # a special case of the loop: constant key under `atomic number == n`
            ecfg = CFG(f.node)
            okc, why = False, "constant key %r is not guarded by a test of the atomic number" % key.value
            for c, pol in ecfg.guards(ecfg.node_of(s)):
                nc = normal_compare(c, pol)
                if nc and nc[1] == "==":
                    for a, b in ((nc[0], nc[2]), (nc[2], nc[0])):
                        a = _resolve_expr(f, a)
                        if isinstance(a, ast.Call) and isinstance(a.func, ast.Attribute) and a.func.attr == "GetAtomicNum" and isinstance(b, ast.Constant) and isinstance(b.value, int) and 1 <= b.value <= 118:
                            okc = SYMBOLS[b.value - 1] == key.value
                            why = "constant key %r under atomic number == %d (%s)" % (key.value, b.value, SYMBOLS[b.value - 1])
            ctx.instance(rule_id, "decompose: key=%r (%s)" % (key.value, why), where, verdict="ok" if okc else "wrong-symbol")
            if not okc:
                ctx.finding(rule_id, "RSMIDecomposer.decompose:element-key", where, "composition key %r: %s" % (key.value, why))
            continue
        verdict, detail = _injective(ctx, f, key, atom)
        ctx.instance(rule_id, "decompose: key=%s" % unparse(key)[:80], where, verdict=verdict, detail=detail)
        if verdict != "ok":
            ctx.finding(
                rule_id,
                "RSMIDecomposer.decompose:element-key",
                where,
                "composition key %s is not a total, injective function of the element: %s" % (unparse(key)[:70], detail),
            )


def _injective(ctx, f: Func, key: ast.AST, atom: str) -> Tuple[str, str]:
    # form A: atom.GetSymbol()
    if isinstance(key, ast.Call) and isinstance(key.func, ast.Attribute) and key.func.attr == "GetSymbol" and _mentions_atom(key.func.value, atom):
        return "ok", "symbol taken from the atom itself"
    table_expr, fallback, mode = None, None, None
    if isinstance(key, ast.Call) and isinstance(key.func, ast.Attribute) and key.func.attr == "get" and key.args:
        idx = _resolve_expr(f, key.args[0])
        if isinstance(idx, ast.Call) and isinstance(idx.func, ast.Attribute) and idx.func.attr == "GetAtomicNum":
            table_expr = key.func.value
            fallback = key.args[1] if len(key.args) > 1 else ast.Constant(value=None)
            mode = "get"
    elif isinstance(key, ast.Subscript):
        idx = _resolve_expr(f, key.slice)
        if isinstance(idx, ast.Call) and isinstance(idx.func, ast.Attribute) and idx.func.attr == "GetAtomicNum":
            table_expr = key.value
            mode = "index"
    if table_expr is None:
        return "unknown-form", "key expression is neither atom.GetSymbol() nor a table lookup by atomic number"
    # locate the literal table
    lit = None
    table_expr = _resolve_expr(f, table_expr)
    d = dotted(table_expr)
    if d:
        parts = d.split(".")
        cls = f.cls
        if len(parts) == 2 and cls is not None and parts[1] in cls.class_attrs:
            lit = _literal_int_dict(cls.class_attrs[parts[1]])
        elif len(parts) == 1 and parts[0] in f.module.assigns:
            lit = _literal_int_dict(f.module.assigns[parts[0]])
        elif len(parts) == 2:
            r = ctx.prog.resolve_dotted(f.module, parts[0])
            if r in ctx.prog.classes and parts[1] in ctx.prog.classes[r].class_attrs:
                lit = _literal_int_dict(ctx.prog.classes[r].class_attrs[parts[1]])
    if lit is None:
        return "unknown-form", "element table %s is not a literal {int: str} display" % unparse(table_expr)
    covered = {z for z in lit if 1 <= z <= 118}
    vals: Dict[object, List[int]] = {}
    for z in covered:
        vals.setdefault(lit[z], []).append(z)
    dup = {v: zs for v, zs in vals.items() if len(zs) > 1}
    if dup:
        return "collision", "table maps several atomic numbers to one key: %s" % dup
    wrong = [z for z in covered if lit[z] != SYMBOLS[z - 1]]
    missing = sorted(set(range(1, 119)) - covered)
    if mode == "index":
        if wrong:
            return "wrong-symbol", "table entries differ from the element symbols: %s" % wrong[:5]
        if missing:
            return (
                "partial-table",
                "the table is indexed directly and lacks Z=%d..%d (%d elements, e.g. %s): such an atom raises KeyError and the whole batch is lost"
                % (missing[0], missing[-1], len(missing), SYMBOLS[missing[-1] - 1]),
            )
        return "ok", "table indexed directly; all %d elements covered" % len(covered)
    # .get with fallback
    if not missing:
        if wrong:
            return "wrong-symbol", "table entries differ from the element symbols: %s" % wrong[:5]
        return "ok", "table covers Z=1..118 with pairwise distinct values"
    if isinstance(fallback, ast.Constant):
        return (
            "constant-fallback",
            "Z=%d..%d (%d elements, e.g. %s and %s) all fall back to the constant %r"
            % (missing[0], missing[-1], len(missing), SYMBOLS[missing[0] - 1], SYMBOLS[missing[-1] - 1], fallback.value),
        )
    fb = fallback
    if isinstance(fb, ast.Call) and isinstance(fb.func, ast.Attribute) and fb.func.attr == "GetSymbol" and _mentions_atom(fb, atom):
        if wrong:
            return "wrong-symbol", "fallback is the true symbol but table entries %s differ from the true symbols (possible collision)" % wrong[:5]
        return "ok", "table (true symbols for %d elements) with fallback atom.GetSymbol()" % len(covered)
    if _mentions_atom(fb, atom):
        return "unknown-form", "fallback %s depends on the atom but its injectivity is not recognised" % unparse(fb)
    return "constant-fallback", "fallback %s does not depend on the atom" % unparse(fb)


def rule_e2(ctx, rule_id: str = "C07-E2") -> None:
    f, _hops = locate_counting(ctx)
    ctx.rule(rule_id, "atoms counted are GetAtoms() of AddHs(MolFromSmiles(<whole side string>))", 1)
    piecewise_findings(ctx, rule_id)
    n_loops = 0
    for n in own_nodes(f.node):
        if isinstance(n, ast.For) and isinstance(n.iter, ast.Call) and isinstance(n.iter.func, ast.Attribute) and n.iter.func.attr == "GetAtoms":
            # does this loop count?
            counts = any(isinstance(x, (ast.AugAssign, ast.Assign)) and any(isinstance(t, ast.Subscript) for t in ([x.target] if isinstance(x, ast.AugAssign) else x.targets)) for x in ast.walk(n))
            if not counts:
                continue
            n_loops += 1
            recv = _resolve_expr(f, n.iter.func.value)
            ok, why = False, ""
            if isinstance(recv, ast.Call) and (dotted(recv.func) or "").split(".")[-1] == "AddHs" and recv.args:
                inner = _resolve_expr(f, recv.args[0])
                if isinstance(inner, ast.Call) and (dotted(inner.func) or "").split(".")[-1] == "MolFromSmiles" and inner.args:
                    src = inner.args[0]
                    if isinstance(src, ast.Name) and src.id in f.params:
                        ok = True
                    else:
                        why = "the parsed text %s is not the function's parameter" % unparse(src)
                else:
                    why = "AddHs is not applied to MolFromSmiles(...) but to %s" % unparse(inner)[:60]
            else:
                why = "atoms are taken from %s, which is not the result of AddHs(...)" % unparse(recv)[:60]
            ctx.instance(rule_id, "decompose: atom loop over %s" % unparse(n.iter)[:60], f.loc(n), ok=ok)
            if not ok:
                ctx.finding(rule_id, "RSMIDecomposer.decompose:atom-loop", f.loc(n), "hydrogens may be left out of the composition: " + why)
    ctx.require(n_loops >= 1, "decompose has no counting loop over GetAtoms()")


def rule_e3(ctx, rule_id: str = "C07-E3") -> str:
    f, _hops = locate_counting(ctx)
    ctx.rule(rule_id, "net charge = GetFormalCharge(molecule) stored under the charge key used by all consumers", 2)
    key = None
    for n in own_nodes(f.node):
        if isinstance(n, ast.Assign) and len(n.targets) == 1 and isinstance(n.targets[0], ast.Subscript):
            v = _resolve_expr(f, n.value)
            if isinstance(v, ast.Call) and (dotted(v.func) or "").split(".")[-1] == "GetFormalCharge":
                k = const_str(n.targets[0].slice)
                arg = _resolve_expr(f, v.args[0]) if v.args else None
                ok = False
                # argument must derive from the parsed molecule
                a = arg
                if isinstance(a, ast.Call) and (dotted(a.func) or "").split(".")[-1] == "AddHs" and a.args:
                    a = _resolve_expr(f, a.args[0])
                if isinstance(a, ast.Call) and (dotted(a.func) or "").split(".")[-1] == "MolFromSmiles":
                    ok = True
                ctx.instance(rule_id, "decompose: %s" % unparse(n)[:70], f.loc(n), ok=ok, key=k)
                if not ok:
                    ctx.finding(rule_id, "RSMIDecomposer.decompose:charge-source", f.loc(n), "formal charge is not read from the parsed molecule")
                key = k
    if key is None:
        # restructured code: accept a charge that is computed by GetFormalCharge in the
        # counting function and stored under a constant key in decompose itself
        root = ctx.prog.func(DECOMPOSE)
        for loop in [n for n in own_nodes(f.node) if isinstance(n, ast.For) and isinstance(n.iter, ast.Call) and isinstance(n.iter.func, ast.Attribute) and n.iter.func.attr == "GetAtoms" and isinstance(n.target, ast.Name)]:
            for a in [x for x in ast.walk(loop) if isinstance(x, ast.AugAssign) and isinstance(x.op, ast.Add) and isinstance(x.value, ast.Call) and isinstance(x.value.func, ast.Attribute) and x.value.func.attr == "GetFormalCharge" and isinstance(x.value.func.value, ast.Name) and x.value.func.value.id == loop.target.id]:
                direct = a in loop.body
                skipped = [x for st_ in loop.body for x in ast.walk(st_) if isinstance(x, (ast.Continue, ast.Break)) and x.lineno < a.lineno]
                okl = direct and not skipped
                ctx.instance(rule_id, "per-atom charge accumulation %s covers every atom of the loop (top level of the body: %s, continue/break before it: %d)" % (unparse(a), direct, len(skipped)), f.loc(a), ok=okl)
                if not okl:
                    ctx.finding(rule_id, "RSMIDecomposer.decompose:charge-accumulation-partial", f.loc(a), "the formal charge is summed atom by atom, but not for every atom (%s): the charge of the skipped atoms (e.g. [H+]) is lost" % ("a continue/break at line %d comes first" % skipped[0].lineno if skipped else "the statement is conditional"))
        has_call = any(isinstance(n, ast.Call) and (dotted(n.func) or "").split(".")[-1] == "GetFormalCharge" for g in (f, root) for n in own_nodes(g.node))
        stores = [const_str(n.targets[0].slice) for n in own_nodes(root.node) if isinstance(n, ast.Assign) and len(n.targets) == 1 and isinstance(n.targets[0], ast.Subscript) and const_str(n.targets[0].slice) and "charge" in unparse(n.value).lower()]
        if has_call and stores:
            key = stores[0]
            ctx.instance(rule_id, "decompose stores the accumulated charge under %r (GetFormalCharge in %s)" % (key, f.name), root.loc(), ok=True)
        else:
            ctx.instance(rule_id, "decompose: charge store", f.loc(), ok=False)
            ctx.finding(rule_id, "RSMIDecomposer.decompose:charge-store", f.loc(), "no store of GetFormalCharge(...) under a constant key found")
            key = "Q"
    consumers = [
        "synrbl.SynProcessor.rsmi_both_side_process.BothSideReact.__init__",
        "synrbl.SynProcessor.rsmi_both_side_process.BothSideReact.reverse_values_if_negative_except_Q",
        "synrbl.SynRuleImputer.synthetic_rule_matcher.SyntheticRuleMatcher.__init__",
        "synrbl.SynRuleImputer.synthetic_rule_matcher.SyntheticRuleMatcher.apply_rule",
        "synrbl.SynRuleImputer.synthetic_rule_matcher.SyntheticRuleMatcher.can_match",
        "synrbl.SynRuleImputer.synthetic_rule_matcher.SyntheticRuleMatcher.exit_strategy_solution",
        "synrbl.SynRuleImputer.rule_data_manager.RuleImputeManager.add_entry",
    ]
    for q in consumers:
        g = ctx.prog.func(q)
        lits = {n.value for n in own_nodes(g.node) if isinstance(n, ast.Constant) and isinstance(n.value, str) and len(n.value) <= 3}
        ok = key in lits
        ctx.instance(rule_id, "consumer %s uses charge key %r" % (q.split(".", 2)[-1], key), g.loc(), ok=ok)
        if not ok:
            ctx.finding(rule_id, "%s:charge-key" % q.split("synrbl.", 1)[-1], g.loc(), "consumer never mentions the charge key %r that decompose writes (short literals seen: %s)" % (key, sorted(lits)))
    return key


# --------------------------------------------------------------------- E4


def _returned_strings(func: Func, tuple_index: Optional[int] = None) -> Set[str]:
    out = set()
    for n in own_nodes(func.node):
        if isinstance(n, ast.Return) and n.value is not None:
            v = n.value
            if tuple_index is not None and isinstance(v, ast.Tuple) and tuple_index < len(v.elts):
                v = v.elts[tuple_index]
            s = const_str(v)
            if s is not None:
                out.add(s)
    return out


def _possible_strings(f: Func, e: ast.AST, depth: int = 0) -> Set[str]:
    """string constants an expression may denote: a literal, a conditional expression of literals, or a local that is
    only ever bound to such expressions"""
    s_ = const_str(e)
    if s_ is not None:
        return {s_}
    if isinstance(e, ast.IfExp):
        return _possible_strings(f, e.body, depth) | _possible_strings(f, e.orelse, depth)
    if isinstance(e, ast.Name) and depth < 3:
        out: Set[str] = set()
        asg = assignments_to(f, e.id)
        for _st, v, idx in asg:
            got = _possible_strings(f, v, depth + 1) if idx is None else set()
            if not got:
                return set()
            out |= got
        return out
    return set()


def produced_labels(ctx) -> Tuple[Set[str], Set[str], Dict[str, str]]:
    """(unbalance labels, carbon labels, where)"""
    prog = ctx.prog
    where = {}
    A = set()
    cmpf = prog.func(COMPARE)
    for s in _returned_strings(cmpf):
        A.add(s)
        where[s] = COMPARE
    rev = prog.func(BOTHSIDE_REV)
    for s in _returned_strings(rev, 1):
        A.add(s)
        where.setdefault(s, BOTHSIDE_REV)
    rb = prog.func(RB_RUN)
    for n in own_nodes(rb.node):
        if isinstance(n, ast.Assign) and len(n.targets) == 1 and isinstance(n.targets[0], ast.Subscript):
            t = n.targets[0]
            if isinstance(t.value, ast.Name) and t.value.id in _label_lists(ctx, rb) and const_str(n.value) is not None:
                A.add(const_str(n.value))
                where.setdefault(const_str(n.value), RB_RUN)
    B = set()
    cp = prog.func(CARBON_PROC)
    carbon_key = None
    for n in own_nodes(cp.node):
        if isinstance(n, ast.Assign) and len(n.targets) == 1 and isinstance(n.targets[0], ast.Subscript):
            k = _key_text(ctx, cp, n.targets[0].slice)
            if k is None:
                continue
            for v in _possible_strings(cp, n.value):
                B.add(v)
                carbon_key = k
                where.setdefault(v, CARBON_PROC)
    ctx.require(carbon_key is not None, "process_reaction no longer stores a constant carbon label")
    ctx._carbon_key = carbon_key
    return A, B, where


def _key_text(ctx, f: Func, e: ast.AST) -> Optional[str]:
    """the string a key expression denotes: a literal, a folded constant, a parameter's default, or the attribute of the
    carbon checker that its constructor fills from a parameter with a default"""
    from ..constfold import Folder, Unfoldable, fold_in

    k = const_str(e)
    if k is not None:
        return k
    try:
        v = fold_in(f, e, ctx.prog)
        if isinstance(v, str):
            return v
    except Unfoldable:
        pass

    def default_of(g: Func, pname: str) -> Optional[str]:
        d = g.param_defaults().get(pname)
        if d is None:
            return None
        try:
            fo = Folder(g.module, None)
            fo.prog = ctx.prog
            v = fo.fold(d)
            return v if isinstance(v, str) else None
        except Unfoldable:
            return None

    if isinstance(e, ast.Name) and e.id in f.params + f.kwonly and not assignments_to(f, e.id):
        return default_of(f, e.id)
    if isinstance(e, ast.Attribute):
        cls = ctx.prog.classes.get("synrbl.SynProcessor.check_carbon_balance.CheckCarbonBalance")
        init = ctx.prog.lookup_method(cls, "__init__") if cls else None
        if init is not None:
            for n in own_nodes(init.node):
                if isinstance(n, ast.Assign) and len(n.targets) == 1 and isinstance(n.targets[0], ast.Attribute) and n.targets[0].attr == e.attr and isinstance(n.value, ast.Name) and n.value.id in init.params:
                    return default_of(init, n.value.id)
    return None


def _label_lists(ctx, f: Func) -> Set[str]:
    """Local names of ``f`` bound to a list of unbalance labels."""
    out = set()
    for n in own_nodes(f.node):
        if isinstance(n, ast.Assign) and isinstance(n.value, ast.Call):
            tgt = ctx.res.resolve_callee(n.value, f)
            if not tgt or tgt[0] != "func":
                continue
            idx = None
            if tgt[1] == RUN_PARALLEL:
                idx = 0
            elif tgt[1] == BOTHSIDE_FIT:
                idx = 1
            if idx is None:
                continue
            for t in n.targets:
                if isinstance(t, (ast.Tuple, ast.List)) and idx < len(t.elts) and isinstance(t.elts[idx], ast.Name):
                    out.add(t.elts[idx].id)
    return out


UNBALANCE_KEYS = {"Unbalance"}
CARBON_KEYS = {"carbon_balance_check"}


def _family_of(ctx, f: Func, env: Env, e: ast.AST, unb_keys: Set[str], carbon_keys: Set[str], depth: int = 0) -> Optional[str]:
    if depth > 4:
        return None
    key = None
    if isinstance(e, ast.Subscript) and not isinstance(e.slice, ast.Slice):
        if isinstance(e.value, ast.Name) and e.value.id in _label_lists(ctx, f):
            return "A"
        if isinstance(e.value, ast.Attribute) and e.value.attr == "unbalance":
            return "A"
        key = texts(ctx.ev.eval(e.slice, env))
    elif isinstance(e, ast.Call) and isinstance(e.func, ast.Attribute) and e.func.attr == "get" and e.args:
        key = texts(ctx.ev.eval(e.args[0], env))
    if key:
        if key & unb_keys:
            return "A"
        if key & carbon_keys:
            return "B"
        return None
    if isinstance(e, ast.Name):
        zp = zip_partner(f, e.id)
        if zp is not None:
            _, i, args = zp
            a = args[i]
            if isinstance(a, ast.Name) and a.id in _label_lists(ctx, f):
                return "A"
        for loop, target, it in loop_binding(f, e.id):
            if isinstance(it, ast.Call) and isinstance(it.func, ast.Name) and it.func.id == "enumerate" and it.args:
                a = it.args[0]
                if isinstance(a, ast.Attribute) and a.attr == "unbalance":
                    return "A"
                if isinstance(a, ast.Name) and a.id in _label_lists(ctx, f):
                    return "A"
        for _, v, idx in assignments_to(f, e.id):
            if idx is None:
                fam = _family_of(ctx, f, env, v, unb_keys, carbon_keys, depth + 1)
                if fam:
                    return fam
    return None


def _str_consts(e: ast.AST, f: Optional[Func] = None) -> Optional[List[str]]:
    """the string literals of ``e`` (a literal, a display of literals or - given the enclosing function - an
    expression that folds to one at import time, e.g. ``list(ONE_SIDED)`` with a module-level tuple)"""
    s = const_str(e)
    if s is not None:
        return [s]
    if isinstance(e, (ast.List, ast.Tuple, ast.Set)) and e.elts and all(const_str(x) is not None for x in e.elts):
        return [const_str(x) for x in e.elts]
    if f is not None and not isinstance(e, ast.Constant):
        from ..constfold import Unfoldable, fold_in

        try:
            v = fold_in(f, e)
        except Unfoldable:
            return None
        if isinstance(v, str):
            return [v]
        if isinstance(v, (list, tuple, set, frozenset)) and v and all(isinstance(x, str) for x in v):
            return sorted(v) if isinstance(v, (set, frozenset)) else list(v)
    return None


def rule_e4(ctx) -> None:
    prog = ctx.prog
    ctx.rule("C07-E4", "every label literal a consumer compares with is produced by a producer; hard-coded row keys agree", 10)
    A, B, where = produced_labels(ctx)
    ctx.require(len(A) >= 4 and len(B) >= 3, "label producers changed shape: unbalance=%s carbon=%s" % (sorted(A), sorted(B)))
    ctx.note("produced unbalance labels %s; carbon labels %s" % (sorted(A), sorted(B)))
    bal = ctx.balancer
    unb_keys = set(UNBALANCE_KEYS) | texts(bal.get("__unbalance_col"))
    carbon_keys = {ctx._carbon_key} | texts(bal.get("__carbon_balance_col"))
    reach = ctx.pipeline_reachable()
    cmap = ContextMap(ctx)
    inst_cache = {}
    n = 0
    for q in sorted(reach):
        f = prog.functions.get(q)
        if f is None or not q.startswith("synrbl."):
            continue
        root = f
        while root.parent is not None:
            root = root.parent
        inst = None
        if root.cls is not None:
            # prefer the Balancer's stage instance of that class
            for i in bal.attr_inst.values():
                if i.cls is root.cls:
                    inst = i
                    break
            if inst is None:
                if root.cls.qualname not in inst_cache:
                    inst_cache[root.cls.qualname] = ctx.ev.instantiate(root.cls, None, None)
                inst = inst_cache[root.cls.qualname]
            if root.cls.qualname == "synrbl.balancing.Balancer":
                inst = bal
        env = Env(func=f, params={}, inst=inst)
        denv = Env(func=f)
        for name, d in f.param_defaults().items():
            env.params[name] = ctx.ev.eval(d, denv)
        ctxs = cmap.get(q)
        if ctxs:
            # join of the contexts reached from the entry point
            env = Env(func=f, params={}, inst=ctxs[0].inst or inst)
            for c in ctxs:
                for k, v in c.params.items():
                    env.params[k] = env.params.get(k, frozenset()) | v
        for node in own_nodes(f.node):
            if isinstance(node, ast.Compare) and len(node.ops) == 1:
                l, r = node.left, node.comparators[0]
                for a, b in ((l, r), (r, l)):
                    lits = _str_consts(b, f)
                    if lits is None:
                        continue
                    fam = _family_of(ctx, f, env, a, unb_keys, carbon_keys)
                    if fam is None:
                        continue
                    n += 1
                    produced = A if fam == "A" else B
                    bad = [x for x in lits if x not in produced]
                    ctx.instance("C07-E4", "%s: %s" % (q.split("synrbl.", 1)[-1], unparse(node)[:70]), f.loc(node), family=fam, ok=not bad)
                    for x in bad:
                        ctx.finding(
                            "C07-E4",
                            "%s:label:%s" % (q.split("synrbl.", 1)[-1], x),
                            f.loc(node),
                            "compares a %s label with %r, which no producer emits (produced: %s)" % ("side-comparison" if fam == "A" else "carbon-balance", x, sorted(produced)),
                        )
            elif isinstance(node, ast.Call):
                # filter_data(..., unbalance_values=[...])
                for k in node.keywords:
                    if k.arg == "unbalance_values":
                        lits = _str_consts(k.value, f)
                        if lits is None:
                            continue
                        n += 1
                        bad = [x for x in lits if x not in A]
                        ctx.instance("C07-E4", "%s: unbalance_values=%s" % (q.split("synrbl.", 1)[-1], lits), f.loc(node), family="A", ok=not bad)
                        for x in bad:
                            ctx.finding("C07-E4", "%s:label:%s" % (q.split("synrbl.", 1)[-1], x), f.loc(node), "filters on the side-comparison label %r, which no producer emits (produced: %s)" % (x, sorted(A)))
    # hard-coded key agreement: carbon label key
    prod_key = ctx._carbon_key
    for attr, inst in sorted(bal.attr_inst.items()):
        v = inst.attrs.get("carbon_balance_col")
        if v is not None:
            n += 1
            ok = texts(v) == {prod_key}
            ctx.instance("C07-E4", "Balancer.%s.carbon_balance_col = %s" % (attr, sorted(map(str, texts(v)))), "", ok=ok)
            if not ok:
                ctx.finding("C07-E4", "Balancer.%s:carbon-key" % attr, "synrbl/balancing.py:1", "stage reads the carbon label under %s but CheckCarbonBalance writes it under %r" % (sorted(map(str, texts(v))), prod_key))
    # Validator copies r[<key>] from the checker's result: key must be the producer's
    vf = prog.func("synrbl.postprocess.Validator.check")
    for node in own_nodes(vf.node):
        if isinstance(node, ast.Assign) and isinstance(node.value, ast.Subscript):
            k = _key_text(ctx, vf, node.value.slice)
            if k is not None and isinstance(node.value.value, ast.Name):
                lb = loop_binding(vf, node.value.value.id)
                if any("check_carbon_balance" in unparse(it) for _, _, it in lb):
                    n += 1
                    ok = k == prod_key
                    ctx.instance("C07-E4", "Validator.check reads checker result key %r" % k, vf.loc(node), ok=ok)
                    if not ok:
                        ctx.finding("C07-E4", "postprocess.Validator.check:carbon-key", vf.loc(node), "reads %r from the carbon checker's result, which stores %r" % (k, prod_key))


SIGNED_VECTOR_FUNCS = [
    DECOMPOSE,
    "synrbl.SynProcessor.rsmi_comparator.RSMIComparator.diff_dicts",
    COMPARE,
    "synrbl.SynProcessor.rsmi_both_side_process.BothSideReact.enforce_product_side",
    BOTHSIDE_REV,
    "synrbl.SynRuleImputer.synthetic_rule_matcher.SyntheticRuleMatcher.__init__",
    "synrbl.SynRuleImputer.synthetic_rule_matcher.SyntheticRuleMatcher.apply_rule",
]


def counter_arithmetic(ctx, rule_id: str, quals) -> None:
    """Composition vectors are signed (net charge Q, both-side differences).
    collections.Counter arithmetic (+c, -c, a + b, a - b, a | b, a & b) and
    .elements()/.subtract-then-plus idioms silently drop non-positive counts."""
    prog = ctx.prog
    seen = set()
    work = []
    for q in quals:
        f = prog.func(q)
        work.append(f)
        for c in calls(f):
            tgt = ctx.res.resolve_callee(c, f)
            if tgt and tgt[0] == "func" and tgt[1] in prog.functions:
                work.append(prog.functions[tgt[1]])
    for f in work:
        if f.qualname in seen:
            continue
        seen.add(f.qualname)
        counters = set()
        for n in own_nodes(f.node):
            if isinstance(n, ast.Assign) and isinstance(n.value, ast.Call) and (dotted(n.value.func) or "").split(".")[-1] == "Counter":
                for t in n.targets:
                    if isinstance(t, ast.Name):
                        counters.add(t.id)

        def is_counter(e):
            if isinstance(e, ast.Name) and e.id in counters:
                return True
            return isinstance(e, ast.Call) and (dotted(e.func) or "").split(".")[-1] == "Counter"

        bad = None
        for n in own_nodes(f.node):
            if isinstance(n, ast.UnaryOp) and isinstance(n.op, (ast.UAdd, ast.USub)) and is_counter(n.operand):
                bad = n
            if isinstance(n, ast.BinOp) and isinstance(n.op, (ast.Add, ast.Sub, ast.BitOr, ast.BitAnd)) and (is_counter(n.left) or is_counter(n.right)):
                bad = n
            if isinstance(n, ast.AugAssign) and isinstance(n.op, (ast.Add, ast.Sub, ast.BitOr, ast.BitAnd)) and is_counter(n.target):
                bad = n
            if isinstance(n, ast.Call) and isinstance(n.func, ast.Attribute) and n.func.attr in ("elements", "most_common") and is_counter(n.func.value):
                bad = n
        ctx.instance(rule_id, "%s: no Counter arithmetic on a signed composition vector" % f.qualname.split("synrbl.", 1)[-1], f.loc(), ok=bad is None, nontrivial=bool(counters) or bad is not None)
        if bad is not None:
            ctx.finding(rule_id, "%s:counter-arithmetic" % f.qualname.split("synrbl.", 1)[-1], f.loc(bad), "`%s` uses collections.Counter arithmetic, which drops every non-positive entry: a negative net charge (or a negative difference) silently disappears from the composition vector" % unparse(bad)[:50])


def rule_e5(ctx) -> None:
    ctx.rule("C07-E5", "signed composition vectors never pass through Counter arithmetic", 5)
    counter_arithmetic(ctx, "C07-E5", SIGNED_VECTOR_FUNCS)


def _sum_over_components(ctx, f: Func, e: ast.AST, depth: int = 0):
    """(ok, why) - e is sum(<count>(x) for x in <side>.split('.')) possibly through a helper"""
    if isinstance(e, ast.Name):
        a = assignments_to(f, e.id)
        if len(a) == 1 and a[0][2] is None:
            return _sum_over_components(ctx, f, a[0][1], depth)
        return False, "%s has several definitions" % e.id
    if not (isinstance(e, ast.Call) and isinstance(e.func, ast.Name) and e.func.id == "sum" and e.args):
        return False, "not a sum(...)"
    arg = e.args[0]
    if isinstance(arg, (ast.GeneratorExp, ast.ListComp)):
        g = arg.generators[0]
        if g.ifs:
            return False, "components are filtered before summing"
        it = g.iter
        if isinstance(it, ast.Call) and isinstance(it.func, ast.Attribute) and it.func.attr == "split" and it.args and const_str(it.args[0]) == ".":
            return True, "sum over every component of split('.')"
        return False, "summed collection %s is not the list of components" % unparse(it)[:40]
    # sum(helper(side).values()) / sum(set(...)) ...
    txt = unparse(arg)
    if ".values()" in txt or "set(" in txt or isinstance(arg, (ast.DictComp, ast.SetComp)):
        return False, "sum over %s: a mapping/set keyed by the molecule collapses molecules that occur several times" % txt[:50]
    if isinstance(arg, ast.Call) and depth < 2:
        tgt = ctx.res.resolve_callee(arg, f)
        if tgt and tgt[0] == "func" and tgt[1] in ctx.prog.functions:
            g = ctx.prog.functions[tgt[1]]
            rets = [n for n in own_nodes(g.node) if isinstance(n, ast.Return) and n.value is not None]
            for r in rets:
                v = r.value
                if isinstance(v, (ast.DictComp, ast.SetComp, ast.Dict, ast.Set)) or (isinstance(v, ast.Call) and unparse(v.func) in ("set", "dict", "frozenset")):
                    return False, "%s returns a mapping/set of the components (repeated molecules collapse)" % g.name
                if isinstance(v, (ast.ListComp, ast.GeneratorExp)):
                    gg = v.generators[0]
                    if not gg.ifs and isinstance(gg.iter, ast.Call) and isinstance(gg.iter.func, ast.Attribute) and gg.iter.func.attr == "split":
                        return True, "sum over the list %s builds from every component" % g.name
            return False, "cannot see a per-component list in %s" % g.name
    return False, "unrecognised summand %s" % txt[:40]


def rule_e6(ctx, rule_id: str = "C07-E6") -> None:
    ctx.rule(rule_id, "the carbon label compares sums over every component (with multiplicity) of the two sides", 2)
    f = ctx.prog.func(CARBON_PROC)
    # the two quantities compared for the label
    cmp_names = None
    for n in own_nodes(f.node):
        if isinstance(n, (ast.If, ast.IfExp)) and isinstance(n.test, ast.Compare) and isinstance(n.test.ops[0], ast.Eq) and isinstance(n.test.left, ast.Name) and isinstance(n.test.comparators[0], ast.Name):
            a, b = n.test.left.id, n.test.comparators[0].id
            if all(any("sum(" in unparse(v) for _, v, _i in assignments_to(f, x)) for x in (a, b)) and cmp_names is None:
                cmp_names = (a, b)
    ctx.require(cmp_names is not None, "process_reaction no longer compares two carbon totals for the 'balanced' label")
    for nm in cmp_names:
        ok, why = _sum_over_components(ctx, f, ast.Name(id=nm, ctx=ast.Load()))
        ctx.instance(rule_id, "process_reaction: %s = %s" % (nm, why), f.loc(), ok=ok)
        if not ok:
            ctx.finding(rule_id, "CheckCarbonBalance.process_reaction:carbon-total:%s" % nm, f.loc(), "the carbon total %s is not a sum over every dot-separated component: %s" % (nm, why))


def rule_e12(ctx, rule_id: str = "C07-E12") -> None:
    """The carbon label counts fragment by fragment, and an unparsable fragment counts as zero (count_atoms, pinned by a
    unit test).  The pieces of a side are molecules on their own only if no ring closure spans a dot: `C1.O1` is methanol,
    its pieces `C1` and `O1` do not parse.  The side has to be brought into a form with self-contained fragments - parsed
    as a whole - before it is split."""
    ctx.rule(rule_id, "a side is parsed as a whole before its dot-separated fragments are counted one by one", 2)
    prog = ctx.prog
    f = prog.func(CARBON_PROC)
    splits = []
    for it in own_nodes(f.node):
        if isinstance(it, ast.Call) and isinstance(it.func, ast.Attribute) and it.func.attr == "split" and it.args and const_str(it.args[0]) == "." and isinstance(it.func.value, ast.Name):
            splits.append((it, it.func.value.id))
    ctx.require(splits, "process_reaction no longer splits the sides at '.'")

    def whole_parse(call) -> bool:
        """call(<x>) parses <x> as one SMILES: MolFromSmiles itself, or a package function that hands its parameter to it"""
        if unparse(call.func).split(".")[-1] == "MolFromSmiles":
            return True
        tgt = ctx.res.resolve_callee(call, f)
        g = prog.functions.get(tgt[1]) if tgt and tgt[0] == "func" else None
        if g is None:
            return False
        return any(isinstance(c, ast.Call) and unparse(c.func).split(".")[-1] == "MolFromSmiles" and c.args and isinstance(c.args[0], ast.Name) and c.args[0].id in g.params for c in own_nodes(g.node))

    for node, name in splits:
        ok = False
        for _st, v, _i in assignments_to(f, name):
            if any(isinstance(c, ast.Call) and whole_parse(c) and any(isinstance(x, ast.Name) and x.id == name for a in c.args for x in ast.walk(a)) for c in ast.walk(v)):
                ok = True
        ctx.instance(rule_id, "process_reaction: %s is parsed as a whole before %s.split('.'): %s" % (name, name, ok), f.loc(node), ok=ok)
        if not ok:
            ctx.finding(rule_id, "CheckCarbonBalance.process_reaction:fragments-not-self-contained:%s" % name, f.loc(node), "the fragments of %s are counted one by one although the side was never parsed as a whole: with a ring closure across a dot (C1.O1) the fragments do not parse, count as zero, and a reaction whose products hold more carbon is labelled balanced" % name)


def rule_e13(ctx, rule_id: str = "C07-E13") -> None:
    """The per-fragment count behind the carbon label counts atoms *of the element*: every atom of the parsed molecule,
    tested by element symbol or atomic number.  A count through a substructure query is element-exact only for an
    atomic-number primitive ([#6]); a bare symbol used as SMARTS matches aliphatic (or aromatic) atoms only."""
    ctx.rule(rule_id, "the fragment count is over every atom of the parsed molecule, tested by element (symbol or atomic number)", 1)
    prog = ctx.prog
    cnt = prog.func("synrbl.SynProcessor.check_carbon_balance.CheckCarbonBalance.count_atoms")
    type_params = [p for p in cnt.params if "type" in p or "symbol" in p or "element" in p]
    ctx.require(type_params, "count_atoms lost its atom type parameter")
    tp = type_params[0]
    # the functions the count is computed in: count_atoms and the package functions it hands the atom type to
    funcs = [(cnt, tp)]
    for c in [x for x in own_nodes(cnt.node) if isinstance(x, ast.Call)]:
        tgt = ctx.res.resolve_callee(c, cnt)
        g = prog.functions.get(tgt[1]) if tgt and tgt[0] == "func" else None
        if g is None:
            continue
        params = list(g.params)
        for i, a in enumerate(c.args):
            if isinstance(a, ast.Name) and a.id == tp and i < len(params):
                funcs.append((g, params[i]))
        for k in c.keywords:
            if isinstance(k.value, ast.Name) and k.value.id == tp and k.arg in params:
                funcs.append((g, k.arg))
    by_element = False
    smarts = []
    for g, pname in funcs:
        for n in own_nodes(g.node):
            if isinstance(n, ast.Compare) and len(n.ops) == 1 and isinstance(n.ops[0], ast.Eq):
                sides = [n.left, n.comparators[0]]
                texts_ = [unparse(x) for x in sides]
                if any(t.endswith(".GetSymbol()") or t.endswith(".GetAtomicNum()") for t in texts_) and any(isinstance(x, ast.Name) and x.id == pname for x in sides):
                    # over GetAtoms() of the parsed molecule?
                    comp = n
                    while comp is not None and not isinstance(comp, (ast.GeneratorExp, ast.ListComp, ast.For)):
                        comp = getattr(comp, "_parent", None)
                    it = None
                    if isinstance(comp, ast.For):
                        it = comp.iter
                    elif comp is not None:
                        it = comp.generators[0].iter
                    if it is not None and unparse(it).endswith(".GetAtoms()"):
                        by_element = True
            if isinstance(n, ast.Call) and unparse(n.func).split(".")[-1] in ("MolFromSmarts", "GetSubstructMatches", "GetSubstructMatch", "HasSubstructMatch"):
                if unparse(n.func).split(".")[-1] == "MolFromSmarts":
                    a = n.args[0] if n.args else None
                    exact = a is not None and any(isinstance(x, ast.Constant) and isinstance(x.value, str) and "[#" in x.value for x in ast.walk(a))
                    smarts.append((g, n, exact))
    bad = [(g, n) for g, n, exact in smarts if not exact]
    ok = by_element and not bad or (not by_element and smarts and not bad)
    ctx.instance(rule_id, "count_atoms: per-atom element test over GetAtoms(): %s; substructure queries: %d (%d not by atomic number)" % (by_element, len(smarts), len(bad)), cnt.loc(), ok=bool(ok))
    if bad:
        g, n = bad[0]
        ctx.finding(rule_id, "CheckCarbonBalance.count_atoms:count-by-smarts-symbol", g.loc(n), "the atoms of the element are counted with a substructure query built from the bare symbol (%s): as SMARTS, 'C' matches aliphatic carbon only, so aromatic atoms are not counted and a balanced reaction that (de)aromatises a ring is labelled carbon-unbalanced" % unparse(n)[:60])
    elif not by_element and not smarts:
        raise AnalysisError("%s: the form in which count_atoms counts the atoms of the element is not modelled" % cnt.loc())


def rule_e14(ctx, rule_id: str = "C07-E14") -> None:
    """The comparator is handed the compositions the rows keep (`reactants` / `products` formula columns are the same
    dict objects when the comparison runs in-process): comparing must not change them.  Parameters of the comparator's
    functions - and plain aliases of them - are read only."""
    ctx.rule(rule_id, "the comparator's functions do not mutate the compositions they are given (aliases included)", 2)
    prog = ctx.prog
    cls = prog.cls("synrbl.SynProcessor.rsmi_comparator.RSMIComparator")
    MUT = {"pop", "popitem", "clear", "update", "setdefault", "__setitem__", "__delitem__", "subtract"}
    n = 0
    for name, f in sorted(cls.methods.items()):
        if name.startswith("__"):
            continue
        params = [p for p in f.params if p not in ("self", "cls")]
        alias = {p: p for p in params}
        for _ in range(4):
            for st in own_nodes(f.node):
                if isinstance(st, ast.Assign) and isinstance(st.value, ast.Name) and st.value.id in alias:
                    for t in st.targets:
                        if isinstance(t, ast.Name) and t.id not in alias:
                            alias[t.id] = alias[st.value.id]
        # names re-bound to a fresh object lose the alias (x = dict(x), x = x.copy())
        for nm in list(alias):
            if nm in params:
                continue
            defs = assignments_to(f, nm)
            if any(not (isinstance(v, ast.Name) and v.id in alias) for _s, v, _i in defs):
                alias.pop(nm)
        n += 1
        hits = []
        for x in own_nodes(f.node):
            tgt = None
            if isinstance(x, ast.Call) and isinstance(x.func, ast.Attribute) and isinstance(x.func.value, ast.Name) and x.func.value.id in alias and x.func.attr in MUT:
                tgt = x.func.value.id
            elif isinstance(x, (ast.Assign, ast.AugAssign, ast.Delete)):
                ts = x.targets if isinstance(x, (ast.Assign, ast.Delete)) else [x.target]
                for t in ts:
                    if isinstance(t, ast.Subscript) and isinstance(t.value, ast.Name) and t.value.id in alias:
                        tgt = t.value.id
            if tgt is not None:
                # a parameter re-bound to a copy before the edit is the function's own object
                if tgt in params and any(isinstance(v, ast.Call) for _s, v, _i in assignments_to(f, tgt)):
                    continue
                hits.append((x, tgt))
        ctx.instance(rule_id, "RSMIComparator.%s: parameters %s are only read" % (name, params), f.loc(), ok=not hits)
        for x, tgt in hits[:1]:
            ctx.finding(rule_id, "RSMIComparator.%s:mutates-argument:%s" % (name, alias[tgt]), f.loc(x), "%s changes the composition it was given (%s, through `%s`): run in-process (n_jobs=1) the dictionary is the one the row keeps as its formula, so the recorded composition of that side no longer matches the reaction" % (name, alias[tgt], unparse(x)[:50]))
    ctx.require(n >= 2, "RSMIComparator lost its comparison functions")


def rule_e15(ctx, rule_id: str = "C07-E15") -> None:
    """Reactant and product side are the two parts around the whole separator.  A single '>' is not a separator: it also
    occurs inside molecules (the dative bond `->`, e.g. `[NH3]->[Cu]`), so a split at a part of the separator cuts
    such a molecule in two and the sides handed to the decomposer are not the sides of the reaction."""
    from ..constfold import Folder, Unfoldable

    ctx.rule(rule_id, "reaction text is split at the whole separator, never at a part of it", 3)
    prog = ctx.prog
    n = 0
    for q, f in sorted(prog.functions.items()):
        if not q.startswith("synrbl."):
            continue
        denv = {}
        for pn, d in f.param_defaults().items():
            if isinstance(d, ast.Constant):
                denv[pn] = d.value
        for c in calls(f):
            if not (isinstance(c.func, ast.Attribute) and c.func.attr in ("split", "rsplit", "partition", "rpartition") and c.args):
                continue
            a = c.args[0]
            try:
                fo = Folder(f.module, f)
                fo.prog = prog
                v = fo.fold(a, dict(denv))
            except Unfoldable:
                continue
            except Exception:
                continue
            if not (isinstance(v, str) and ">" in v):
                continue
            n += 1
            ok = v == ">>"
            ctx.instance(rule_id, "%s: %s splits at %r" % (q.split("synrbl.", 1)[-1], unparse(c)[:50], v), f.loc(c), ok=ok)
            if not ok:
                ctx.finding(rule_id, "%s:split-at-partial-separator" % q.split("synrbl.", 1)[-1], f.loc(c), "%s splits the reaction at %r, which is only a part of the separator '>>': '>' also occurs inside a molecule (dative bond '->'), so such a reaction is cut inside a molecule and the compositions are taken from the wrong pieces" % (unparse(c)[:50], v))
    ctx.require(n >= 3, "fewer than 3 separator splits found in the package (%d)" % n)


def rule_e17(ctx, rule_id: str = "C07-E17") -> None:
    """Composition i belongs to side i.  Where the sides come as a column of a data frame (the decomposer and the
    comparator accept a frame as well as a list of records), `column[i]` looks up the row *labelled* i, not the i-th row:
    on a frame that was sorted, sampled or filtered without `reset_index` the compositions are reported for other rows.
    A name that may hold a frame column is iterated (or `.iloc` / `.tolist()` is used), never subscripted with a loop
    counter."""
    ctx.rule(rule_id, "a value that may be a data-frame column is not subscripted with a positional loop counter", 2)
    prog = ctx.prog
    n = 0
    for q, f in sorted(prog.functions.items()):
        if not q.startswith("synrbl.SynProcessor."):
            continue
        cfg = None
        cols = {}
        for st, v, idx in [(a, b, c) for nm in {t.id for x in own_nodes(f.node) if isinstance(x, ast.Assign) for t in x.targets if isinstance(t, ast.Name)} for a, b, c in assignments_to(f, nm)]:
            if idx is not None or not (isinstance(v, ast.Subscript) and not isinstance(v.slice, ast.Slice)):
                continue
            base = unparse(v.value)
            if not (base.endswith(".data") or base == "data" or base in ("df", "self.df")):
                continue
            cfg = cfg or CFG(f.node)
            nid = cfg.node_of(st)
            is_list = False
            for c_, pol in cfg.guards(nid) if nid is not None else []:
                t = unparse(c_)
                if "isinstance(" in t and "list" in t and base in t and pol:
                    is_list = True
            if is_list:
                continue
            for t in st.targets:
                if isinstance(t, ast.Name):
                    cols[t.id] = st
        if not cols:
            continue
        counters = set()
        for x in own_nodes(f.node):
            if isinstance(x, (ast.For, ast.comprehension)):
                it = x.iter
                if isinstance(it, ast.Call) and isinstance(it.func, ast.Name) and it.func.id == "range":
                    counters |= {v.id for v in ast.walk(x.target) if isinstance(v, ast.Name)}
                elif isinstance(it, ast.Call) and isinstance(it.func, ast.Name) and it.func.id == "enumerate" and isinstance(x.target, ast.Tuple) and x.target.elts and isinstance(x.target.elts[0], ast.Name):
                    counters.add(x.target.elts[0].id)
        for nm, st in sorted(cols.items()):
            n += 1
            bad = [x for x in own_nodes(f.node) if isinstance(x, ast.Subscript) and isinstance(x.ctx, ast.Load) and isinstance(x.value, ast.Name) and x.value.id == nm and isinstance(x.slice, ast.Name) and x.slice.id in counters]
            ctx.instance(rule_id, "%s: %s may be a frame column (%s); subscripted with a loop counter: %s" % (q.split("synrbl.", 1)[-1], nm, unparse(st.value)[:40], bool(bad)), f.loc(st), ok=not bad)
            if bad:
                ctx.finding(rule_id, "%s:frame-column-by-counter:%s" % (q.split("synrbl.", 1)[-1], nm), f.loc(bad[0]), "%s may hold a data-frame column (%s) and is read as %s with a positional loop counter: on a frame whose index is not 0..n-1 in order (sorted, sampled, filtered without reset_index) this is a lookup by row label, and the compositions are reported for other rows than the ones they were computed from" % (nm, unparse(st.value)[:40], unparse(bad[0])))
    ctx.require(n >= 2, "no value that may be a frame column found in SynProcessor (%d)" % n)


def rule_e18(ctx, rule_id: str = "C07-E18") -> None:
    """Verdict i and difference i belong to reaction i: the lists the comparator and the decomposer return are joined
    by position with the rows.  Work handed out in *strided* slices (`pairs[k::n]`) comes back in input order only if
    the results are interleaved again; concatenating the slice results returns a permutation (0, n, 2n, .., 1, n+1, ..)."""
    ctx.rule(rule_id, "the per-reaction work of the processors is not partitioned into strided slices", 1)
    prog = ctx.prog
    n = 0
    for q, f in sorted(prog.functions.items()):
        if not q.startswith("synrbl.SynProcessor."):
            continue
        n += 1
        for x in own_nodes(f.node):
            if isinstance(x, ast.Subscript) and isinstance(x.slice, ast.Slice) and x.slice.step is not None and isinstance(x.ctx, ast.Load):
                st = x.slice.step
                if isinstance(st, ast.Constant) and st.value in (1, None):
                    continue
                if isinstance(st, ast.UnaryOp) and isinstance(st.operand, ast.Constant) and st.operand.value == 1 and x.slice.lower is None and x.slice.upper is None:
                    continue  # [::-1] is a reversal, judged by the order rules
                ctx.instance(rule_id, "%s: %s" % (q.split("synrbl.", 1)[-1], unparse(x)[:50]), f.loc(x), ok=False)
                ctx.finding(rule_id, "%s:strided-partition" % q.split("synrbl.", 1)[-1], f.loc(x), "%s takes every n-th element (%s): results computed per such slice and put together slice after slice are a permutation of the input order, so verdicts and difference formulas are attached to other reactions than the ones they were computed from" % (f.name, unparse(x)[:50]))
    ctx.instance(rule_id, "%d processor function(s) inspected" % n, "", ok=True)
    ctx.require(n >= 10, "SynProcessor collapsed (%d functions)" % n)


def rule_e7(ctx) -> None:
    """The carbon-count memo is keyed by the SMILES only although the count
    also depends on the atom type: sound only while the memo lives on an
    object whose atom type is fixed (fresh dict per CheckCarbonBalance)."""
    ctx.rule("C07-E7", "the per-component count memo cannot outlive the object that fixes its other inputs", 2)
    prog = ctx.prog
    cls = prog.cls("synrbl.SynProcessor.check_carbon_balance.CheckCarbonBalance")
    cnt = prog.func(cls.qualname + ".count_atoms")
    # which parameters does the cached value depend on, which form the key?
    memo = [p for p in cnt.params if "cache" in p]
    ctx.require(memo, "count_atoms lost its memo parameter")
    keyed = set()
    for n in own_nodes(cnt.node):
        if isinstance(n, ast.Subscript) and isinstance(n.value, ast.Name) and n.value.id == memo[0]:
            keyed |= names_in_expr(n.slice)
    other = [p for p in cnt.params if p not in keyed and p != memo[0]]
    ctx.instance("C07-E7", "count_atoms memo keyed by %s; value also depends on %s" % (sorted(keyed), other), cnt.loc(), ok=True)
    init = cls.methods.get("__init__")
    fresh = init is not None and any(isinstance(n, ast.Assign) and any(isinstance(t, ast.Attribute) and t.attr == "smiles_cache" for t in n.targets) and isinstance(n.value, (ast.Dict, ast.Call)) and unparse(n.value) in ("{}", "dict()") for n in own_nodes(init.node))
    class_level = "smiles_cache" in cls.class_attrs
    module_level = any("cache" in k.lower() and isinstance(v, (ast.Dict, ast.Call)) for k, v in cls.module.assigns.items())
    ok = (fresh and not class_level and not module_level) or not other
    ctx.instance("C07-E7", "memo object: fresh per instance=%s, class level=%s, module level=%s" % (fresh, class_level, module_level), cls.module.relpath, ok=ok)
    if not ok:
        ctx.finding("C07-E7", "CheckCarbonBalance.smiles_cache:lifetime", cnt.loc(), "the count memo is keyed by %s only but the count depends on %s as well, and the memo is not a fresh dict per CheckCarbonBalance object (fresh=%s, class level=%s): counts taken for one atom type are served for another" % (sorted(keyed), other, fresh, class_level))


def names_in_expr(e: ast.AST):
    return {n.id for n in ast.walk(e) if isinstance(n, ast.Name)}


def rule_e8(ctx) -> None:
    """The composition handed out is the caller's own object: if decompose (or a
    function of its counting chain) is memoised, no caller anywhere in the package
    may mutate the dictionary it gets, or later calls see the mutated counts."""
    from ..shared import SharedFlow

    ctx.rule("C07-E8", "a memoised composition is never mutated by a receiver (memoisation of the decompose chain is otherwise free)", 1)
    f, hops = locate_counting(ctx)
    chain = {DECOMPOSE, f.qualname} | {g.qualname for _, _, g in hops}
    scope = {q for q in ctx.prog.functions if q.startswith("synrbl.")}
    sf = SharedFlow(ctx, scope)
    memo = {q: d for q, d in sf.memoised.items() if q in chain}
    ctx.instance("C07-E8", "memoised functions of the decompose chain: %s" % (sorted(x.split(".")[-1] for x in memo) or "none"), f.loc(), ok=True, nontrivial=bool(memo))
    if not memo:
        return
    descs = set(memo.values())
    for q in sorted(scope):
        g = ctx.prog.functions[q]
        for node, why in sf.mutations(g):
            if any(d in why for d in descs):
                ctx.instance("C07-E8", "%s mutates a memoised composition" % q.split("synrbl.", 1)[-1], g.loc(node), ok=False)
                ctx.finding("C07-E8", "%s:mutates-memoised-composition" % q.split("synrbl.", 1)[-1], g.loc(node), "%s: every later decompose() of the same SMILES returns the mutated dictionary (%s)" % (why[:120], unparse(node)[:50]))


def rule_e10(ctx) -> None:
    """Counting atoms through the substructure matcher: GetSubstructMatches stops at maxMatches (default 1000), so
    `len(mol.GetSubstructMatches(q))` is a count only with an explicit, sufficient maxMatches."""
    ctx.rule("C07-E10", "atom counts are not taken as the length of a capped match list (GetSubstructMatches defaults to maxMatches=1000)", 0)
    prog = ctx.prog
    scope = [f for q, f in prog.functions.items() if q.startswith("synrbl.SynProcessor.") or q.startswith("synrbl.SynUtils.chem_utils")]
    for f in scope:
        for c in calls(f):
            if isinstance(c.func, ast.Name) and c.func.id == "len" and c.args:
                a = c.args[0]
                if isinstance(a, ast.Name):
                    asg = assignments_to(f, a.id)
                    a = asg[0][1] if len(asg) == 1 else a
                if isinstance(a, ast.Call) and isinstance(a.func, ast.Attribute) and a.func.attr == "GetSubstructMatches":
                    mm = next((k.value for k in a.keywords if k.arg == "maxMatches"), None)
                    ok = mm is not None and not (isinstance(mm, ast.Constant) and isinstance(mm.value, int) and mm.value <= 1000)
                    ctx.instance("C07-E10", "%s: %s (maxMatches: %s)" % (f.qualname.split("synrbl.", 1)[-1], unparse(c)[:60], unparse(mm) if mm is not None else "default 1000"), f.loc(c), ok=ok)
                    if not ok:
                        ctx.finding("C07-E10", "%s:capped-match-count" % f.qualname.split("synrbl.", 1)[-1], f.loc(c), "%s counts atoms as the number of substructure matches, which RDKit caps at maxMatches (default 1000): a component with more atoms of the element is under-counted and the two sides compare equal when they are not" % unparse(c)[:60])


def check(ctx) -> None:
    rule_e10(ctx)
    # E9: composition i belongs to side i (shared with C06-B1, submission order of the parallel decomposition)
    from . import c06

    c06.rule_submission_order(ctx, {q for q in ctx.prog.functions if q.startswith("synrbl.SynProcessor.")}, "C07-E9")
    rule_e8(ctx)
    rule_e1(ctx)
    rule_e2(ctx)
    rule_e3(ctx)
    rule_e4(ctx)
    rule_e5(ctx)
    rule_e6(ctx)
    rule_e7(ctx)
    # E11: the labels a row carries are those computed for that row: the validator decomposes, compares and counts
    # carbon on the rows it labels, in their order (shared with C01-R2)
    from ..pipeline import Pipeline
    from . import c01

    c01.rule_r2(ctx, Pipeline(ctx), "C07-E11")
    rule_e12(ctx)
    rule_e13(ctx)
    rule_e14(ctx)
    rule_e15(ctx)
    # E16: the signed difference reported for a re-labelled both-sided case is the true difference seen from the other
    # side: the given vector or its complete negation, charge included (shared with C08-D7)
    from . import c08

    c08.rule_d7(ctx, "C07-E16")
    rule_e17(ctx)
    rule_e18(ctx)
