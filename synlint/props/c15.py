"""C15 - atom-map removal keeps every molecule chemically identical."""

from __future__ import annotations

import ast
import os
import re
from typing import Dict, List, Optional, Tuple

from .. import regexlang, tables
from ..cfg import CFG
from ..model import AnalysisError, Func, own_nodes, unparse
from ..pipeline import Pipeline
from ..util import assignments_to, calls, const_str
from ..values import Val
from .c07 import SYMBOLS

EXPLANATION = (
    "Decides the two rewriting regexes of remove_atom_mapping as languages (re._parser), the applied-first ordering and the literal "
    "tables: (Rg1) every pattern whose replacement drops the brackets is finite; its language is enumerated; dropping `[..]` and an H "
    "count hands the hydrogen count to SMILES' implicit-valence rule (smallest allowed valence), which reproduces the bracket atom "
    "for every closed-shell environment iff the element has exactly one allowed valence (valence lists: RDKit periodic table, constant "
    "fold); without an H count any organic-subset element is sound; (Rg2) the pattern that deletes `:digits` must be restricted to "
    "bracket-atom context - outside brackets `:` is the aromatic bond and a digit a ring closure - decided by membership probes on the "
    "regex literal plus the presence of look-around/bracket scoping; (Rg3) with remove_aam (constant True in Balancer.__init__) the "
    "rewrite of every row's reaction column dominates the construction of the frame in preprocess and preprocess is stage 0; (Rg4) no "
    "SMILES literal that can be added to a reaction (rule databases, reagent templates, expansion compounds, string constants of the "
    "package) carries a map token - exhaustive."
    " Rg1 covers aromatic symbols (only aromatic carbon's hydrogen is implied) and enumerates map numbers by representatives; Rg3 also rejects a removal loop enclosed by a handler that continues; (Rg5) the rows returned by __rebalance_batch come from __run_pipeline, from the cache or from a producer that reaches remove_atom_mapping."
    ' (Rg6) cached rows were computed under the map-removal setting in force (shared with C12-K1); (Rg7) nothing outside the Balancer switches the removal off.'
    ' Rg2 also requires that no rewrite passes a count argument.'
    ' (Rg8) input_reaction, the text unsolved rows are reset to, is a copy of the reaction column taken right after map removal by a single writer (shared with C02-T2).'
    ' (Rg9) no digit characters are stripped off bracket-atom text on the map-removal path (callbacks of re.sub followed).'
)
ASSUMPTIONS = [
    "SMILES implicit-hydrogen rule: smallest allowed valence >= bond order sum (OpenSMILES; RDKit's valence list)",
    "closed-shell molecules (precondition of the property)",
]

RAM = "synrbl.SynUtils.chem_utils.remove_atom_mapping"
ORGANIC = ["B", "C", "N", "O", "P", "S", "F", "Cl", "Br", "I"]
AROMATIC = ["b", "c", "n", "o", "p", "s"]
FALLBACK_VALENCES = {"B": [3], "C": [4], "N": [3], "O": [2], "P": [3, 5], "S": [2, 4, 6], "F": [1], "Cl": [1], "Br": [1], "I": [1, 3, 5]}


def valences(sym: str) -> List[int]:
    try:
        Chem = tables.rdkit_chem()
        return [v for v in Chem.GetPeriodicTable().GetValenceList(sym) if v >= 0]
    except Exception:
        return FALLBACK_VALENCES.get(sym, [])


def rewrites(func: Func) -> List[Tuple[ast.AST, str, Optional[str]]]:
    """(sub call, pattern literal, replacement literal) in source order"""
    comps = regexlang.compiled_patterns(func)
    # patterns compiled once at module level
    for name, v in func.module.assigns.items():
        if isinstance(v, ast.Call) and isinstance(v.func, ast.Attribute) and v.func.attr == "compile" and v.args and isinstance(v.args[0], ast.Constant) and isinstance(v.args[0].value, str):
            comps.append((v, v.args[0].value, name))
    subs = [n for n in own_nodes(func.node) if isinstance(n, ast.Call) and isinstance(n.func, ast.Attribute) and n.func.attr == "sub"]
    subs.sort(key=lambda n: (n.lineno, n.col_offset))
    out = []
    for s in subs:
        pat = None
        if unparse(s.func.value) == "re":  # re.sub(pattern, repl, s)
            pat = const_str(s.args[0]) if s.args else None
            repl = const_str(s.args[1]) if len(s.args) > 1 else None
        elif isinstance(s.func.value, ast.Name):
            prev = [c for c in comps if c[2] == s.func.value.id and (c[0].lineno <= s.lineno or c[2] in func.module.assigns)]
            if prev:
                pat = prev[-1][1]
            repl = const_str(s.args[0]) if s.args else None
        elif isinstance(s.func.value, ast.Call):  # re.compile(...).sub(...)
            a = s.func.value.args[0] if s.func.value.args else None
            pat = const_str(a) if a is not None else None
            repl = const_str(s.args[0]) if s.args else None
        else:
            continue
        out.append((s, pat, repl))
    return out


MAP_POS = {"[CH3:1]": "[CH3]", "[C:12]": "[C]", "[13C@@H:7]": "[13C@@H]", "[O-:3]": "[O-]", "[nH:4]": "[nH]", "C[Cl:2]": "C[Cl]", "[Na+:11].[Cl-:12]": "[Na+].[Cl-]", "[CH2:3]=[CH2:40]": "[CH2]=[CH2]"}
MAP_NEG = ["c1ccccc:1", "C:1", "c:c", "c1cc:c:cc1", "C1=CC=CC=C:1", "c:1[CH3]c1"]


def rule_rg1_rg2(ctx, rg1: str = "C15-Rg1", rg2: str = "C15-Rg2") -> None:
    f = ctx.prog.func(RAM)
    ctx.rule(rg1, "bracket-dropping rewrites are sound: finite language, explicit-H forms only for single-valence elements", 1)
    ctx.rule(rg2, "the map-deleting pattern only matches inside a bracket atom", 1)
    rw = rewrites(f)
    ctx.require(rw, "remove_atom_mapping no longer rewrites with regular expressions")
    n_unbr = n_map = 0
    # every rewrite replaces *all* matches: no count argument (the fourth positional argument of re.sub - the third of
    # pattern.sub - is `count`; a flag constant passed there caps the number of replacements)
    for call, _pat, _repl in rw:
        module_level = unparse(call.func.value) == "re"
        cnt = next((k.value for k in call.keywords if k.arg == "count"), None)
        pos = 3 if module_level else 2
        if cnt is None and len(call.args) > pos:
            cnt = call.args[pos]
        capped = cnt is not None and not (isinstance(cnt, ast.Constant) and cnt.value == 0)
        if capped:
            ctx.finding(rg2, "chem_utils.remove_atom_mapping:replacement-count", f.loc(call), "the rewrite %s passes %s as `count`: only that many matches are rewritten, atom-map numbers beyond them survive" % (unparse(call.func)[:20], unparse(cnt)[:30]))
    for call, pat, repl in rw:
        if pat is None:
            ctx.finding(rg1, "chem_utils.remove_atom_mapping:dynamic-pattern", f.loc(call), "rewrite with a non-literal pattern cannot be analysed")
            continue
        tree = regexlang.parse(pat)
        rx = re.compile(pat)
        if repl is not None and repl == "":
            # deletion pattern: map removal
            n_map += 1
            bad_neg = [s for s in MAP_NEG if rx.sub("", s) != s]
            bad_pos = [s for s, want in MAP_POS.items() if rx.sub("", s) != want]
            ctxt = regexlang.has_lookaround(tree) or pat.startswith("\\[") or "(?<=" in pat
            ok = not bad_neg and not bad_pos
            ctx.instance(rg2, "deletion pattern %r: bracket context=%s; probes outside brackets changed: %s; maps surviving: %s" % (pat, ctxt, bad_neg, bad_pos), f.loc(call), ok=ok)
            if bad_neg:
                ctx.finding(rg2, "chem_utils.remove_atom_mapping:map-pattern-context", f.loc(call), "pattern %r also deletes ':digits' outside bracket atoms (aromatic bond + ring closure), e.g. %r -> %r" % (pat, bad_neg[0], rx.sub("", bad_neg[0])))
            if bad_pos:
                ctx.finding(rg2, "chem_utils.remove_atom_mapping:map-survives", f.loc(call), "pattern %r leaves a map number in %r" % (pat, bad_pos[0]))
            continue
        if repl is None or "\\g<" not in repl and "\\1" not in repl:
            ctx.instance(rg1, "rewrite %r -> %r (not an unbracketing)" % (pat, repl), f.loc(call), ok=True, nontrivial=False)
            continue
        # unbracketing rewrite
        n_unbr += 1
        lang = regexlang.enumerate_language(tree)
        if lang is None:
            ctx.instance(rg1, "pattern %r" % pat, f.loc(call), ok=False)
            ctx.finding(rg1, "chem_utils.remove_atom_mapping:unbracket:not-finite", f.loc(call), "the language of the unbracketing pattern %r is not finite/enumerable" % pat)
            continue
        bad_h: set = set()
        bad_sym: set = set()
        seen_syms: set = set()
        for w in lang:
            m = rx.fullmatch(w)
            if m is None:
                continue
            out = m.expand(repl)
            if not (w.startswith("[") and w.endswith("]")) or "[" in out:
                continue
            inner = re.sub(r":\d+$", "", w[1:-1])  # a map number does not change the atom
            sym = out
            rest = inner[len(sym):] if inner.startswith(sym) else None
            if rest is None:
                bad_sym.add(w)
                continue
            seen_syms.add(sym)
            if sym in AROMATIC:
                # aromatic atoms: only carbon's hydrogen is implied; [nH] and n are different atoms
                if rest.startswith("H") and sym != "c":
                    bad_h.add(sym)
                elif rest not in ("", "H") :
                    bad_sym.add(w)
                continue
            if sym not in ORGANIC:
                # only harmful if it is a real element symbol written that way in valid input
                if sym in SYMBOLS:
                    bad_sym.add(sym)
                continue
            if rest.startswith("H"):
                if len(valences(sym)) != 1:
                    bad_h.add(sym)
            elif rest != "":
                bad_sym.add(w)
        ok = not bad_h and not bad_sym
        ctx.instance(rg1, "pattern %r -> %r: %d strings, symbols %s" % (pat, repl, len(lang), sorted(seen_syms & set(ORGANIC))), f.loc(call), ok=ok)
        arom_h = sorted(x for x in bad_h if x in AROMATIC)
        if arom_h:
            bad_h -= set(arom_h)
            ctx.finding(rg1, "chem_utils.remove_atom_mapping:unbracket-aromatic-H:{%s}" % ",".join(arom_h), f.loc(call), "brackets and H count are dropped for aromatic %s: only aromatic carbon's hydrogen is implied, [nH] without its brackets is a different atom (c1cc[nH]c1 -> c1ccnc1 cannot be kekulised)" % arom_h)
        if bad_h:
            ctx.finding(
                rg1,
                "chem_utils.remove_atom_mapping:unbracket-H:{%s}" % ",".join(sorted(bad_h)),
                f.loc(call),
                "brackets and H count are dropped for %s, which have several allowed valences (%s): the implicit-valence rule then picks the smallest one, e.g. O=[%sH%d] becomes O=%s"
                % (sorted(bad_h), {s: valences(s) for s in sorted(bad_h)}, sorted(bad_h)[0], max(1, (valences(sorted(bad_h)[0]) + [3, 3])[1] - 2), sorted(bad_h)[0]),
            )
        if bad_sym:
            ctx.finding(rg1, "chem_utils.remove_atom_mapping:unbracket-symbol:{%s}" % ",".join(sorted(bad_sym)), f.loc(call), "brackets are dropped for atoms that may not be written without brackets: %s" % sorted(bad_sym))
    ctx.require(n_map >= 1, "no map-deleting rewrite found in remove_atom_mapping")
    ctx.require(n_unbr >= 1, "no unbracketing rewrite found in remove_atom_mapping")


def rule_rg3(ctx) -> None:
    ctx.rule("C15-Rg3", "atom-map removal is applied to every row before anything reads the reaction column", 3)
    pl = Pipeline(ctx)
    v = ctx.balancer.get("remove_aam")
    # the constant True, or a constructor parameter whose default is True (the property is stated for the default configuration)
    ok = v == frozenset({Val("const", True)}) or (len(v) == 1 and next(iter(v)).kind == "sym" and next(iter(v)).default is True)
    ctx.instance("C15-Rg3", "Balancer.remove_aam = %s" % sorted(map(repr, v)), "synrbl/balancing.py", ok=ok)
    if not ok:
        ctx.finding("C15-Rg3", "Balancer.__init__:remove_aam", "synrbl/balancing.py:1", "remove_aam is not the constant True after construction (%s)" % sorted(map(repr, v)))
    st0 = pl.stages[0]
    ok0 = st0.callee.qualname == "synrbl.preprocess.preprocess" and st0.params.get("remove_aam") == v
    ctx.instance("C15-Rg3", "stage 0 is preprocess(remove_aam=self.remove_aam)", st0.where(), ok=ok0)
    if not ok0:
        ctx.finding("C15-Rg3", "Balancer.__run_pipeline:preprocess-first", st0.where(), "the pipeline does not start with preprocess(..., remove_aam=self.remove_aam)")
    f = st0.callee if ok0 else ctx.prog.func("synrbl.preprocess.preprocess")
    cfg = CFG(f.node)
    stores = [s for s in st0.stores if s.func is f and pl.reaction_col.text in s.keytexts]
    okw = False
    abandoned = False
    for s in stores:
        val = s.value
        if isinstance(val, ast.Call):
            tgt = ctx.res.resolve_callee(val, f)
            same_row = val.args and isinstance(val.args[0], ast.Subscript) and s.target is not None and unparse(val.args[0]) == unparse(s.target)
            only_flag = all(a.kind == "param" and a.name == "remove_aam" and a.op == "" for a in s.atoms)
            if tgt and tgt[0] == "func" and tgt[1] == RAM and same_row and only_flag:
                # dominates the first use of the rows afterwards (DataFrame construction)
                loop = getattr(s.node, "_parent", None)
                uses = [c for c in calls(f) if c.lineno > s.node.lineno and any(isinstance(a, ast.Name) and a.id == f.params[0] for a in c.args)]
                before = [c for c in calls(f) if c.lineno < s.node.lineno and any(isinstance(a, ast.Name) and a.id == f.params[0] for a in c.args)]
                okw = bool(uses) and not before
                # a handler around the whole loop abandons the rows after the failing one
                passed_loop, cur = False, getattr(s.node, "_parent", None)
                while cur is not None and cur is not f.node:
                    if isinstance(cur, (ast.For, ast.While)):
                        passed_loop = True
                    if isinstance(cur, ast.Try) and passed_loop and any(not any(isinstance(x, ast.Raise) for x in ast.walk(h)) for h in cur.handlers):
                        okw = False
                        ctx.instance("C15-Rg3", "the map-removal loop sits inside a try whose handler continues", f.loc(cur), ok=False)
                        ctx.finding("C15-Rg3", "preprocess.preprocess:map-removal-abandoned", f.loc(cur), "the loop that removes the atom maps is enclosed by a handler that lets preprocess continue: after the first row that raises, the remaining rows keep their maps and are processed and returned mapped")
                        break
                    cur = getattr(cur, "_parent", None)
                if not okw and any(x.construct.endswith("map-removal-abandoned") for x in ctx.findings):
                    abandoned = True
    ctx.instance("C15-Rg3", "preprocess rewrites row[reaction] = remove_atom_mapping(row[reaction]) for every row before the frame is built", f.loc(), ok=okw)
    if not okw and not abandoned:
        ctx.finding("C15-Rg3", "preprocess.preprocess:map-removal-first", f.loc(), "the atom-map removal is not applied to every row (guarded only by remove_aam) before the rows are read")


MAP_TOKEN = re.compile(r"\[[^\]\[]*:\d+\]")


def rule_rg4(ctx) -> None:
    ctx.rule("C15-Rg4", "no SMILES literal that can be added to a reaction carries a map token", 100)
    prog = ctx.prog
    n = 0

    def scan_json(rel, obj, path=""):
        nonlocal n
        if isinstance(obj, dict):
            for k, v in obj.items():
                scan_json(rel, v, path + "/" + str(k))
        elif isinstance(obj, list):
            for i, v in enumerate(obj):
                scan_json(rel, v, path + "/%d" % i)
        elif isinstance(obj, str):
            n += 1
            bad = bool(MAP_TOKEN.search(obj))
            ctx.instance("C15-Rg4", "%s%s = %r" % (rel, path, obj[:40]), rel, ok=not bad, nontrivial=True)
            if bad:
                ctx.finding("C15-Rg4", "%s:%s" % (rel, obj[:40]), rel + path, "table literal %r carries an atom-map number" % obj)

    for mod, pkgdir, fname, line in sorted(set(tables.resource_sites(prog))):
        if not fname.endswith((".json", ".json.gz")):
            continue
        p = os.path.join(prog.repo, pkgdir, fname)
        if os.path.exists(p):
            scan_json(os.path.relpath(p, prog.repo), tables.load_json(p))
    p2 = os.path.join(prog.repo, "Data", "Rules", "automated_rules.json.gz")
    if os.path.exists(p2):
        scan_json("Data/Rules/automated_rules.json.gz", tables.load_json(p2))
    # string constants of pipeline-reachable functions
    reach = ctx.pipeline_reachable()
    for q in sorted(reach):
        g = prog.functions.get(q)
        if g is None or not q.startswith("synrbl."):
            continue
        for node in own_nodes(g.node):
            if isinstance(node, ast.Constant) and isinstance(node.value, str) and MAP_TOKEN.search(node.value):
                par = getattr(node, "_parent", None)
                if isinstance(par, ast.Expr):
                    continue  # docstring
                if isinstance(par, ast.Call) and unparse(par.func).endswith("ReactionFromSmarts"):
                    # named exemption: a reaction template consumed by RDKit,
                    # which does not copy template map numbers to products
                    ctx.instance("C15-Rg4", "%s: reaction template %r (exempt: ReactionFromSmarts argument)" % (q, node.value[:40]), g.loc(node), ok=True)
                    continue
                n += 1
                ctx.instance("C15-Rg4", "%s: literal %r" % (q, node.value[:40]), g.loc(node), ok=False)
                ctx.finding("C15-Rg4", "%s:literal:%s" % (q.split("synrbl.", 1)[-1], node.value[:30]), g.loc(node), "string constant %r on the pipeline path carries an atom-map number" % node.value)


def rule_rg5(ctx) -> None:
    """Rows can only leave through the pipeline (stage 0 strips the maps) or the
    cache (written from pipeline results): __rebalance_batch may not hand back
    rows it got from anywhere else, e.g. the raw batch."""
    ctx.rule("C15-Rg5", "rows returned by __rebalance_batch come from __run_pipeline or the cache only", 2)
    prog = ctx.prog
    rb = prog.func("synrbl.balancing.Balancer.__rebalance_batch")
    rets = [r for r in own_nodes(rb.node) if isinstance(r, ast.Return) and r.value is not None]
    ctx.require(rets, "__rebalance_batch returns nothing")
    names = set()
    for r in rets:
        v = r.value.elts[0] if isinstance(r.value, ast.Tuple) and r.value.elts else r.value
        if isinstance(v, ast.Attribute) and isinstance(v.value, ast.Name):
            v = v.value  # a field of a (named) tuple bound to a local: trace the local
        if isinstance(v, ast.Name):
            names.add(v.id)
        else:
            ctx.require(False, "__rebalance_batch returns %s; cannot trace the rows" % unparse(v)[:40])
    allowed = {"synrbl.balancing.Balancer.__run_pipeline", "synrbl.balancing.Balancer.__try_cache"}
    work, done = sorted(names), set()
    while work:
        nm = work.pop()
        if nm in done:
            continue
        done.add(nm)
        for stmt, v, idx in assignments_to(rb, nm):
            if idx is not None and isinstance(v, (ast.Tuple, ast.List)) and idx < len(v.elts):
                v = v.elts[idx]  # a, b = x, y
            ok, src = False, unparse(v)[:50]
            if isinstance(v, ast.Attribute) and isinstance(v.value, ast.Name):
                work.append(v.value.id)  # a field of a result object: trace the object
                ctx.instance("C15-Rg5", "%s = %s (field of %s)" % (nm, src, v.value.id), rb.loc(stmt), ok=True, nontrivial=False)
                continue
            if isinstance(v, ast.Name):
                work.append(v.id)  # a plain copy of another local: trace that one
                ctx.instance("C15-Rg5", "%s = %s (copy)" % (nm, src), rb.loc(stmt), ok=True, nontrivial=False)
                continue
            if isinstance(v, ast.Constant) and v.value is None:
                ok = True
            elif isinstance(v, ast.Call):
                tgt = ctx.res.resolve_callee(v, rb)
                ok = bool(tgt and tgt[0] == "func" and tgt[1] in allowed)
                if not ok and tgt and tgt[0] == "func" and RAM in ctx.res.reachable([tgt[1]], ctx.graph):
                    ok = True  # another producer that strips the maps itself
                    src += " (reaches remove_atom_mapping)"
            ctx.instance("C15-Rg5", "%s = %s" % (nm, src), rb.loc(stmt), ok=ok)
            if not ok:
                ctx.finding("C15-Rg5", "Balancer.__rebalance_batch:rows-from:%s" % (unparse(v.func) if isinstance(v, ast.Call) else type(v).__name__), rb.loc(stmt), "rows that did not pass the pipeline are returned (%s): they never went through the atom-map removal of stage 0" % src)
        for c in calls(rb):
            if isinstance(c.func, ast.Attribute) and isinstance(c.func.value, ast.Name) and c.func.value.id == nm and c.func.attr in ("append", "extend", "insert"):
                ctx.instance("C15-Rg5", "%s" % unparse(c)[:50], rb.loc(c), ok=False)
                ctx.finding("C15-Rg5", "Balancer.__rebalance_batch:rows-added", rb.loc(c), "rows are added to the result outside the pipeline: %s" % unparse(c)[:60])


def check(ctx) -> None:
    rule_rg9(ctx)
    rule_rg5(ctx)
    rule_rg1_rg2(ctx)
    rule_rg3(ctx)
    rule_rg4(ctx)
    # Rg6: rows served from the cache were computed with the map removal in force now (shared with C12-K1)
    from . import c12

    c12.rule_k1(ctx, "C15-Rg6")
    rule_rg7(ctx)
    # Rg8: the text an unsolved row is reset to (and to which imputed compounds are appended) is the map-free reaction of
    # this run: input_reaction is a copy of the reaction column taken right after the map removal (shared with C02-T2)
    from ..pipeline import Pipeline
    from . import c02

    c02.rule_t2(ctx, Pipeline(ctx), "C15-Rg8")


def rule_rg9(ctx) -> None:
    """Digits at the end of a bracket atom's text are not only the map number: `[SiH3]`, `[Ca+2]`, `[13CH3]` end in a
    hydrogen count or a charge.  Removing the map by stripping trailing digit *characters* (`rstrip("0123456789")`) -
    instead of deleting the `:<digits>` field - eats those digits whenever the atom carries no map."""
    ctx.rule("C15-Rg9", "no digit characters are stripped off the text of a bracket atom on the map-removal path", 0)
    prog = ctx.prog
    root = prog.func("synrbl.SynUtils.chem_utils.remove_atom_mapping")
    funcs = {root.qualname}
    # callbacks handed to re.sub / pattern.sub and helpers called from them
    work = [root]
    while work:
        g = work.pop()
        for c in calls(g):
            cands = list(c.args) + [k.value for k in c.keywords]
            tgt = ctx.res.resolve_callee(c, g)
            if tgt and tgt[0] == "func" and tgt[1] in prog.functions and tgt[1].startswith("synrbl.") and tgt[1] not in funcs:
                funcs.add(tgt[1])
                work.append(prog.functions[tgt[1]])
            for a in cands:
                if isinstance(a, (ast.Name, ast.Attribute)):
                    tv = ctx.res.resolve_value(a, g)
                    if tv and tv[0] == "func" and tv[1] in prog.functions and tv[1] not in funcs:
                        funcs.add(tv[1])
                        work.append(prog.functions[tv[1]])
    n = 0
    for q in sorted(funcs):
        g = prog.functions[q]
        for c in calls(g):
            if isinstance(c.func, ast.Attribute) and c.func.attr in ("rstrip", "strip", "lstrip") and c.args:
                a = c.args[0]
                txt = a.value if isinstance(a, ast.Constant) and isinstance(a.value, str) else None
                if txt is None and unparse(a).split(".")[-1] == "digits":
                    txt = "0123456789"
                if txt and any(ch.isdigit() for ch in txt):
                    n += 1
                    ctx.instance("C15-Rg9", "%s: %s" % (g.name, unparse(c)[:60]), g.loc(c), ok=False)
                    ctx.finding("C15-Rg9", "chem_utils.%s:digits-stripped-from-bracket-atom" % g.name, g.loc(c), "%s strips digit characters (%s) off bracket-atom text: for an atom without map number the trailing digits are its hydrogen count or charge ([SiH3] -> [SiH], [Ca+2] -> [Ca+]), so an unmapped molecule is changed" % (g.name, unparse(c)[:50]))
    if n == 0:
        ctx.instance("C15-Rg9", "no digit-stripping call in %d function(s) of the map-removal path" % len(funcs), root.loc(), ok=True)


def rule_rg7(ctx) -> None:
    """Map removal is a setting of the Balancer that defaults to on.  No front end of the package switches it off (or
    makes it depend on the data): `<balancer>.remove_aam = <anything but True>` outside the Balancer itself."""
    ctx.rule("C15-Rg7", "no code of the package switches the atom-map removal off", 0)
    n = 0
    for q, f in sorted(ctx.prog.functions.items()):
        if not q.startswith("synrbl.") or q.startswith("synrbl.balancing.Balancer."):
            continue
        for node in own_nodes(f.node):
            if isinstance(node, (ast.Assign, ast.AugAssign, ast.AnnAssign)):
                tg = node.targets if isinstance(node, ast.Assign) else [node.target]
                for t in tg:
                    if isinstance(t, ast.Attribute) and t.attr == "remove_aam":
                        if isinstance(t.value, ast.Name) and t.value.id in ("self", "cls"):
                            continue  # another class's own option of the same name (RxnVis)
                        n += 1
                        v = node.value
                        ok = isinstance(v, ast.Constant) and v.value is True
                        ctx.instance("C15-Rg7", "%s: %s" % (q.split("synrbl.", 1)[-1], unparse(node)[:60]), f.loc(node), ok=ok)
                        if not ok:
                            ctx.finding("C15-Rg7", "%s:remove_aam-assigned" % q.split("synrbl.", 1)[-1], f.loc(node), "%s sets remove_aam to %s: when that is not True the rows of the run keep their atom-map numbers" % (f.name, unparse(v)[:40] if v is not None else "?"))
    if n == 0:
        ctx.note("C15-Rg7: nothing outside the Balancer assigns remove_aam on this tree")
