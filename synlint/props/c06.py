"""C06 - a reaction's result does not depend on its batch context (plumbing)."""

from __future__ import annotations

import ast
from typing import Dict, List, Optional, Set, Tuple

from ..cfg import CFG, normal_compare
from ..model import Func, own_nodes, unparse
from ..pipeline import Pipeline
from ..rows import RowFlow
from ..util import influences_result, assignments_to, calls, const_str, names_in
from ..values import Env, Val, texts
from . import c18

EXPLANATION = (
    "Decides the id/position plumbing and the absence of cross-row channels visible in the code, not library determinism or "
    "scheduling: (B1) every joblib.Parallel(...) returns in submission order (return_as absent, 'list' or 'generator'); (B2) where a "
    "row id is converted to a list position (rows[int(r[id])]) the id was assigned as the positional index of the same frame after "
    "reset_index and after the last row-count-changing operation, the frame is turned into the row list without reordering, and the "
    "three objects agree on the id column; all other write-backs go through an id->index map built by enumerating the very list that "
    "is indexed; (B3) operands of positional joins (zip, concat(axis=1)) derive by def-use from the same row list without an "
    "intervening filter; (B4) no pipeline-reachable function mutates a module-level or class-level container, except the lazy-constant "
    "idiom `if cls._x is None: cls._x = <load of a packaged file>`, and no mutable default argument is mutated; (B5) every statistic "
    "is an int count written by exactly one stage call, so merge_stats' key-wise + is the partition-independent sum."
    ' (B6) tables shared between rows through a key function use a lossless key; (B7) attributes of the long-lived stage objects (the Balancer and the objects it stores) that are written on the pipeline path are re-assigned on every path before they are read - reads that only feed logging and memo tables keyed by every used parameter are exempt; B4 follows shared containers through parameters, attributes, aliases, returned values and memoised results (alias flow) and exempts complete memo tables.'
    ' (B9) no stage returns early under all()/any() over the batch unless the skipped work is restricted to the rows the test is about; (B10) the command line does not append result chunks under a column layout taken from chunk data.'
    ' (B11) no element is picked out of a set by iteration order; (B12) no min()/max() over a boolean-mask selection that can be empty.'
    " (B13) nobody edits a container display that is a parameter default (followed through self.x and self.stage.x, package-wide). (B14) where a per-reaction fault becomes the row's issue text the handlers include a catch-all or the awaited work is itself fenced. (B15) every per-batch statistic is additive: none derives from a set, a dict of values or an extreme."
    ' (B11) also: an ordered value (list / tuple / joined text) made from a set in iteration order and handed on. (B16) the statements of a fault-recording handler cannot raise.'
)
ASSUMPTIONS = [
    "joblib returns results in submission order unless return_as='generator_unordered'",
    "RDKit / xgboost / fgutils are deterministic functions of their inputs (not decided)",
]

SPLITTER = "synrbl.SynProcessor.rsmi_processing.RSMIProcessing.data_splitter"
PREPROCESS = "synrbl.preprocess.preprocess"


def rule_b1(ctx, scope: Set[str]) -> None:
    ctx.rule("C06-B1", "parallel maps return in submission order", 8)
    prog = ctx.prog
    for q in sorted(scope):
        f = prog.functions.get(q)
        if f is None or not q.startswith("synrbl."):
            continue
        for c in calls(f):
            if unparse(c.func).split(".")[-1] == "Parallel":
                ra = next((k.value for k in c.keywords if k.arg == "return_as"), None)
                val = const_str(ra) if ra is not None else None
                ok = ra is None or val in ("list", "generator")
                ctx.instance("C06-B1", "%s: Parallel(return_as=%s)" % (q.split("synrbl.", 1)[-1], val if ra is not None else "default"), f.loc(c), ok=ok)
                if not ok:
                    ctx.finding(
                        "C06-B1",
                        "%s:parallel-unordered" % q.split("synrbl.", 1)[-1],
                        f.loc(c),
                        "Parallel(return_as=%s) may yield results out of submission order; the results are consumed by position" % (unparse(ra)),
                    )


REORDER_CALLS = {"sorted", "reversed", "shuffle", "sample", "argsort", "permutation"}


def rule_submission_order(ctx, scope: Set[str], rule_id: str = "C06-B1") -> None:
    """Results of a parallel map are consumed by position, so the jobs must be submitted in the order of the input -
    or, when they are scheduled in another order P (sorted by size ...), the results must be put back with a recognised
    inverse: `out[P[k]] = R[k]` in a loop, or `[r for _, r in sorted(zip(P, R))]`.  `[R[i] for i in P]` applies the
    permutation a second time."""
    prog = ctx.prog
    ctx.rule(rule_id, "parallel maps return in submission order" if rule_id == "C06-B1" else "jobs of a parallel map are submitted in input order, or the results are put back with a recognised inverse of the schedule", 0)
    for q in sorted(scope):
        f = prog.functions.get(q)
        if f is None or not q.startswith("synrbl."):
            continue
        for c in calls(f):
            if unparse(c.func).split(".")[-1] != "Parallel":
                continue
            outer = getattr(c, "_parent", None)
            if not (isinstance(outer, ast.Call) and outer.func is c and outer.args and isinstance(outer.args[0], (ast.GeneratorExp, ast.ListComp))):
                continue
            gen = outer.args[0].generators[0]
            it = gen.iter
            sched = None
            if isinstance(it, ast.Name):
                for _st, v, _i in assignments_to(f, it.id):
                    if any(isinstance(x, ast.Call) and unparse(x.func).split(".")[-1] in REORDER_CALLS for x in ast.walk(v)):
                        sched = it.id
            elif any(isinstance(x, ast.Call) and unparse(x.func).split(".")[-1] in REORDER_CALLS for x in ast.walk(it)):
                sched = unparse(it)
            if sched is None:
                continue
            # the result list
            stmt = getattr(outer, "_parent", None)
            rname = stmt.targets[0].id if isinstance(stmt, ast.Assign) and isinstance(stmt.targets[0], ast.Name) else None
            verdict, why = "unknown", "jobs are submitted in the order of %s" % sched
            if rname:
                for n in own_nodes(f.node):
                    # wrong: [R[i] for i in P]
                    if isinstance(n, ast.ListComp) and len(n.generators) == 1 and isinstance(n.generators[0].iter, ast.Name) and n.generators[0].iter.id == sched and isinstance(n.elt, ast.Subscript) and isinstance(n.elt.value, ast.Name) and n.elt.value.id == rname and unparse(n.elt.slice) == unparse(n.generators[0].target):
                        verdict, why = "bad", "the results %s, computed in the order of the schedule %s, are indexed by that schedule again (%s): this applies the permutation twice instead of undoing it" % (rname, sched, unparse(n)[:50])
                    # right: out[P[k]] = R[k] / for i, r in zip(P, R): out[i] = r
                    if isinstance(n, ast.For) and isinstance(n.iter, ast.Call) and getattr(n.iter.func, "id", "") == "zip" and {unparse(a) for a in n.iter.args} >= {sched, rname} and isinstance(n.target, ast.Tuple):
                        tn = {unparse(a): t for a, t in zip(n.iter.args, n.target.elts)}
                        for st_ in n.body:
                            if isinstance(st_, ast.Assign) and isinstance(st_.targets[0], ast.Subscript) and unparse(st_.targets[0].slice) == unparse(tn[sched]) and unparse(st_.value) == unparse(tn[rname]) and verdict != "bad":
                                verdict, why = "ok", "results are stored at their scheduled index (%s)" % unparse(st_)[:40]
                    if isinstance(n, ast.Call) and getattr(n.func, "id", "") == "sorted" and n.args and isinstance(n.args[0], ast.Call) and getattr(n.args[0].func, "id", "") == "zip" and [unparse(a) for a in n.args[0].args][:2] == [sched, rname] and verdict != "bad":
                        verdict, why = "ok", "results are sorted back by their scheduled index"
            ctx.instance(rule_id, "%s: Parallel over the schedule %s - %s" % (q.split("synrbl.", 1)[-1], sched, why), f.loc(c), ok=verdict == "ok")
            if verdict == "bad":
                ctx.finding(rule_id, "%s:schedule-not-undone" % q.split("synrbl.", 1)[-1], f.loc(c), why + "; result i then belongs to another input than input i")
            elif verdict == "unknown":
                ctx.require(False, "%s submits parallel jobs in a re-ordered sequence (%s) and the way the results are put back is not recognised" % (q, sched))


def rule_b2(ctx, pl: Pipeline, rule_id: str = "C06-B2") -> None:
    ctx.rule(rule_id, "ids used as list positions are positional indices of the same list; id->index maps enumerate the list they index", 6)
    prog = ctx.prog
    spl = prog.func(SPLITTER)
    pre = prog.func(PREPROCESS)
    # (a) id assignment in the splitter
    idstore = None
    for n in own_nodes(spl.node):
        if isinstance(n, ast.Assign) and len(n.targets) == 1 and isinstance(n.targets[0], ast.Subscript) and unparse(n.targets[0].slice) == "self.index_col":
            idstore = n
    idvalue = idstore.value if idstore is not None else None
    if idstore is None:
        # `frame = frame.assign(**{self.index_col: [...]})` / `frame.assign(id=[...])`
        for n in own_nodes(spl.node):
            if isinstance(n, ast.Call) and isinstance(n.func, ast.Attribute) and n.func.attr == "assign":
                for k in n.keywords:
                    if k.arg is None and isinstance(k.value, ast.Dict):
                        for kk, vv in zip(k.value.keys, k.value.values):
                            if kk is not None and unparse(kk) == "self.index_col":
                                st_ = n
                                while not isinstance(st_, ast.stmt):
                                    st_ = getattr(st_, "_parent", None)
                                idstore, idvalue = st_, vv
    ctx.require(idstore is not None, "data_splitter no longer assigns the id column")
    v = idvalue
    positional = False
    if isinstance(v, ast.Name):
        # the labels are prepared in a local, possibly per branch of `data_name is None`: take the branch for None
        scfg0 = CFG(spl.node)
        cands = []
        for st_, val, _i in assignments_to(spl, v.id):
            none_branch = True
            for c, pol in scfg0.guards(scfg0.node_of(st_)):
                nc = normal_compare(c, pol)
                if nc is not None and isinstance(nc[2], ast.Constant) and nc[2].value is None and "data_name" in unparse(nc[0]):
                    none_branch = nc[1] in ("is", "==")
            if none_branch:
                cands.append(val)
        if len(cands) == 1:
            v = cands[0]
    if isinstance(v, ast.ListComp) and len(v.generators) == 1 and not v.generators[0].ifs:
        g = v.generators[0]
        it_txt = unparse(g.iter)
        if (it_txt in ("self.data.index", "range(len(self.data))") or (isinstance(g.iter, ast.Attribute) and g.iter.attr == "index") or (it_txt.startswith("range(len(") and it_txt.endswith("))"))) and isinstance(g.target, ast.Name):
            # element must mention the loop variable on the branch taken when data_name is None
            elt = v.elt
            if isinstance(elt, ast.IfExp):
                # the branch evaluated when the data name is None (the pipeline passes data_name=None)
                nc = normal_compare(elt.test, True)
                if nc is not None and isinstance(nc[2], ast.Constant) and nc[2].value is None and nc[1] in ("is not", "!="):
                    branch = elt.orelse
                elif nc is not None and isinstance(nc[2], ast.Constant) and nc[2].value is None and nc[1] in ("is", "=="):
                    branch = elt.body
                else:
                    branch = elt  # both branches must mention the position
            else:
                branch = elt
            positional = g.target.id in names_in(branch)
    later_filters = []
    resets = []
    for n in own_nodes(spl.node):
        if isinstance(n, ast.Call) and isinstance(n.func, ast.Attribute) and n.func.attr == "reset_index" and n.lineno < idstore.lineno:
            resets.append(n)
        if n.lineno > idstore.lineno if hasattr(n, "lineno") else False:
            if isinstance(n, ast.Assign) and isinstance(n.value, ast.Subscript) and unparse(n.value.value) == "self.data" and any(unparse(t) == "self.data" for t in n.targets):
                later_filters.append(n)
            if isinstance(n, ast.Call) and isinstance(n.func, ast.Attribute) and n.func.attr in ("drop_duplicates", "dropna", "sort_values", "sample"):
                later_filters.append(n)
    scfg = CFG(spl.node)
    id_guards = scfg.guards(scfg.node_of(idstore))
    unconditional = not id_guards
    ok = positional and bool(resets) and not later_filters and unconditional
    ctx.instance(rule_id, "data_splitter: id := positional index after reset_index, no later row-count change", spl.loc(idstore), ok=ok)
    if not ok:
        ctx.finding(rule_id, "RSMIProcessing.data_splitter:positional-id", spl.loc(idstore), "the id column is not (always) the positional index of the final frame (positional=%s, reset_index before=%s, later filters=%d, assigned unconditionally=%s): ids supplied with the data would be used as list positions" % (positional, bool(resets), len(later_filters), unconditional))
    # the splitter is told data_name=None on the pipeline path
    ctor = None
    for c in calls(pre):
        sub = ctx.ev._ctor_of(c, pre)
        if sub is not None and sub[0].name == "RSMIProcessing":
            ctor = c
    ctx.require(ctor is not None, "preprocess no longer builds RSMIProcessing")
    dn = next((k.value for k in ctor.keywords if k.arg == "data_name"), None)
    okn = isinstance(dn, ast.Constant) and dn.value is None
    ctx.instance(rule_id, "preprocess passes data_name=None (ids are plain positions)", pre.loc(ctor), ok=okn)
    if not okn:
        ctx.finding(rule_id, "preprocess.preprocess:data_name", pre.loc(ctor), "ids are prefixed with a data name and lose their position")
    # (b) frame -> list without reordering
    rets = [n for n in own_nodes(pre.node) if isinstance(n, ast.Return)]
    okr = len(rets) == 1 and isinstance(rets[0].value, ast.Call) and unparse(rets[0].value.func).endswith(".to_dict") and "records" in unparse(rets[0].value)
    frame_ops = [c for c in calls(pre) if isinstance(c.func, ast.Attribute) and c.func.attr in ("sort_values", "sample", "sort_index", "iloc")]
    ctx.instance(rule_id, "preprocess returns frame.to_dict('records') without reordering", pre.loc(rets[0]) if rets else pre.loc(), ok=okr and not frame_ops)
    if not (okr and not frame_ops):
        ctx.finding(rule_id, "preprocess.preprocess:frame-to-rows", pre.loc(), "the frame is not converted to the row list in frame order")
    # (c) agreement on the id column and use as list position
    id_vals = {
        "Balancer.__id_col": ctx.balancer.get("__id_col"),
        "rb_method.id_col": ctx.stage("rb_method").get("id_col"),
        "mcs_search.id_col": ctx.stage("mcs_search").get("id_col"),
        "post_processor.id_col": ctx.stage("post_processor").get("id_col"),
        "preprocess index_col": pl.stages[0].params.get("index_col", frozenset()),
    }
    oka = len({frozenset(v) for v in id_vals.values()}) == 1
    ctx.instance(rule_id, "all stages agree on the id column: %s" % {k: sorted(map(repr, v)) for k, v in id_vals.items()}, "synrbl/balancing.py", ok=oka)
    if not oka:
        ctx.finding(rule_id, "Balancer.__init__:id-column-agreement", "synrbl/balancing.py:1", "stages are constructed with different id columns: %s" % {k: sorted(map(repr, v)) for k, v in id_vals.items()})
    # use sites: X[int(r[id])] and X[map[...]]
    n_pos = n_map = 0
    for st in pl.stages:
        seen_f = set()
        for s in st.stores:
            f = s.func
            e = s.elem_expr
            if not isinstance(e, ast.Subscript):
                continue
            idx = e.slice
            cont = e.value
            if isinstance(idx, ast.Name):
                srcs = [v for _, v, i in assignments_to(f, idx.id) if i is None]
            else:
                srcs = [idx]
            for src in srcs:
                key = (f.qualname, unparse(src))
                if key in seen_f:
                    continue
                seen_f.add(key)
                if isinstance(src, ast.Call) and isinstance(src.func, ast.Name) and src.func.id == "int" and src.args and isinstance(src.args[0], ast.Subscript):
                    kk = texts(ctx.ev.eval(src.args[0].slice, s.env))
                    n_pos += 1
                    ok = kk == {pl.id_col.text} and isinstance(cont, ast.Name) and cont.id in (f.params[1:2] if f.cls else f.params[:1])
                    ctx.instance(rule_id, "%s: %s[int(row[%s])] indexes the stage's own row list" % (f.name, unparse(cont), sorted(map(str, kk))), s.where(), ok=ok)
                    if not ok:
                        ctx.finding(rule_id, "%s:id-as-position" % f.qualname.split("synrbl.", 1)[-1], s.where(), "a row id is used as a position in %s, which is not the list the ids were assigned on" % unparse(cont))
                elif isinstance(src, ast.Subscript) and isinstance(src.value, ast.Name):
                    mname = src.value.id
                    built_on = _map_built_on(f, mname)
                    if built_on is None:
                        continue
                    n_map += 1
                    ok = isinstance(cont, ast.Name) and built_on == cont.id
                    ctx.instance(rule_id, "%s: id->index map %s built by enumerating %s, applied to %s" % (f.name, mname, built_on, unparse(cont)), s.where(), ok=ok)
                    if not ok:
                        ctx.finding(rule_id, "%s:id-map-list-mismatch" % f.qualname.split("synrbl.", 1)[-1], s.where(), "the id->index map %s was built on %s but indexes %s" % (mname, built_on, unparse(cont)))
    if not (n_pos >= 1 and n_map >= 2):
        # a write-back that goes neither through the positional id nor through an id->index map
        ctx.finding(rule_id, "pipeline:write-back-shape", "synrbl/balancing.py:1", "row write-backs changed shape (by positional id: %d, through id->index maps: %d; 2 and 2 on the reference tree): some stage attaches results to rows by list position" % (n_pos, n_map))


def _map_built_on(f: Func, mname: str) -> Optional[str]:
    """name of the list whose enumerate() fills ``mname`` with positions"""
    for n in own_nodes(f.node):
        if isinstance(n, ast.Assign) and any(isinstance(t, ast.Name) and t.id == mname for t in n.targets) and isinstance(n.value, ast.DictComp):
            g = n.value.generators[0]
            if isinstance(g.iter, ast.Call) and getattr(g.iter.func, "id", "") == "enumerate" and isinstance(g.iter.args[0], ast.Name) and isinstance(g.target, ast.Tuple):
                idxname = g.target.elts[0].id if isinstance(g.target.elts[0], ast.Name) else None
                if isinstance(n.value.value, ast.Name) and n.value.value.id == idxname:
                    return g.iter.args[0].id
        if isinstance(n, ast.Assign) and any(isinstance(t, ast.Subscript) and isinstance(t.value, ast.Name) and t.value.id == mname for t in n.targets):
            # m[row[id]] = idx inside `for idx, row in enumerate(L)`
            cur = getattr(n, "_parent", None)
            while cur is not None and cur is not f.node:
                if isinstance(cur, ast.For) and isinstance(cur.iter, ast.Call) and getattr(cur.iter.func, "id", "") == "enumerate" and isinstance(cur.iter.args[0], ast.Name) and isinstance(cur.target, ast.Tuple):
                    idxname = cur.target.elts[0].id if isinstance(cur.target.elts[0], ast.Name) else None
                    if isinstance(n.value, ast.Name) and n.value.id == idxname:
                        return cur.iter.args[0].id
                cur = getattr(cur, "_parent", None)
    return None


def _derives_from(f: Func, name: str, root: str, depth: int = 0, seen=None) -> Tuple[bool, Optional[str]]:
    """(reaches root by def-use, filter found on the way)"""
    seen = seen if seen is not None else set()
    if name == root:
        return True, None
    if name in seen or depth > 8:
        return False, None
    seen.add(name)
    reach = False
    for _, v, _i in assignments_to(f, name):
        for x in ast.walk(v):
            if isinstance(x, (ast.ListComp, ast.GeneratorExp)) and any(g.ifs for g in x.generators):
                return True, "filtered comprehension in %s" % unparse(v)[:50]
            if isinstance(x, ast.Subscript) and isinstance(x.slice, ast.Slice):
                return True, "slice in %s" % unparse(v)[:50]
        for nm in names_in(v):
            r, flt = _derives_from(f, nm, root, depth + 1, seen)
            if flt:
                return True, flt
            reach = reach or r
        # attribute receivers: obj.method() where obj = Ctor(..., data=root)
    return reach, None


def rule_b3(ctx, pl: Pipeline, rule_id: str = "C06-B3") -> None:
    ctx.rule(rule_id, "operands of positional joins derive from the same row list without an intervening filter", 2)
    seen = set()
    for st in pl.stages:
        f = st.callee
        if f.qualname in seen or st.inline:
            continue
        seen.add(f.qualname)
        names = f.params[1:] if (f.cls is not None and not f.is_static) else f.params
        root = None
        for i, a in enumerate(st.call.args):
            if isinstance(a, ast.Name) and a.id == pl.rows_param and i < len(names):
                root = names[i]
        if root is None:
            continue
        flow = RowFlow(ctx.ev, f, st.env, {root})
        for n in own_nodes(f.node):
            ops = None
            if isinstance(n, ast.Call) and isinstance(n.func, ast.Name) and n.func.id == "zip":
                ops = list(n.args)
            elif isinstance(n, ast.Call) and unparse(n.func).endswith("concat") and n.args and isinstance(n.args[0], (ast.List, ast.Tuple)) and any(k.arg == "axis" and isinstance(k.value, ast.Constant) and k.value.value == 1 for k in n.keywords):
                ops = list(n.args[0].elts)
            if not ops:
                continue
            opnames = [sorted(names_in(o)) for o in ops]
            if not any(root in o or (set(o) & flow.containers) for o in opnames):
                continue  # join that does not involve the rows
            bad = None
            for o in ops:
                for nm in names_in(o):
                    if nm == root or nm in ("pd", "self"):
                        continue
                    if nm in flow.containers and flow.filters.get(nm):
                        # a filtered view of the rows joined positionally with something else
                        others = [x for x in ops if x is not o]
                        if any(root in names_in(x) for x in others):
                            bad = "filtered list %s joined with the full row list" % nm
                    r, flt = _derives_from(f, nm, root)
                    if flt:
                        bad = "%s: %s" % (nm, flt)
            ctx.instance(rule_id, "%s: %s" % (f.name, unparse(n)[:80]), f.loc(n), ok=bad is None)
            if bad is not None:
                ctx.finding(rule_id, "%s:positional-join:%d" % (f.qualname.split("synrbl.", 1)[-1], len(ops)), f.loc(n), "operands of a positional join are not aligned with the row list (%s)" % bad)


def rule_b4(ctx, scope: Set[str], rule_id: str = "C06-B4", class_level: bool = True) -> None:
    ctx.rule(rule_id, "no pipeline-reachable function mutates module/class level containers (lazy-constant idiom excepted) or a mutable default argument", {"C06-B4": 50, "C11-X7": 10}.get(rule_id, 5))
    prog = ctx.prog
    MUT = {"append", "extend", "update", "add", "insert", "pop", "remove", "clear", "setdefault", "__setitem__"}
    from ..shared import SharedFlow

    ll = [i.cls for i in long_lived_instances(ctx)]
    # the constructors of the long-lived stage objects are where their containers are built: always part of the flow
    flow_scope = set(scope) | {c.qualname + ".__init__" for c in ll if c.qualname + ".__init__" in prog.functions}
    sflow = SharedFlow(ctx, flow_scope, long_lived=ll)
    ctx.note("C06-B4: shared containers followed through parameters %s and attributes %s" % ({k.split(".")[-1]: sorted(v) for k, v in sorted(sflow.shared_params.items())}, {k.split(".")[-1]: sorted(v) for k, v in sorted(sflow.shared_attrs.items())}))
    for q in sorted(scope):
        f = prog.functions.get(q)
        if f is None or not q.startswith("synrbl."):
            continue
        m = f.module
        module_names = set(m.assigns)
        local_names = set(f.params + f.kwonly)
        for n in own_nodes(f.node):
            if isinstance(n, (ast.Assign, ast.AugAssign, ast.For, ast.comprehension, ast.withitem, ast.ExceptHandler)):
                tg = []
                if isinstance(n, ast.Assign):
                    tg = n.targets
                elif isinstance(n, ast.AugAssign):
                    tg = [n.target]
                elif isinstance(n, (ast.For, ast.comprehension)):
                    tg = [n.target]
                for t in tg:
                    for x in ast.walk(t):
                        if isinstance(x, ast.Name) and isinstance(x.ctx, ast.Store):
                            local_names.add(x.id)
        globals_declared = {x for n in own_nodes(f.node) if isinstance(n, ast.Global) for x in n.names}
        bad = []
        clsnames = {c.name for c in prog.classes.values()}
        for n in own_nodes(f.node):
            # global rebinding
            if isinstance(n, (ast.Assign, ast.AugAssign)):
                tg = n.targets if isinstance(n, ast.Assign) else [n.target]
                for t in tg:
                    if isinstance(t, ast.Name) and t.id in globals_declared:
                        bad.append((n, "rebinding of module global %s" % t.id))
                    base = t
                    while isinstance(base, ast.Subscript):
                        base = base.value
                    if base is not t and isinstance(base, ast.Name) and base.id in module_names and base.id not in local_names:
                        bad.append((n, "store into module-level container %s" % base.id))
                    # class-level attribute: cls.x = / ClassName.x =
                    tt = t
                    while isinstance(tt, ast.Subscript):
                        tt = tt.value
                    if isinstance(tt, ast.Attribute) and isinstance(tt.value, ast.Name):
                        recv = tt.value.id
                        is_cls = (f.is_classmethod and f.params and recv == f.params[0]) or (recv in clsnames and recv not in local_names)
                        if is_cls:
                            if _lazy_constant(f, n, tt):
                                continue
                            bad.append((n, "store to class-level attribute %s.%s" % (recv, tt.attr)))
            if isinstance(n, ast.Call) and isinstance(n.func, ast.Attribute) and n.func.attr in MUT:
                recv = n.func.value
                if isinstance(recv, ast.Name) and recv.id in module_names and recv.id not in local_names:
                    bad.append((n, "mutation of module-level container %s" % recv.id))
                if isinstance(recv, ast.Attribute) and isinstance(recv.value, ast.Name):
                    r = recv.value.id
                    if (f.is_classmethod and f.params and r == f.params[0]) or (r in clsnames and r not in local_names):
                        if f.name == "register":
                            continue
                        bad.append((n, "mutation of class-level container %s.%s" % (r, recv.attr)))
        # mutable default arguments that are mutated: only harmful when some
        # call site relies on the default and the name still denotes it
        for pname, d in f.param_defaults().items():
            if isinstance(d, (ast.List, ast.Dict, ast.Set)):
                if not _default_is_used(ctx, f, pname):
                    continue
                fcfg = CFG(f.node)
                rebinds = [fcfg.node_of(x) for x in own_nodes(f.node) if isinstance(x, ast.Assign) and any(isinstance(t, ast.Name) and t.id == pname for t in x.targets)]
                for n in own_nodes(f.node):
                    if hasattr(n, "lineno") and isinstance(n, (ast.Call, ast.Assign, ast.AugAssign)):
                        nid = fcfg.node_of(n)
                        if nid is not None and any(r is not None and r != nid and fcfg.dominates(r, nid) for r in rebinds):
                            continue  # the name was rebound to a fresh object first
                    if isinstance(n, ast.Call) and isinstance(n.func, ast.Attribute) and n.func.attr in MUT and isinstance(n.func.value, ast.Name) and n.func.value.id == pname:
                        bad.append((n, "mutation of the mutable default argument %s" % pname))
                    if isinstance(n, (ast.Assign, ast.AugAssign)):
                        for t in (n.targets if isinstance(n, ast.Assign) else [n.target]):
                            if isinstance(t, ast.Subscript) and isinstance(t.value, ast.Name) and t.value.id == pname:
                                bad.append((n, "store into the mutable default argument %s" % pname))
        for n, why in sflow.mutations(f):
            if f.name == "__init__" and "built once in __init__" in why:
                continue  # the constructor fills the container it has just created
            if not any(n is b for b, _ in bad):
                bad.append((n, why + " alias"))
        from ..shared import memo_complete

        kept = []
        for n, why in bad:
            cont = None
            if isinstance(n, (ast.Assign, ast.AugAssign)):
                for t in (n.targets if isinstance(n, ast.Assign) else [n.target]):
                    if isinstance(t, ast.Subscript):
                        cont = unparse(t.value)
            elif isinstance(n, ast.Call) and isinstance(n.func, ast.Attribute):
                cont = unparse(n.func.value)
            if cont is not None and ("store into" in why or "mutation of" in why or "() on" in why):
                okm, whym = memo_complete(f, cont)
                if okm:
                    ctx.instance(rule_id, "%s: %s is a memo table (%s)" % (q.split("synrbl.", 1)[-1], cont, whym), f.loc(n), ok=True)
                    continue
            kept.append((n, why))
        bad = kept
        ctx.instance(rule_id, q.split("synrbl.", 1)[-1], f.loc(), ok=not bad, nontrivial=bool(bad) or bool(globals_declared) or f.is_classmethod or bool(sflow.aliases(f)))
        for n, why in bad:
            ctx.finding(rule_id, "%s:shared-state:%s" % (q.split("synrbl.", 1)[-1], why.split()[-1]), f.loc(n), "%s on the pipeline path: results of one reaction can depend on reactions processed before it" % why)
    if not class_level:
        return
    # class-level *empty* mutable containers are shared state waiting to be filled
    classes = {prog.functions[q].cls.qualname: prog.functions[q].cls for q in scope if q in prog.functions and prog.functions[q].cls is not None}
    for cq, cls in sorted(classes.items()):
        for attr, val in cls.class_attrs.items():
            empty = (isinstance(val, (ast.Dict, ast.List, ast.Set)) and not (getattr(val, "keys", None) or getattr(val, "elts", None))) or (isinstance(val, ast.Call) and unparse(val.func) in ("dict", "list", "set", "defaultdict", "collections.defaultdict", "OrderedDict"))
            if not empty:
                continue
            # registry idiom: only written by a `register` classmethod that is called at import time
            writers = [m.name for m in cls.methods.values() if any(isinstance(n, ast.Attribute) and n.attr == attr for n in own_nodes(m.node))]
            registry = "register" in writers and "build" in writers and set(writers) <= {"register", "build"}
            ctx.instance(rule_id, "class-level container %s.%s (registry idiom: %s)" % (cls.name, attr, registry), cls.module.relpath, ok=registry)
            if not registry:
                ctx.finding(rule_id, "%s.%s:class-level-container" % (cq.split("synrbl.", 1)[-1], attr), "%s:%d" % (cls.module.relpath, val.lineno), "%s.%s is an empty mutable container at class level: every instance (every batch, every Validator pass) shares and fills the same object, so results depend on what was processed before" % (cls.name, attr))
    # class-level registries are written at import time only (register() called at module level)
    for m in prog.modules.values():
        if not m.name.startswith("synrbl."):
            continue
        for f in m.functions.values():
            pass


def _default_is_used(ctx, f: Func, pname: str) -> bool:
    """Does some call site in the package omit ``pname``?"""
    params = f.params[1:] if (f.cls is not None and not f.is_static and f.parent is None) else f.params
    if pname not in params:
        return True
    pos = params.index(pname)
    found_site = False
    for g in ctx.prog.package_functions():
        for c in calls(g):
            tgt = ctx.res.resolve_callee(c, g)
            if tgt and tgt[0] == "func" and tgt[1] == f.qualname:
                found_site = True
                given = len(c.args) > pos or any(k.arg == pname for k in c.keywords) or any(k.arg is None for k in c.keywords)
                if not given:
                    return True
    return not found_site


def _lazy_constant(f: Func, assign: ast.AST, target: ast.Attribute) -> bool:
    """``if cls._x is None: cls._x = <value built from a packaged file>``"""
    cur = getattr(assign, "_parent", None)
    if not isinstance(cur, ast.If):
        return False
    t = unparse(cur.test)
    if t != "%s is None" % unparse(target):
        return False
    v = unparse(assign.value) if isinstance(assign, ast.Assign) else ""
    # the value must not depend on the function's parameters other than cls
    params = set(f.params[1:])
    return not (names_in(assign.value) & params)


def _lossy_constructs(kf) -> List[str]:
    """``kf``: the key function (Func) or a key expression (an expanded key helper)"""
    out = []
    nodes = own_nodes(kf.node) if isinstance(kf, Func) else ast.walk(kf)
    for n in nodes:
        if isinstance(n, (ast.ListComp, ast.GeneratorExp, ast.SetComp, ast.DictComp)) and any(g.ifs for g in n.generators):
            out.append("filtering comprehension %s" % unparse(n)[:60])
        if isinstance(n, ast.Delete):
            out.append(unparse(n)[:40])
        if isinstance(n, ast.Call):
            name = unparse(n.func).split(".")[-1]
            if name in ("pop", "popitem", "round", "lower", "upper", "strip", "abs", "int", "discard"):
                out.append("%s(...)" % name)
        if isinstance(n, ast.Subscript) and isinstance(n.slice, ast.Slice):
            out.append("slice %s" % unparse(n)[:30])
    return out


def rule_b6(ctx, scope: Set[str]) -> None:
    """Results shared between rows through a lookup table keyed by a key
    function: the key must not drop information."""
    ctx.rule("C06-B6", "computations shared between rows through a keyed table use a lossless key", 0)
    prog = ctx.prog
    for q in sorted(scope):
        f = prog.functions.get(q)
        if f is None or not q.startswith("synrbl."):
            continue
        key_calls: Dict[str, List[ast.Call]] = {}
        key_exprs: Dict[str, ast.AST] = {}
        import re as _re

        cands = []
        for c in calls(f):
            tgt = ctx.res.resolve_callee(c, f)
            if tgt and tgt[0] == "func" and tgt[1] in prog.functions:
                cands.append((c, tgt[1]))
        # key helpers that were expanded in place (synlint/inline.py): the key is an expression of its own;
        # locals bound once to such an expression stand for it
        def key_expr_of(e):
            if isinstance(e, ast.Name):
                a = assignments_to(f, e.id)
                if len(a) == 1 and a[0][2] is None:
                    e = a[0][1]
            if isinstance(e, ast.Call) and getattr(e.func, "id", "") in ("tuple", "frozenset", "str") and e.args and any(isinstance(x, (ast.GeneratorExp, ast.ListComp, ast.Call)) for x in ast.walk(e.args[0])):
                return e
            return None

        for n in own_nodes(f.node):
            k = None
            if isinstance(n, ast.Subscript) and not isinstance(n.slice, ast.Slice):
                k = n.slice
            elif isinstance(n, ast.Call) and isinstance(n.func, ast.Attribute) and n.func.attr in ("setdefault", "get") and n.args:
                k = n.args[0]
            elif isinstance(n, ast.Compare) and len(n.ops) == 1 and isinstance(n.ops[0], (ast.In, ast.NotIn)):
                k = n.left
            if k is None or isinstance(k, ast.Call) and (ctx.res.resolve_callee(k, f) or ("", ""))[0] == "func":
                continue
            ke = key_expr_of(k)
            if ke is not None:
                sig = "expr:" + _re.sub(r"__i\d+", "", unparse(ke))
                key_exprs[sig] = ke
                cands.append((k, sig))
        for c, tq in cands:
            tgt = ("func", tq)
            par = getattr(c, "_parent", None)
            role = None
            if isinstance(par, ast.Subscript) and par.slice is c:
                role = "store" if isinstance(par.ctx, ast.Store) else "load"
            elif isinstance(par, ast.Call) and isinstance(par.func, ast.Attribute) and par.func.attr in ("setdefault", "get") and par.args and par.args[0] is c:
                role = "store" if par.func.attr == "setdefault" else "load"
            elif isinstance(par, ast.Compare) and par.left is c and isinstance(par.ops[0], (ast.In, ast.NotIn)):
                role = "load"
            if role:
                key_calls.setdefault(tgt[1], []).append((role, c))
        for kq, uses in key_calls.items():
            roles = {r for r, _ in uses}
            if roles != {"store", "load"}:
                continue
            if kq.startswith("expr:"):
                kf = key_exprs[kq]
                kname = kq[5:45]
            else:
                kf = prog.functions[kq]
                kname = kf.name
            lossy = _lossy_constructs(kf)
            ctx.instance("C06-B6", "%s shares results through a table keyed by %s (lossy constructs: %s)" % (q.split("synrbl.", 1)[-1], kname, lossy or "none"), f.loc(uses[0][1]), ok=not lossy)
            if lossy:
                ctx.finding(
                    "C06-B6",
                    "%s:shared-by-key:%s" % (q.split("synrbl.", 1)[-1], kname if not kq.startswith("expr:") else "expanded-key"),
                    f.loc(uses[0][1]),
                    "rows are grouped by %s, which drops information (%s), and the result computed for one row of a group is reused for the others: a row's result depends on which rows share its batch" % (kname, "; ".join(lossy[:2])),
                )
    # detector fixture (expected count on the tree is zero)
    import textwrap

    fx = ast.parse(textwrap.dedent("""
    def key(d):
        return tuple(sorted((k, v) for k, v in d.items() if k != 'Q'))
    """))
    fxf = Func(qualname="fixture.key", node=fx.body[0], module=next(iter(prog.modules.values())))
    ctx.require(bool(_lossy_constructs(fxf)), "lossy-key detector fixture did not fire")


def _is_write_target(n: ast.AST) -> bool:
    """the attribute node is the object of a subscript store / mutating call / augmented assignment"""
    par = getattr(n, "_parent", None)
    if isinstance(par, ast.Subscript) and par.value is n and isinstance(par.ctx, (ast.Store, ast.Del)):
        return True
    if isinstance(par, ast.Attribute) and par.value is n and par.attr in ("append", "extend", "update", "add", "insert", "setdefault", "clear", "pop", "remove"):
        return True
    if isinstance(par, ast.AugAssign) and par.target is n:
        return True
    return False


def long_lived_instances(ctx):
    """The Balancer and every stage object stored (transitively) in its attributes."""
    out, work, seen = [], [ctx.balancer], set()
    while work:
        i = work.pop()
        if id(i) in seen:
            continue
        seen.add(id(i))
        out.append(i)
        work.extend(i.attr_inst.values())
    return out


def rule_b7(ctx, reach: Set[str], rule_id: str = "C06-B7", reader_filter=None) -> None:
    """Objects that outlive one batch (the Balancer and the stage objects it
    stores) keep no run state: an attribute assigned on the pipeline path is
    either read only after an assignment that dominates the read in the same
    method, or it is (re)assigned on every path of its writer, so that no value
    of an earlier batch / call survives into a later one."""
    ctx.rule(rule_id, "attributes of long-lived stage objects written on the pipeline path are re-assigned on every path before they are read (no state of an earlier batch survives)", 0)
    prog = ctx.prog
    MUT = {"append", "extend", "update", "add", "insert", "setdefault"}
    classes = {}
    for inst in long_lived_instances(ctx):
        for c in prog.mro(inst.cls):
            classes[c.qualname] = c
    n_cls = 0
    for cq, cls in sorted(classes.items()):
        n_cls += 1
        methods = [m for m in cls.methods.values() if m.qualname in reach and m.name != "__init__" and m.params]
        writes = {}  # attr -> [(method, stmt, plain?)]
        reads = {}
        for m in methods:
            selfn = m.params[0]
            for n in own_nodes(m.node):
                if isinstance(n, ast.Attribute) and isinstance(n.value, ast.Name) and n.value.id == selfn:
                    par = getattr(n, "_parent", None)
                    if isinstance(n.ctx, ast.Store):
                        stmt = par
                        while stmt is not None and not isinstance(stmt, ast.stmt):
                            stmt = getattr(stmt, "_parent", None)
                        plain = isinstance(stmt, (ast.Assign, ast.AnnAssign)) and not isinstance(stmt, ast.AugAssign)
                        writes.setdefault(n.attr, []).append((m, stmt, plain))
                        if isinstance(stmt, ast.AugAssign):
                            reads.setdefault(n.attr, []).append((m, n))
                    elif isinstance(par, ast.Subscript) and par.value is n and isinstance(par.ctx, ast.Store):
                        stmt = par
                        while stmt is not None and not isinstance(stmt, ast.stmt):
                            stmt = getattr(stmt, "_parent", None)
                        writes.setdefault(n.attr, []).append((m, stmt, False))
                        reads.setdefault(n.attr, []).append((m, n))
                    elif isinstance(par, ast.Attribute) and par.value is n and par.attr in MUT and isinstance(getattr(par, "_parent", None), ast.Call) and par._parent.func is par:
                        stmt = par
                        while stmt is not None and not isinstance(stmt, ast.stmt):
                            stmt = getattr(stmt, "_parent", None)
                        writes.setdefault(n.attr, []).append((m, stmt, False))
                        reads.setdefault(n.attr, []).append((m, n))
                    else:
                        reads.setdefault(n.attr, []).append((m, n))
        for attr, ws in sorted(writes.items()):
            if attr in cls.methods or any(attr in c.methods for c in prog.mro(cls)):
                continue  # property setter target etc.
            rs = [(m, n) for m, n in reads.get(attr, []) if influences_result(n) or not isinstance(getattr(n, "ctx", None), ast.Load)]
            # the implicit read of `self.x += 1` / `self.x[k] = v` matters only if something else reads the value
            effective = [(m, n) for m, n in rs if isinstance(n.ctx, ast.Load) and not _is_write_target(n)]
            if not effective:
                ctx.instance(rule_id, "%s.%s is written on the pipeline path but read only for logging / not at all" % (cls.name, attr), ws[0][0].loc(ws[0][1]), ok=True, nontrivial=False)
                continue
            rs = effective
            if reader_filter is not None and not any(reader_filter(m) for m, _ in rs):
                continue
            from ..shared import memo_complete

            memo_fns = {m.qualname for m, _stmt, plain in ws if not plain}
            if memo_fns and all(memo_complete(prog.functions[mq], "%s.%s" % (prog.functions[mq].params[0], attr))[0] for mq in memo_fns) and not any(plain for _m, _s, plain in ws):
                ctx.instance(rule_id, "%s.%s is a memo table keyed by every input of %s" % (cls.name, attr, sorted(x.rsplit(".", 1)[-1] for x in memo_fns)), ws[0][0].loc(ws[0][1]), ok=True)
                continue
            cfgs = {}
            bad = None
            plain_nodes = {}
            for m, stmt, plain in ws:
                if plain:
                    plain_nodes.setdefault(m.qualname, []).append(stmt)
            # methods that assign the attribute on every path to their normal exit
            total = set()
            for mq, stmts in plain_nodes.items():
                m = prog.functions[mq]
                cfg = cfgs.setdefault(mq, CFG(m.node))
                ids = {cfg.node_of(s) for s in stmts}
                ok, _ = cfg.every_path_to_exit_passes(cfg.entry, lambda nd, ids=ids: nd.id in ids)
                if ok:
                    total.add(mq)
            for m, n in rs:
                cfg = cfgs.setdefault(m.qualname, CFG(m.node))
                rid = cfg.node_of(n)
                doms = [cfg.node_of(s) for s in plain_nodes.get(m.qualname, [])]
                if rid is not None and any(d is not None and d != rid and cfg.dominates(d, rid) for d in doms):
                    continue
                # read of a value assigned elsewhere: some other method must assign it on all its paths
                others = [mq for mq in plain_nodes if mq != m.qualname]
                if others and all(mq in total for mq in others):
                    continue
                bad = (m, n)
                break
            ctx.instance(rule_id, "%s.%s: %d run-time write(s), %d read(s); writers assigning on every path: %s" % (cls.name, attr, len(ws), len(rs), sorted(x.rsplit(".", 1)[-1] for x in total)), ws[0][0].loc(ws[0][1]), ok=bad is None)
            if bad is not None:
                m, n = bad
                ctx.finding(rule_id, "%s.%s:run-state" % (cq.split("synrbl.", 1)[-1], attr), m.loc(n), "%s.%s is written while a batch is processed and read in %s without an assignment that is guaranteed to precede the read in the same call: %s objects live across batches and calls, so a value computed for an earlier batch can be applied to a later one" % (cls.name, attr, m.name, cls.name))
    ctx.note("%s: %d long-lived classes inspected (%s)" % (rule_id, n_cls, ", ".join(sorted(c.name for c in classes.values()))))


def rule_b5(ctx, pl: Pipeline) -> None:
    ctx.rule("C06-B5", "statistics are int counts written by exactly one stage call (additive over batches)", 7)
    writers, key_site, _ = c18.stat_writers(ctx, pl)
    for k, ws in sorted(writers.items()):
        g, n, v = key_site[k]
        ok1 = len(ws) == 1
        ok2 = isinstance(n, ast.Assign) and c18.is_int_count(g, v)
        ctx.instance("C06-B5", "stats[%r]: writers=%s int-count=%s" % (k, ws, ok2), g.loc(n), ok=ok1 and ok2)
        if not ok1:
            ctx.finding("C06-B5", "stats:%s:writers" % k, g.loc(n), "statistic %r is written by %d stage calls per run" % (k, len(ws)))
        if not ok2:
            ctx.finding("C06-B5", "stats:%s:not-a-count" % k, g.loc(n), "statistic %r is not an int count; batched runs do not add up" % k)
    ms = ctx.prog.func("synrbl.balancing.merge_stats")
    adds = [n for n in own_nodes(ms.node) if isinstance(n, ast.AugAssign) and isinstance(n.op, ast.Add) and isinstance(n.target, ast.Subscript)]
    ok = len(adds) == 1
    ctx.instance("C06-B5", "merge_stats adds key-wise", ms.loc(), ok=ok)
    if not ok:
        ctx.finding("C06-B5", "balancing.merge_stats:combine", ms.loc(), "merge_stats does not add statistics key-wise")
    # per batch: a fresh stats dict for every batch
    rb = ctx.prog.func("synrbl.balancing.Balancer.__rebalance_batch")
    fresh = [n for n in own_nodes(rb.node) if isinstance(n, ast.Assign) and isinstance(n.value, ast.Dict) and not n.value.keys and any(isinstance(t, ast.Name) and "stats" in t.id for t in n.targets)]
    ctx.instance("C06-B5", "__rebalance_batch starts every batch with an empty stats dict", rb.loc(), ok=bool(fresh))
    if not fresh:
        ctx.finding("C06-B5", "Balancer.__rebalance_batch:fresh-stats", rb.loc(), "batch statistics are not collected in a fresh dict per batch")


def check(ctx) -> None:
    pl = Pipeline(ctx)
    reach = ctx.pipeline_reachable()
    scope = reach
    if ctx.tier == "thorough":
        scope = {q for q in ctx.prog.functions if q.startswith("synrbl.")}
    rule_b1(ctx, scope)
    rule_submission_order(ctx, scope)
    rule_b2(ctx, pl)
    rule_b3(ctx, pl)
    rule_b4(ctx, reach)
    rule_b11(ctx, reach)
    rule_b12(ctx, reach)
    rule_b13(ctx)
    rule_b14(ctx, reach)
    rule_b15(ctx, reach)
    rule_fence_handler_total(ctx, reach, "C06-B16")
    rule_b5(ctx, pl)
    rule_b6(ctx, reach)
    rule_b7(ctx, ctx.res.reachable(["synrbl.balancing.Balancer.rebalance"], ctx.graph))
    # B8: a row never disappears because of *another* row of its batch (shared with C05-P1, de-duplication part)
    from . import c05

    c05.rule_p1(ctx, pl, "C06-B8", only_duplicates=True)
    rule_b9(ctx, pl)


def rule_b9(ctx, pl: Pipeline, rule_id: str = "C06-B9") -> None:
    """A stage may leave early because *no row of the batch needs it* only if everything it would have done concerns
    those rows alone.  `if all(row[k] for row in rows): return rows` in front of code that also writes rows with `row[k]`
    true makes such a row's result depend on whether a batch mate happens to have `row[k]` false."""
    ctx.rule(rule_id, "no stage skips per-row work under an all()/any() over the batch unless that work is restricted to the rows the test is about", 0)
    seen, n = set(), 0
    for st in pl.stages:
        f = st.callee
        if f.qualname in seen or st.inline:
            continue
        seen.add(f.qualname)
        names = f.params[1:] if (f.cls is not None and not f.is_static) else f.params
        root = None
        for i, a in enumerate(st.call.args):
            if isinstance(a, ast.Name) and a.id == pl.rows_param and i < len(names):
                root = names[i]
        if root is None:
            continue
        for iff in [x for x in own_nodes(f.node) if isinstance(x, ast.If)]:
            t, pol = iff.test, True
            if isinstance(t, ast.UnaryOp) and isinstance(t.op, ast.Not):
                t, pol = t.operand, False
            if not (isinstance(t, ast.Call) and isinstance(t.func, ast.Name) and t.func.id in ("all", "any") and t.args and isinstance(t.args[0], (ast.GeneratorExp, ast.ListComp))):
                continue
            gen = t.args[0]
            if not (len(gen.generators) == 1 and isinstance(gen.generators[0].iter, ast.Name) and gen.generators[0].iter.id == root and isinstance(gen.generators[0].target, ast.Name)):
                continue
            if not (iff.body and isinstance(iff.body[-1], ast.Return)):
                continue
            n += 1
            # the row predicate: truthiness (or negated truthiness) of one column
            rv = gen.generators[0].target.id
            e, neg = gen.elt, False
            if isinstance(e, ast.UnaryOp) and isinstance(e.op, ast.Not):
                e, neg = e.operand, True
            col = None
            if isinstance(e, ast.Subscript) and isinstance(e.value, ast.Name) and e.value.id == rv:
                col = frozenset(map(str, texts(ctx.ev.eval(e.slice, st.env))))
            # rows for which the skipped work is meant: those that falsify an all(), satisfy an any()
            want_not = (t.func.id == "all") != neg if pol else None
            later = [s for s in st.stores if s.func is f and s.node.lineno > iff.lineno]
            loose = []
            for s in later:
                restricted = col is not None and want_not is not None and any(a.kind == "truth" and set(map(str, a.keys)) & col and (a.op == "not") == want_not for a in s.atoms)
                if not restricted:
                    loose.append(s)
            ok = not loose
            ctx.instance(rule_id, "%s: early return under %s; %d later row store(s), %d not restricted to the rows the test is about" % (f.name, unparse(iff.test)[:60], len(later), len(loose)), f.loc(iff), ok=ok)
            if not ok:
                ctx.finding(rule_id, "%s:batch-level-shortcut" % f.qualname.split("synrbl.", 1)[-1], f.loc(iff), "%s returns early when %s, but the skipped code also writes rows the test is not about (%s ...): what such a row gets then depends on the other rows of its batch" % (f.name, unparse(iff.test)[:60], ", ".join(sorted({"|".join(sorted(map(str, s.keytexts))) for s in loose}))[:80]))
    if n == 0:
        ctx.note("%s: no stage leaves early under an all()/any() over the batch on this tree" % rule_id)
    rule_b10(ctx)


def rule_b10(ctx, rule_id: str = "C06-B10") -> None:
    """Result rows carry only the keys that were set for them (issue / rules / confidence exist for MCS rows only).  A
    front end that writes the output chunk by chunk must not take the column layout from the data of an earlier chunk:
    `to_csv(mode="a", header=False)` of a frame re-indexed to the first chunk's columns silently drops every column the
    first chunk did not happen to have, so a row's written result depends on its batch mates."""
    ctx.rule(rule_id, "the command line does not append result chunks under a column layout taken from an earlier chunk", 0)
    prog = ctx.prog
    n = 0
    for q, f in sorted(prog.functions.items()):
        if not q.startswith("synrbl.SynCmd."):
            continue
        for c in [x for x in own_nodes(f.node) if isinstance(x, ast.Call) and isinstance(x.func, ast.Attribute) and x.func.attr == "to_csv"]:
            mode = next((k.value for k in c.keywords if k.arg == "mode"), None)
            if mode is None and len(c.args) >= 1:
                mode = None  # to_csv(path): mode is keyword-only in practice
            cands = [mode] if mode is not None else []
            if isinstance(mode, ast.Name):
                cands += [v for _st, v, _i in assignments_to(f, mode.id)]
            if not any(isinstance(x, ast.Constant) and isinstance(x.value, str) and "a" in x.value for m in cands for x in ast.walk(m)):
                continue
            n += 1
            # where do the appended frame's columns come from?
            frame = c.func.value
            layout = None
            if isinstance(frame, ast.Name):
                for _st, v, _i in assignments_to(f, frame.id):
                    if isinstance(v, ast.Call) and isinstance(v.func, ast.Attribute) and v.func.attr == "reindex":
                        layout = next((k.value for k in v.keywords if k.arg == "columns"), None)
            data_derived = False
            if isinstance(layout, ast.Name):
                for _st, v, _i in assignments_to(f, layout.id):
                    if any(isinstance(x, ast.Attribute) and x.attr in ("columns", "keys") for x in ast.walk(v)):
                        data_derived = True
            elif layout is None:
                data_derived = True  # appended as it comes: columns of later chunks are matched by position only
            ctx.instance(rule_id, "%s appends a chunk with to_csv(mode='a'); column layout: %s" % (f.name, unparse(layout) if layout is not None else "the chunk's own"), f.loc(c), ok=not data_derived)
            if data_derived:
                ctx.finding(rule_id, "%s:chunk-appended-under-first-chunk-layout" % q.split("synrbl.", 1)[-1], f.loc(c), "%s appends result chunks to the output under a column layout taken from chunk data (%s): result rows only carry the keys that were set for them, so columns missing from the first chunk are dropped from every later row" % (f.name, unparse(layout) if layout is not None else "none"))
    if n == 0:
        ctx.note("%s: the command line writes the output in one piece on this tree" % rule_id)


def rule_b13(ctx, rule_id: str = "C06-B13") -> None:
    """A container display used as a parameter default is one object for every call and every instance that stored it.
    Editing it - in the function, through the attribute it was stored in, or through another object's attribute -
    changes what every other user of the default gets: the result of a call depends on which objects were built or
    which calls were made before.  Package-wide (constructors and setters included, not only the pipeline path)."""
    from ..shared import SharedFlow

    prog = ctx.prog
    scope = {q for q in prog.functions if q.startswith("synrbl.")}
    sflow = SharedFlow(ctx, scope)
    defaults = sorted((q, p) for q, ps in sflow.shared_params.items() for p in ps if "default value of parameter" in sflow.origin.get((q, p), ""))
    ctx.rule(rule_id, "no function of the package edits an object that is the default value of a parameter", 1)
    for q, p in defaults:
        ctx.instance(rule_id, "%s(%s=<container display>) is followed" % (q.split("synrbl.", 1)[-1], p), prog.functions[q].loc(), ok=True, nontrivial=False)
    for q in sorted(scope):
        f = prog.functions[q]
        for node, why in sflow.mutations(f):
            if "default value of parameter" not in why:
                continue
            ctx.instance(rule_id, "%s: %s" % (q.split("synrbl.", 1)[-1], why[:100]), f.loc(node), ok=False)
            ctx.finding(rule_id, "%s:edits-default-argument" % q.split("synrbl.", 1)[-1], f.loc(node), "%s (`%s`): the default is one object shared by every call and every object that stored it, so what other users of the default get depends on what ran before" % (why[:160], unparse(node)[:50]))
    ctx.require(defaults, "no container display is used as a parameter default any more (nothing to follow)")


def _catch_all(h: ast.ExceptHandler) -> bool:
    if h.type is None:
        return True
    ts = h.type.elts if isinstance(h.type, ast.Tuple) else [h.type]
    return any(unparse(t).split(".")[-1] in ("Exception", "BaseException") for t in ts)


def _writes_issue(h: ast.ExceptHandler) -> bool:
    for b in h.body:
        for x in ast.walk(b):
            if isinstance(x, (ast.Assign, ast.AugAssign)):
                for t in x.targets if isinstance(x, ast.Assign) else [x.target]:
                    if isinstance(t, ast.Subscript) and not isinstance(t.slice, ast.Slice) and "issue" in unparse(t.slice).lower():
                        return True
    return False


def rule_b14(ctx, scope, rule_id: str = "C06-B14") -> None:
    """The work for one reaction is fenced: where a fault of that work is turned into the reaction's own issue text, the
    handlers around it catch *every* exception (RDKit raises Boost ArgumentError - a TypeError -, KeyError, IndexError
    ... besides ValueError / RuntimeError).  A fault that slips through reaches the batch-level handler of the
    Balancer, which drops every row of the batch: the rows of the other reactions then depend on their batch mates."""
    ctx.rule(rule_id, "where a per-reaction fault becomes the row's issue text the handlers are complete (catch Exception), or the fenced work is itself fenced", 3)
    prog = ctx.prog

    def fences(g):
        return [t for t in own_nodes(g.node) if isinstance(t, ast.Try) and any(_writes_issue(h) for h in t.handlers)]

    def fenced(g) -> bool:
        fs = fences(g)
        return bool(fs) and all(any(_catch_all(h) for h in t.handlers) for t in fs)

    n = 0
    for q in sorted(scope):
        f = prog.functions.get(q)
        if f is None or not q.startswith("synrbl."):
            continue
        for t in fences(f):
            n += 1
            short = q.split("synrbl.", 1)[-1]
            if any(_catch_all(h) for h in t.handlers):
                ctx.instance(rule_id, "%s: handlers %s include a catch-all" % (short, [unparse(h.type) if h.type else "bare" for h in t.handlers]), f.loc(t), ok=True)
                continue
            # the body only starts / waits for work that is fenced itself
            refs = []
            exprs = list(t.body)
            # handles waited for in the body were started before it (`r = pool.apply_async(job, ..)` ... `r.get(timeout)`)
            for b in t.body:
                for x in ast.walk(b):
                    if isinstance(x, ast.Name) and isinstance(x.ctx, ast.Load):
                        exprs.extend(v for _st, v, _i in assignments_to(f, x.id) if isinstance(v, ast.Call))
            for b in exprs:
                for x in ast.walk(b):
                    if isinstance(x, ast.Call):
                        tg = ctx.res.resolve_callee(x, f)
                        if tg and tg[0] == "func" and tg[1] in prog.functions and tg[1].startswith("synrbl."):
                            refs.append(prog.functions[tg[1]])
                        for a in list(x.args) + [k.value for k in x.keywords]:
                            if isinstance(a, (ast.Name, ast.Attribute)):
                                tv = ctx.res.resolve_value(a, f)
                                if tv and tv[0] == "func" and tv[1] in prog.functions and tv[1].startswith("synrbl."):
                                    refs.append(prog.functions[tv[1]])
            inner_ok = bool(refs) and all(fenced(g) for g in refs)
            ctx.instance(rule_id, "%s: handlers %s, no catch-all; fenced work inside: %s" % (short, [unparse(h.type) if h.type else "bare" for h in t.handlers], [g.name for g in refs] if inner_ok else "no"), f.loc(t), ok=inner_ok)
            if not inner_ok:
                ctx.finding(rule_id, "%s:per-reaction-fence-incomplete" % short, f.loc(t), "the handlers that turn a fault of this reaction's work into its issue text catch only %s: any other exception type (RDKit raises Boost ArgumentError/TypeError, KeyError, ...) escapes to the batch-level handler of the Balancer, and every row of the batch is lost with it" % [unparse(h.type) for h in t.handlers if h.type is not None])
    ctx.require(n >= 3, "fewer than 3 per-reaction fences found on the pipeline path (%d)" % n)


def rule_fence_handler_total(ctx, scope, rule_id: str) -> None:
    """The handler that writes the issue text is the last line of defence for the batch: an exception raised *inside*
    it leaves through the job, the stage and the pipeline.  Its statements therefore use operations that cannot fail on
    an arbitrary exception object: `str(e)`, `repr(e)`, `type(e).__name__`, `"..".format(..)`, f-strings, `%`, `+` on
    such strings, releasing the pool, logging.  Indexing into something computed from the exception
    (`str(e).splitlines()[0]` - an empty message has no first line) or calling other code is not one of them."""
    ctx.rule(rule_id, "the statements of a handler that records a per-reaction fault cannot raise on any exception object", 3)
    prog = ctx.prog
    SAFE_NAMES = {"str", "repr", "type", "isinstance", "len", "bool", "format", "getattr"}
    SAFE_ATTRS = {"format", "terminate", "close", "join", "debug", "info", "warning", "error", "exception", "strip", "rstrip", "lstrip", "replace", "splitlines", "split", "lower", "upper", "get", "keys"}
    n = 0
    for q in sorted(scope):
        f = prog.functions.get(q)
        if f is None or not q.startswith("synrbl."):
            continue
        for t in [t for t in own_nodes(f.node) if isinstance(t, ast.Try)]:
            for h in t.handlers:
                if not _writes_issue(h):
                    continue
                n += 1
                bad = None
                for b in h.body:
                    for x in ast.walk(b):
                        if isinstance(x, ast.Subscript) and isinstance(x.ctx, ast.Load):
                            # reading a field of the record being completed is what the handlers of the tree do
                            # (`mcs_data[id_col]`); an index into a computed value is not
                            if not isinstance(x.value, ast.Name):
                                v_ = x.value
                                # str.split(sep) / rsplit(sep) / partition(sep) always have a first and a last element
                                total = (
                                    isinstance(v_, ast.Call)
                                    and isinstance(v_.func, ast.Attribute)
                                    and v_.func.attr in ("split", "rsplit", "partition", "rpartition")
                                    and len(v_.args) >= 1
                                    and not (isinstance(v_.args[0], ast.Constant) and v_.args[0].value is None)
                                    and isinstance(x.slice, (ast.Constant, ast.UnaryOp))
                                    and unparse(x.slice) in ("0", "-1")
                                )
                                if not total:
                                    bad = bad or (x, "indexes into a computed value")
                        elif isinstance(x, ast.Call):
                            if isinstance(x.func, ast.Name) and x.func.id in SAFE_NAMES:
                                continue
                            if isinstance(x.func, ast.Attribute) and x.func.attr in SAFE_ATTRS:
                                continue
                            bad = bad or (x, "calls %s" % unparse(x.func)[:40])
                        elif isinstance(x, (ast.Assert, ast.Raise)):
                            if isinstance(x, ast.Raise):
                                continue
                            bad = bad or (x, "asserts")
                ctx.instance(rule_id, "%s: handler `except %s` uses only operations that cannot fail" % (q.split("synrbl.", 1)[-1], unparse(h.type) if h.type else ""), f.loc(h), ok=bad is None)
                if bad is not None:
                    ctx.finding(rule_id, "%s:handler-can-raise" % q.split("synrbl.", 1)[-1], f.loc(bad[0]), "the handler that turns a fault of this reaction into its issue text %s (`%s`): for an exception object on which that fails (an empty message, an unusual type) the handler itself raises, the error leaves the per-reaction job and the Balancer drops the whole batch" % (bad[1], unparse(bad[0])[:50]))
    ctx.require(n >= 3, "fewer than 3 issue-writing handlers found on the pipeline path (%d)" % n)


def rule_index_alignment(ctx, rule_id: str, prefixes=("synrbl.",)) -> None:
    """pandas combines two labelled objects by *label*, not by position.  A Series made from a plain list gets the labels
    0..n-1; if that list was computed by walking over a *filtered* selection (`df[mask]`, `.dropna()`, ...), position k of
    the list belongs to the k-th surviving row, whose label is not k once a row was dropped.  Combining such a series
    label-wise with the frame it came from (`&`, `|`, comparison, `pd.concat(axis=1)`, column assignment) pairs each value
    with another row - silently."""
    ctx.rule(rule_id, "a fresh-index Series computed from a filtered selection is not combined label-wise with the frame it came from", 0)
    prog = ctx.prog
    FILTERS = {"dropna", "query", "drop_duplicates", "sample", "sort_values", "nlargest", "nsmallest"}
    POSITIONAL = {"tolist", "to_numpy", "to_list", "reset_index", "values", "array", "to_dict"}
    n_fresh = 0

    def mentions(e, names) -> bool:
        return any(isinstance(x, ast.Name) and x.id in names for x in ast.walk(e))

    def positional(e) -> bool:
        return any((isinstance(x, ast.Attribute) and x.attr in POSITIONAL) for x in ast.walk(e))

    for q, f in sorted(prog.functions.items()):
        if not any(q.startswith(p_) for p_ in prefixes):
            continue
        assigns = [(st, t.id, st.value) for st in own_nodes(f.node) if isinstance(st, ast.Assign) for t in st.targets if isinstance(t, ast.Name)]
        if not any(isinstance(v, ast.Call) and unparse(v.func).split(".")[-1] == "Series" for _s, _n, v in assigns):
            continue
        # names that denote a filtered selection (labels have gaps / another order)
        filt = set()
        for _ in range(4):
            for _st, nm, v in assigns:
                if nm in filt:
                    continue
                if positional(v) and not mentions(v, filt - {nm}):
                    continue
                is_f = False
                for x in ast.walk(v):
                    if isinstance(x, ast.Subscript) and not isinstance(x.slice, (ast.Constant, ast.Slice)) and isinstance(x.ctx, ast.Load):
                        sl = x.slice
                        if isinstance(sl, (ast.Compare, ast.BoolOp, ast.UnaryOp)) or (isinstance(sl, ast.Call) and unparse(sl.func).split(".")[-1] in ("isna", "notna", "isnull", "notnull", "astype", "isin", "duplicated")):
                            is_f = True
                        elif isinstance(sl, ast.Name) and any(isinstance(v2, (ast.Compare, ast.BoolOp, ast.UnaryOp)) or (isinstance(v2, ast.Call) and unparse(v2.func).split(".")[-1] in ("isna", "notna", "isnull", "notnull", "isin", "duplicated")) for _s2, n2, v2 in assigns if n2 == sl.id):
                            is_f = True
                    if isinstance(x, ast.Call) and isinstance(x.func, ast.Attribute) and x.func.attr in FILTERS:
                        is_f = True
                if (is_f or mentions(v, filt)) and not (positional(v) and not is_f):
                    filt.add(nm)
        if not filt:
            continue
        # lists filled while walking a filtered selection
        from_filt_lists = set()
        for st in own_nodes(f.node):
            if isinstance(st, ast.For) and mentions(st.iter, filt):
                for c in ast.walk(st):
                    if isinstance(c, ast.Call) and isinstance(c.func, ast.Attribute) and c.func.attr == "append" and isinstance(c.func.value, ast.Name):
                        from_filt_lists.add(c.func.value.id)
        for _st, nm, v in assigns:
            if isinstance(v, (ast.ListComp, ast.GeneratorExp)) and any(mentions(g.iter, filt) for g in v.generators):
                from_filt_lists.add(nm)
        fresh = {}
        for st, nm, v in assigns:
            if isinstance(v, ast.Call) and unparse(v.func).split(".")[-1] == "Series" and v.args and not any(k.arg == "index" for k in v.keywords):
                a = v.args[0]
                if (isinstance(a, ast.Name) and a.id in from_filt_lists) or (isinstance(a, (ast.ListComp, ast.GeneratorExp)) and any(mentions(g.iter, filt) for g in a.generators)):
                    fresh[nm] = st
        if not fresh:
            continue
        n_fresh += len(fresh)
        derived = set(fresh)
        for _ in range(3):
            for _st, nm, v in assigns:
                if nm not in derived and mentions(v, derived) and not positional(v):
                    derived.add(nm)
        # every pandas-looking name of the function that is not derived from the fresh series
        others = {nm for _s, nm, v in assigns if nm not in derived and (nm in filt or any(isinstance(x, ast.Call) and unparse(x.func).split(".")[-1] in ("read_csv", "DataFrame", "read_json") for x in ast.walk(v)))} | (set(f.params) - derived)
        bad = None
        for x in own_nodes(f.node):
            if isinstance(x, ast.BinOp) and isinstance(x.op, (ast.BitAnd, ast.BitOr, ast.Add, ast.Sub, ast.Mult, ast.Div)):
                l_f, r_f = mentions(x.left, derived) and not positional(x.left), mentions(x.right, derived) and not positional(x.right)
                l_o, r_o = mentions(x.left, filt) and not positional(x.left), mentions(x.right, filt) and not positional(x.right)
                if (l_f and r_o and not r_f) or (r_f and l_o and not l_f):
                    bad = bad or x
            elif isinstance(x, ast.Call) and unparse(x.func).split(".")[-1] == "concat" and any(k.arg == "axis" and isinstance(k.value, ast.Constant) and k.value.value in (1, "columns") for k in x.keywords) and x.args and isinstance(x.args[0], (ast.List, ast.Tuple)):
                els = x.args[0].elts
                if any(mentions(e, derived) and not positional(e) for e in els) and any(mentions(e, others) and not mentions(e, derived) for e in els):
                    bad = bad or x
            elif isinstance(x, ast.Assign) and any(isinstance(t, ast.Subscript) and isinstance(t.value, ast.Name) and t.value.id in others for t in x.targets) and mentions(x.value, derived) and not positional(x.value):
                bad = bad or x
        ctx.instance(rule_id, "%s: fresh-index series %s computed from a filtered selection; combined label-wise: %s" % (q.split("synrbl.", 1)[-1], sorted(fresh), bad is not None), f.loc(next(iter(fresh.values()))), ok=bad is None)
        if bad is not None:
            nm = sorted(fresh)[0]
            ctx.finding(rule_id, "%s:fresh-index-meets-filtered-frame:%s" % (q.split("synrbl.", 1)[-1], nm), f.loc(bad), "%s is a Series with labels 0..n-1 whose values were computed row by row from a filtered selection (%s); `%s` combines it by label with data that keeps the original row labels: after the first dropped row every value is paired with another row (or with none)" % (nm, ", ".join(sorted(filt))[:60], unparse(bad)[:60]))
    if n_fresh == 0:
        ctx.note("%s: no Series is built from a list computed over a filtered selection on this tree" % rule_id)


def rule_b15(ctx, scope, rule_id: str = "C06-B15") -> None:
    """The run statistics of the batches are combined by addition (merge_stats), so a per-batch statistic has to be
    additive over a partition of the rows: a count of rows with a row-local property.  A quantity that compares rows
    with each other - the size of a set of values, a maximum, a number of distinct / repeated reactions - is not: the
    reported figure then depends on how the rows fall into batches."""
    ctx.rule(rule_id, "every per-batch statistic is a count over rows (additive); none is derived from a set, a dict of values or an extreme", 5)
    prog = ctx.prog
    NON_ADDITIVE_CALLS = {"set", "frozenset", "fromkeys", "Counter", "unique", "nunique", "drop_duplicates", "duplicated", "max", "min", "mean", "median", "groupby", "value_counts"}
    n = 0
    for q in sorted(scope):
        f = prog.functions.get(q)
        if f is None or not q.startswith("synrbl.") or f.name == "merge_stats":
            continue
        stats_names = {p for p in f.params + f.kwonly if p == "stats" or p.endswith("_stats")}
        if not stats_names:
            continue
        for st in own_nodes(f.node):
            if not isinstance(st, (ast.Assign, ast.AugAssign)):
                continue
            tgts = st.targets if isinstance(st, ast.Assign) else [st.target]
            for t in tgts:
                if not (isinstance(t, ast.Subscript) and isinstance(t.value, ast.Name) and t.value.id in stats_names):
                    continue
                n += 1
                exprs, seen, work = [], set(), [(st.value, 0)]
                while work:
                    e, d = work.pop()
                    exprs.append(e)
                    if d >= 3:
                        continue
                    for x in ast.walk(e):
                        if isinstance(x, ast.Name) and isinstance(x.ctx, ast.Load) and x.id not in seen and x.id not in f.params:
                            seen.add(x.id)
                            for _s, v, _i in assignments_to(f, x.id):
                                work.append((v, d + 1))
                bad = None
                for e in exprs:
                    for x in ast.walk(e):
                        if isinstance(x, (ast.Set, ast.SetComp, ast.DictComp)):
                            bad = bad or x
                        elif isinstance(x, ast.Call) and unparse(x.func).split(".")[-1] in NON_ADDITIVE_CALLS:
                            bad = bad or x
                ctx.instance(rule_id, "%s: stats[%s] = %s" % (q.split("synrbl.", 1)[-1], unparse(t.slice), unparse(st.value)[:50]), f.loc(st), ok=bad is None)
                if bad is not None:
                    ctx.finding(rule_id, "%s:non-additive-statistic:%s" % (q.split("synrbl.", 1)[-1], unparse(t.slice).strip("'\"")), f.loc(st), "the statistic %s is computed from %s, which compares the rows of the batch with each other: summed over batches by merge_stats the reported value depends on the batch layout (a reaction repeated across two batches is counted in neither)" % (unparse(t.slice), unparse(bad)[:50]))
    ctx.require(n >= 5, "fewer than 5 per-batch statistics found (%d)" % n)


def rule_b11(ctx, scope, rule_id: str = "C06-B11") -> None:
    """The order of a set of strings depends on the interpreter's hash seed, and every worker process has its own.
    Picking *one* element out of such a set (`s.pop()`, `next(iter(s))`, `list(s)[0]`) makes the result of a reaction
    depend on which process handled it and on the run."""
    ctx.rule(rule_id, "no element is picked out of a set by its iteration order on the pipeline path", 0)
    prog = ctx.prog

    def is_set_expr(f, e, depth=0) -> bool:
        if depth > 3:
            return False
        if isinstance(e, (ast.Set, ast.SetComp)):
            return True
        if isinstance(e, ast.Call) and isinstance(e.func, ast.Name) and e.func.id in ("set", "frozenset"):
            return True
        if isinstance(e, ast.Call) and isinstance(e.func, ast.Attribute) and e.func.attr in ("intersection", "union", "difference", "symmetric_difference"):
            return True
        if isinstance(e, ast.BinOp) and isinstance(e.op, (ast.BitAnd, ast.BitOr, ast.Sub, ast.BitXor)):
            return any(is_set_expr(f, x, depth + 1) or (isinstance(x, ast.Call) and isinstance(x.func, ast.Attribute) and x.func.attr in ("keys", "items")) for x in (e.left, e.right))
        if isinstance(e, ast.Name):
            defs = assignments_to(f, e.id)
            return bool(defs) and all(i is None and is_set_expr(f, v, depth + 1) for _s, v, i in defs)
        return False

    n = 0
    for q in sorted(scope):
        f = prog.functions.get(q)
        if f is None or not q.startswith("synrbl."):
            continue
        for c in [x for x in own_nodes(f.node) if isinstance(x, (ast.Call, ast.Subscript))]:
            picked = None
            if isinstance(c, ast.Call) and isinstance(c.func, ast.Attribute) and c.func.attr == "pop" and not c.args and is_set_expr(f, c.func.value):
                picked = c.func.value
            elif isinstance(c, ast.Call) and isinstance(c.func, ast.Name) and c.func.id == "next" and c.args and isinstance(c.args[0], ast.Call) and getattr(c.args[0].func, "id", "") == "iter" and c.args[0].args and is_set_expr(f, c.args[0].args[0]):
                picked = c.args[0].args[0]
            elif isinstance(c, ast.Subscript) and isinstance(c.slice, ast.Constant) and isinstance(c.slice.value, int) and isinstance(c.value, ast.Call) and getattr(c.value.func, "id", "") in ("list", "tuple") and c.value.args and is_set_expr(f, c.value.args[0]):
                picked = c.value.args[0]
            ordered = None
            if picked is None and isinstance(c, ast.Call):
                # an ordered value made from a set in iteration order: list(S) / tuple(S) / sep.join(S) / [.. for x in S]
                par = getattr(c, "_parent", None)
                wrapped = isinstance(par, ast.Call) and isinstance(par.func, ast.Name) and par.func.id in ("sorted", "set", "frozenset", "len", "sum", "min", "max", "any", "all", "Counter")
                if isinstance(c.func, ast.Name) and c.func.id in ("list", "tuple") and len(c.args) == 1 and is_set_expr(f, c.args[0]) and not wrapped and not isinstance(par, ast.Subscript):
                    ordered = c.args[0]
                elif isinstance(c.func, ast.Attribute) and c.func.attr == "join" and len(c.args) == 1 and is_set_expr(f, c.args[0]):
                    ordered = c.args[0]
            if ordered is not None:
                # only where the order can be seen: the value is stored in a row / returned / joined into text
                tgt_names = set()
                st_ = c
                while st_ is not None and not isinstance(st_, ast.stmt):
                    st_ = getattr(st_, "_parent", None)
                seen_out = isinstance(st_, ast.Return) or (isinstance(c.func, ast.Attribute) and c.func.attr == "join")
                if isinstance(st_, ast.Assign):
                    for t in st_.targets:
                        if isinstance(t, ast.Subscript):
                            seen_out = True
                        elif isinstance(t, ast.Name):
                            tgt_names.add(t.id)
                for nm in tgt_names:
                    for x in own_nodes(f.node):
                        if isinstance(x, ast.Return) and x.value is not None and any(isinstance(y, ast.Name) and y.id == nm for y in ast.walk(x.value)):
                            seen_out = True
                        if isinstance(x, ast.Assign) and any(isinstance(t, ast.Subscript) for t in x.targets) and any(isinstance(y, ast.Name) and y.id == nm for y in ast.walk(x.value)):
                            seen_out = True
                    # sorted later in place / by sorted(): the order is fixed again
                    if any(isinstance(x, ast.Call) and ((isinstance(x.func, ast.Attribute) and x.func.attr == "sort" and isinstance(x.func.value, ast.Name) and x.func.value.id == nm) or (isinstance(x.func, ast.Name) and x.func.id == "sorted" and x.args and isinstance(x.args[0], ast.Name) and x.args[0].id == nm)) for x in own_nodes(f.node)):
                        seen_out = False
                if seen_out:
                    n += 1
                    ctx.instance(rule_id, "%s: %s" % (q.split("synrbl.", 1)[-1], unparse(c)[:60]), f.loc(c), ok=False)
                    ctx.finding(rule_id, "%s:sequence-in-set-order" % q.split("synrbl.", 1)[-1], f.loc(c), "%s turns the set %s into an ordered value in iteration order and hands it on (row field, return value or joined text): for strings that order depends on the hash seed of the interpreter, so the same reaction gets a differently ordered value in another worker process or run" % (f.name, unparse(ordered)[:50]))
                continue
            if picked is None:
                continue
            n += 1
            ctx.instance(rule_id, "%s: %s" % (q.split("synrbl.", 1)[-1], unparse(c)[:60]), f.loc(c), ok=False)
            ctx.finding(rule_id, "%s:element-picked-from-set" % q.split("synrbl.", 1)[-1], f.loc(c), "%s picks one element of the set %s by iteration order: for strings that order depends on the hash seed of the interpreter, so two worker processes (or two runs) choose differently" % (f.name, unparse(picked)[:50]))
    if n == 0:
        ctx.instance(rule_id, "no pick by iteration order out of a set in %d function(s)" % len(scope), "", ok=True)


def rule_b12(ctx, scope, rule_id: str = "C06-B12") -> None:
    """`min()` / `max()` of an empty selection raises.  Where the selection depends on the rows of the batch (a boolean
    mask `a[a >= t]`, a filtered comprehension) and nothing tests that it is non-empty, one batch composition makes the
    stage raise; the pipeline's handler then drops every row of the batch - also those of reactions that were fine."""
    ctx.rule(rule_id, "no min()/max() over a data-dependent selection that can be empty on the pipeline path", 0)
    prog = ctx.prog
    n = 0
    for q in sorted(scope):
        f = prog.functions.get(q)
        if f is None or not q.startswith("synrbl."):
            continue
        cfg = None
        for c in [x for x in own_nodes(f.node) if isinstance(x, ast.Call)]:
            sel = None
            if isinstance(c.func, ast.Attribute) and c.func.attr in ("min", "max", "argmin", "argmax") and not c.args:
                sel = c.func.value
            elif isinstance(c.func, ast.Name) and c.func.id in ("min", "max") and len(c.args) == 1 and not any(k.arg == "default" for k in c.keywords):
                sel = c.args[0]
            if sel is None:
                continue
            src = sel
            if isinstance(src, ast.Name):
                d_ = assignments_to(f, src.id)
                if len(d_) == 1 and d_[0][2] is None:
                    src = d_[0][1]
            masked = isinstance(src, ast.Subscript) and isinstance(src.slice, (ast.Compare, ast.BoolOp, ast.UnaryOp))
            filtered = isinstance(src, (ast.ListComp, ast.GeneratorExp, ast.SetComp)) and any(g.ifs for g in src.generators)
            filtered = False  # generator filters over table entries (rule compositions) are decided by the solver rules
            if not (masked or filtered):
                continue
            n += 1
            cfg = cfg or CFG(f.node)
            nid = cfg.node_of(c)
            name = unparse(sel)
            guarded = False
            for cond, pol in cfg.guards(nid) if nid is not None else []:
                t = unparse(cond)
                if name in t and ("len(" in t or ".size" in t or ".any()" in t or t == name):
                    guarded = True
            cur = getattr(c, "_parent", None)
            while cur is not None and cur is not f.node:
                if isinstance(cur, ast.Try) and any(any(y is c for y in ast.walk(b)) for b in cur.body):
                    guarded = True
                cur = getattr(cur, "_parent", None)
            ctx.instance(rule_id, "%s: %s over the selection %s (non-emptiness established: %s)" % (q.split("synrbl.", 1)[-1], unparse(c)[:40], unparse(src)[:40], guarded), f.loc(c), ok=guarded)
            if not guarded:
                ctx.finding(rule_id, "%s:reduction-of-empty-selection" % q.split("synrbl.", 1)[-1], f.loc(c), "%s takes %s of %s, which is empty for some batches (no row passes the test): the exception leaves the stage, and the pipeline's handler drops every row of that batch" % (f.name, unparse(c.func)[-10:], unparse(src)[:50]))
    if n == 0:
        ctx.instance(rule_id, "no min()/max() over a masked or filtered selection in %d function(s)" % len(scope), "", ok=True)
