"""C05 - one result row per input row, in order."""

from __future__ import annotations

import ast
from typing import List, Optional, Set, Tuple

from ..cfg import CFG
from ..constfold import Unfoldable, fold_in
from ..model import AnalysisError, Func, own_nodes, unparse
from ..pipeline import Pipeline
from ..rows import RowFlow
from ..util import arg_of, assignments_to, calls, const_str
from ..values import Env, Val

EXPLANATION = (
    "Decides the absence of row-dropping / row-reordering constructs and of row-losing exception paths between rebalance()'s input "
    "and output: (P1) on the path rebalance -> __rebalance_batch -> __run_pipeline -> preprocess -> RSMIProcessing.data_splitter and in "
    "every stage no operation of the classes {boolean-mask indexing of the frame, drop_duplicates with a switch that is not the "
    "constant False, dropna / sort / sample / query / head / tail / row drop, in-place removal or reordering of the row list, rebinding "
    "of the row list to a filtered list} is applied to the row container; (P2) the per-row predicate applied in data_splitter cannot "
    "raise on a malformed string (tuple-unpacking of split() outside a handler); (P3) no handler between rebalance and the pipeline "
    "swallows an exception and continues with the batch's rows missing; (P4) results are accumulated with extend in loader order, "
    "nothing sorts them, DataLoader takes consecutive items; (P5) the CLI zips inputs with outputs (sound iff P1-P3).  P1-P3 fire on "
    "the pinned tree; they are the three defects the property itself names, confirmed with inputs and listed as known findings."
    " (P5) DataLoader ends the stream only in a handler of its source's StopIteration (or on a short islice read): no count or size estimate decides it; (P6) ids used as positions are positions (shared with C06-B2); (P7) the CLI zips the input rows with the direct result of rebalance(<those rows>), so every pass-through value lands on a distinct result object of its own row."
    " (P8) the recorded input of a row is a copy of the same frame's reaction column (shared with C02-T2); (P9) the shipped reagent templates have every key the curation code subscripts and every referenced template exists."
    ' (P10) no container that outlives a batch is mutated on the pipeline path (shared with C06-B4); (P11) the command line passes the rows it read to rebalance unfiltered.'
    " (P12) chunks are not appended to the output under an earlier chunk's layout (shared with C06-B10). (P13) the CSV reader parses under fixed rules, no dialect sniffed from the file. (P14) per-reaction fault handlers are complete (shared with C06-B14)."
    ' (P15) a fresh-index Series computed over a filtered selection is not combined label-wise with the frame it came from (shared pandas label-alignment rule).'
    ' (P16) the front ends read every record as written: no CSV option that consumes characters of a cell (shared with C02-T8). (P17) the cache key covers the whole rows (shared with C12-K8).'
)
ASSUMPTIONS = ["pandas: frame[boolean mask] keeps only the True rows; reset_index/assignment keep the row count"]

SPLITTER = "synrbl.SynProcessor.rsmi_processing.RSMIProcessing.data_splitter"
PREPROCESS = "synrbl.preprocess.preprocess"
REBALANCE = "synrbl.balancing.Balancer.rebalance"
REB_BATCH = "synrbl.balancing.Balancer.__rebalance_batch"

ROW_DROPPING_METHODS = {"dropna", "sort_values", "sort_index", "sample", "query", "head", "tail", "nlargest", "nsmallest", "truncate"}
LIST_MUTATORS = {"remove", "pop", "clear", "sort", "reverse", "insert"}


def _frame_exprs(f: Func) -> Set[str]:
    """Expressions (as text) that hold the row frame in ``f``."""
    out = set()
    for n in own_nodes(f.node):
        if isinstance(n, ast.Assign) and isinstance(n.value, ast.Call):
            t = unparse(n.value.func)
            if t.endswith("DataFrame") or t.endswith("data_splitter"):
                for tg in n.targets:
                    out.add(unparse(tg))
    if f.cls is not None and f.cls.name == "RSMIProcessing":
        out.add("self.data")
    return out


def rule_p1(ctx, pl: Pipeline, rule_id: str = "C05-P1", only_duplicates: bool = False) -> None:
    ctx.rule(rule_id, "no row-dropping / row-reordering operation on the row container between input and output" if not only_duplicates else "no de-duplication of the row frame (a row would vanish because of another row of its batch)", 8 if not only_duplicates else 1)
    prog = ctx.prog
    pre = prog.func(PREPROCESS)
    spl = prog.func(SPLITTER)
    # instance environment of the RSMIProcessing object built in preprocess
    proc_inst = None
    for c in calls(pre):
        sub = ctx.ev._ctor_of(c, pre)
        if sub is not None and sub[0].name == "RSMIProcessing":
            proc_inst = ctx.ev.instantiate(sub[0], sub[1], pl.stages[0].env, origin="preprocess.process")
    ctx.require(proc_inst is not None, "preprocess no longer constructs RSMIProcessing")
    for f, inst in ((pre, None), (spl, proc_inst)):
        frames = _frame_exprs(f)
        cfg = CFG(f.node)
        env = Env(func=f, params={}, inst=inst)
        for n in own_nodes(f.node):
            # frame = frame[mask]
            if not only_duplicates and isinstance(n, ast.Assign) and isinstance(n.value, ast.Subscript) and unparse(n.value.value) in frames:
                key = n.value.slice
                is_cols = isinstance(key, ast.Constant) or (isinstance(key, (ast.List, ast.Tuple)) and all(isinstance(e, ast.Constant) for e in key.elts))
                col_param = isinstance(key, ast.Name) and key.id in f.params or (isinstance(key, ast.Attribute) and key.attr.endswith("_col"))
                col_expr = ".columns" in unparse(key)
                if any(unparse(t) in frames for t in n.targets) and not is_cols and not col_param and not col_expr:
                    ctx.instance(rule_id, "%s: %s" % (f.name, unparse(n)[:70]), f.loc(n), ok=False, klass="mask-filter")
                    ctx.finding(
                        rule_id,
                        "%s.%s:mask-filter" % (f.qualname.split(".")[-2], f.name) if f.cls else "%s:mask-filter" % f.name,
                        f.loc(n),
                        "the row frame is replaced by a boolean-mask selection of itself (%s): rows for which the mask is False disappear and later rows shift" % unparse(n)[:60],
                    )
            if isinstance(n, ast.Call) and isinstance(n.func, ast.Attribute) and unparse(n.func.value) in frames:
                m = n.func.attr
                if m == "drop_duplicates":
                    g = cfg.guards(cfg.node_of(n))
                    switch_false = False
                    for c, p in g:
                        v = ctx.ev.eval(c, env)
                        # the constant False, or an option of the Balancer whose default is False (asked for explicitly)
                        if p and v and all((x.kind == "const" and x.value is False) or (x.kind == "sym" and getattr(x, "default", None) is False) for x in v):
                            switch_false = True
                    ctx.instance(rule_id, "%s: drop_duplicates under %s (switch bound to False at the call site: %s)" % (f.name, [unparse(c) for c, p in g], switch_false), f.loc(n), ok=switch_false)
                    if not switch_false:
                        ctx.finding(rule_id, "%s.%s:drop_duplicates" % (f.qualname.split(".")[-2], f.name), f.loc(n), "duplicate reactions are dropped from the row frame (switch is not the constant False on the pipeline path)")
                elif only_duplicates:
                    pass
                elif m in ROW_DROPPING_METHODS:
                    ctx.instance(rule_id, "%s: %s" % (f.name, unparse(n)[:60]), f.loc(n), ok=False)
                    ctx.finding(rule_id, "%s:%s" % (f.qualname.split("synrbl.", 1)[-1], m), f.loc(n), "row-dropping / row-reordering frame operation %s()" % m)
                elif m == "drop":
                    axis = next((k.value for k in n.keywords if k.arg == "axis"), None)
                    cols = any(k.arg == "columns" for k in n.keywords)
                    ok = cols or (isinstance(axis, ast.Constant) and axis.value in (1, "columns"))
                    ctx.instance(rule_id, "%s: %s (column drop: %s)" % (f.name, unparse(n)[:60], ok), f.loc(n), ok=ok)
                    if not ok:
                        ctx.finding(rule_id, "%s:drop-rows" % f.qualname.split("synrbl.", 1)[-1], f.loc(n), "rows are dropped from the frame: %s" % unparse(n)[:60])
                elif m in ("reset_index", "to_dict", "apply", "rename", "copy", "astype"):
                    ctx.instance(rule_id, "%s: %s (row-count preserving)" % (f.name, unparse(n)[:50]), f.loc(n), ok=True, nontrivial=False)
    if only_duplicates:
        return
    # stages: in-place removal / reordering of the row list, or rebinding it in the pipeline
    for st in pl.stages:
        if st.inline:
            continue
        g = st.callee
        names = g.params[1:] if (g.cls is not None and not g.is_static) else g.params
        rows_params = set()
        for i, a in enumerate(st.call.args):
            if isinstance(a, ast.Name) and a.id == pl.rows_param and i < len(names):
                rows_params.add(names[i])
        bad = None
        for n in own_nodes(g.node):
            if isinstance(n, ast.Call) and isinstance(n.func, ast.Attribute) and isinstance(n.func.value, ast.Name) and n.func.value.id in rows_params and n.func.attr in LIST_MUTATORS:
                bad = n
            if isinstance(n, ast.Delete) and any(isinstance(t, ast.Subscript) and isinstance(t.value, ast.Name) and t.value.id in rows_params and not isinstance(t.slice, ast.Constant) for t in n.targets):
                bad = n
            if isinstance(n, ast.Assign) and any(isinstance(t, ast.Subscript) and isinstance(t.slice, ast.Slice) and isinstance(t.value, ast.Name) and t.value.id in rows_params for t in n.targets):
                bad = n
        ctx.instance(rule_id, "stage %d %s does not remove/reorder rows in place" % (st.index, st.label), st.where(), ok=bad is None)
        if bad is not None:
            ctx.finding(rule_id, "%s:in-place-row-removal" % g.qualname.split("synrbl.", 1)[-1], g.loc(bad), "the row list is mutated in place: %s" % unparse(bad)[:60])
        if st.rows_rebound and st.index != 0:
            ctx.instance(rule_id, "stage %d %s rebinds the row list" % (st.index, st.label), st.where(), ok=False)
            ctx.finding(rule_id, "Balancer.__run_pipeline:rows-rebound@%s" % st.label, st.where(), "the row list is replaced by the result of %s after preprocessing (rows may be dropped or reordered)" % st.label)
    # filtering comprehension assigned back to the rows in the pipeline function itself
    f = pl.func
    for n in own_nodes(f.node):
        if isinstance(n, ast.Assign) and any(isinstance(t, ast.Name) and t.id == pl.rows_param for t in n.targets) and isinstance(n.value, (ast.ListComp, ast.GeneratorExp)):
            if any(g.ifs for g in n.value.generators):
                ctx.finding(rule_id, "Balancer.__run_pipeline:filtering-comprehension", f.loc(n), "the row list is rebound to a filtered comprehension")


def rule_p2(ctx) -> None:
    ctx.rule("C05-P2", "per-row predicates of the splitter cannot raise on malformed strings", 1)
    prog = ctx.prog
    spl = prog.func(SPLITTER)
    preds: List[Func] = []
    for c in calls(spl):
        # delayed(f)(x) / .apply(f)
        if isinstance(c.func, ast.Call) and isinstance(c.func.func, ast.Name) and c.func.func.id == "delayed" and c.func.args:
            v = ctx.res.resolve_value(c.func.args[0], spl)
            if v and v[0] == "func":
                preds.append(prog.functions[v[1]])
        if isinstance(c.func, ast.Attribute) and c.func.attr in ("apply", "map") and c.args:
            v = ctx.res.resolve_value(c.args[0], spl)
            if v and v[0] == "func":
                preds.append(prog.functions[v[1]])
    ctx.require(preds, "data_splitter no longer applies a per-row predicate")
    seen = set()
    for p in preds:
        if p.qualname in seen:
            continue
        seen.add(p.qualname)
        cfg = CFG(p.node)
        bad = None
        for n in own_nodes(p.node):
            if isinstance(n, ast.Assign) and isinstance(n.targets[0], (ast.Tuple, ast.List)) and isinstance(n.value, ast.Call) and isinstance(n.value.func, ast.Attribute) and n.value.func.attr in ("split", "rsplit", "partition"):
                if n.value.func.attr == "partition":
                    continue
                if not cfg.in_handler(cfg.node_of(n)) and not _in_try(n):
                    bad = n
        ctx.instance("C05-P2", "per-row predicate %s" % p.qualname.split("synrbl.", 1)[-1], p.loc(), ok=bad is None)
        if bad is not None:
            ctx.finding(
                "C05-P2",
                "%s.%s:unpack-split" % (p.qualname.split(".")[-2], p.name),
                p.loc(bad),
                "`%s` raises ValueError for a string without exactly one separator; the exception leaves data_splitter and the whole batch is lost" % unparse(bad),
            )


def _in_try(n: ast.AST) -> bool:
    cur = getattr(n, "_parent", None)
    prev = n
    while cur is not None:
        if isinstance(cur, ast.Try) and prev in cur.body:
            for h in cur.handlers:
                t = unparse(h.type) if h.type is not None else "BaseException"
                if any(x in t for x in ("ValueError", "Exception", "BaseException")):
                    return True
        prev = cur
        cur = getattr(cur, "_parent", None)
    return False


def rule_p3(ctx) -> None:
    ctx.rule("C05-P3", "no handler between rebalance and the pipeline continues with the batch's rows missing", 2)
    prog = ctx.prog
    rb = prog.func(REB_BATCH)
    reb = prog.func(REBALANCE)
    for f in (rb, reb):
        tries = [n for n in own_nodes(f.node) if isinstance(n, ast.Try)]
        for t in tries:
            for h in t.handlers:
                ht = unparse(h.type) if h.type is not None else "BaseException"
                broad = ht in ("Exception", "BaseException")
                reraises = any(isinstance(x, ast.Raise) for x in ast.walk(h))
                # does the try body produce the rows?
                produces = [x for x in ast.walk(ast.Module(body=t.body, type_ignores=[])) if isinstance(x, ast.Call) and unparse(x.func).split(".")[-1] in ("__run_pipeline", "__rebalance_batch")]
                if not produces:
                    continue
                # rows variable assigned in the body; does the handler supply a substitute?
                row_vars = set()
                for x in t.body:
                    if isinstance(x, ast.Assign) and any(c in ast.walk(x.value) for c in produces):
                        for tg in x.targets:
                            row_vars |= {y.id for y in ast.walk(tg) if isinstance(y, ast.Name)}
                substitutes = any(isinstance(x, ast.Assign) and any(isinstance(tg, ast.Name) and tg.id in row_vars for tg in x.targets) for x in ast.walk(h))
                ok = reraises or substitutes or not broad
                ctx.instance("C05-P3", "%s: except %s around the pipeline call (re-raises: %s, substitutes rows: %s)" % (f.name, ht, reraises, substitutes), f.loc(h), ok=ok)
                if not ok:
                    ctx.finding(
                        "C05-P3",
                        "Balancer.%s:handler-drops-batch" % f.name,
                        f.loc(h),
                        "`except %s` swallows any pipeline failure and returns without rows for this batch; rebalance() then skips the batch, so one bad row removes all rows of its batch" % ht,
                    )
    # rebalance skips None results
    skip = [n for n in own_nodes(reb.node) if isinstance(n, ast.If) and "is not None" in unparse(n.test) and any("extend" in unparse(x) for x in n.body)]
    ctx.instance("C05-P3", "rebalance extends the results only when the batch result is not None (%d site)" % len(skip), reb.loc(skip[0]) if skip else reb.loc(), ok=True, nontrivial=bool(skip))


def rule_p4(ctx) -> None:
    ctx.rule("C05-P4", "results are accumulated in loader order; DataLoader takes consecutive items", 3)
    prog = ctx.prog
    reb = prog.func(REBALANCE)
    # mutations of the accumulator
    acc = None
    for n in own_nodes(reb.node):
        if isinstance(n, ast.Call) and isinstance(n.func, ast.Attribute) and n.func.attr == "extend" and isinstance(n.func.value, ast.Name):
            acc = n.func.value.id
    ctx.require(acc is not None, "rebalance no longer accumulates batch results with extend")
    bad = None
    for n in own_nodes(reb.node):
        if isinstance(n, ast.Call) and isinstance(n.func, ast.Attribute) and isinstance(n.func.value, ast.Name) and n.func.value.id == acc and n.func.attr not in ("extend",):
            bad = n
        if isinstance(n, ast.Call) and isinstance(n.func, ast.Name) and n.func.id in ("sorted", "reversed", "set") and any(isinstance(a, ast.Name) and a.id == acc for a in n.args):
            bad = n
    ctx.instance("C05-P4", "accumulator %r is only extended, never sorted/reordered" % acc, reb.loc(), ok=bad is None)
    if bad is not None:
        ctx.finding("C05-P4", "Balancer.rebalance:accumulator-reordered", reb.loc(bad), "the accumulated results are reordered or mutated other than by extend: %s" % unparse(bad)[:60])
    # loop over the loader in order
    # the loop whose body hands a batch to __rebalance_batch
    def runs_batch(loop):
        return any(isinstance(c, ast.Call) and (ctx.res.resolve_callee(c, reb) or (None, ""))[1].endswith(".__rebalance_batch") for st_ in loop.body for c in ast.walk(st_))

    loops = [n for n in own_nodes(reb.node) if isinstance(n, ast.For) and runs_batch(n)]
    it0 = loops[0].iter if loops else None
    if isinstance(it0, ast.Call) and getattr(it0.func, "id", "") == "enumerate" and it0.args:
        it0 = it0.args[0]
    ok = len(loops) == 1 and isinstance(it0, ast.Name)
    ctx.instance("C05-P4", "batches are processed in loader order", reb.loc(loops[0]) if loops else reb.loc(), ok=ok)
    if not ok:
        ctx.finding("C05-P4", "Balancer.rebalance:loader-order", reb.loc(), "batches are not processed by a plain loop over the loader")
    # output built by iterating the accumulator in order
    outs = [n for n in own_nodes(reb.node) if isinstance(n, (ast.For, ast.comprehension)) and isinstance(n.iter, ast.Name) and n.iter.id == acc]
    ok = len(outs) >= 2 and not any(getattr(c, "ifs", []) for c in outs if isinstance(c, ast.comprehension))
    ctx.instance("C05-P4", "outputs are built by iterating the accumulator without filter", reb.loc(), ok=ok)
    if not ok:
        ctx.finding("C05-P4", "Balancer.rebalance:output-filter", reb.loc(), "the output is not a plain in-order projection of the accumulated rows")
    nx = prog.func("synrbl.SynUtils.batching.DataLoader.__next__")
    sn = nx.params[0]
    draws = [c for c in calls(nx) if unparse(c.func).split(".")[-1] in ("next", "islice") and c.args and isinstance(c.args[0], ast.Attribute) and isinstance(c.args[0].value, ast.Name) and c.args[0].value.id == sn]
    appended = any(unparse(c.func).split(".")[-1] == "islice" for c in draws)
    for c in draws:
        par = getattr(c, "_parent", None)
        if isinstance(par, ast.Call) and isinstance(par.func, ast.Attribute) and par.func.attr == "append":
            appended = True
        if isinstance(par, ast.Assign) and isinstance(par.targets[0], ast.Name):
            nm = par.targets[0].id
            appended = appended or any(isinstance(x, ast.Call) and isinstance(x.func, ast.Attribute) and x.func.attr == "append" and x.args and isinstance(x.args[0], ast.Name) and x.args[0].id == nm for x in own_nodes(nx.node))
    reorder = [c for c in calls(nx) if (isinstance(c.func, ast.Attribute) and c.func.attr in ("sort", "insert", "reverse", "pop", "remove")) or (isinstance(c.func, ast.Name) and c.func.id in ("sorted", "reversed", "set"))]
    ok = bool(draws) and appended and not reorder
    ctx.instance("C05-P4", "DataLoader.__next__ appends consecutive items of the source (%d next() call(s), appended: %s, reordering calls: %d)" % (len(draws), appended, len(reorder)), nx.loc(), ok=ok)
    if not ok:
        ctx.finding("C05-P4", "DataLoader.__next__:order", nx.loc(), "DataLoader does not take consecutive items of its source in order")
    rule_p5(ctx, nx, draws)
    # Dataset: the two ways of drawing items (iteration and next()) must see the same stream
    ds = prog.cls("synrbl.SynUtils.batching.Dataset")
    it, nx2 = ds.methods.get("__iter__"), ds.methods.get("__next__")
    ctx.require(it is not None and nx2 is not None, "Dataset lost __iter__/__next__")

    def self_attrs(m):
        sn = m.params[0]
        return {n.attr for n in own_nodes(m.node) if isinstance(n, ast.Attribute) and isinstance(n.value, ast.Name) and n.value.id == sn}

    a_it, a_nx = self_attrs(it), self_attrs(nx2)
    same = a_it == a_nx
    ctx.instance("C05-P4", "Dataset.__iter__ and Dataset.__next__ draw from the same state (%s vs %s)" % (sorted(a_it), sorted(a_nx)), it.loc(), ok=same)
    if not same:
        ctx.finding("C05-P4", "Dataset:iter-next-disagree", it.loc(), "Dataset.__iter__ uses %s but Dataset.__next__ uses %s: items buffered for one way of reading are skipped or repeated by the other (DataLoader uses next(), the unbatched path iterates)" % (sorted(a_it), sorted(a_nx)))
    for m in ds.methods.values():
        if m.name in ("__next__", "__iter__", "__init__"):
            continue
        consumes = [c for c in calls(m) if isinstance(c.func, ast.Name) and c.func.id == "next" and c.args and "self." in unparse(c.args[0])]
        if consumes:
            sn = m.params[0]
            buffers = {t.attr for n in own_nodes(m.node) if isinstance(n, ast.Assign) for t in n.targets if isinstance(t, ast.Attribute) and isinstance(t.value, ast.Name) and t.value.id == sn}
            replayed = bool(buffers) and buffers <= a_it and buffers <= a_nx
            ctx.instance("C05-P4", "Dataset.%s consumes items of the reader (buffer %s replayed by both reading paths: %s)" % (m.name, sorted(buffers), replayed), m.loc(consumes[0]), ok=replayed)
            if replayed:
                continue
            ctx.finding("C05-P4", "Dataset.%s:consumes-reader" % m.name, m.loc(consumes[0]), "Dataset.%s takes an item from the underlying reader outside the iteration protocol; unless every reading path replays it, a row is lost" % m.name)
    rule_p7(ctx)


def rule_p7(ctx) -> None:
    """CLI: the rows that receive the pass-through columns are, one by one, the
    results of the input rows they are zipped with - the direct return value of
    rebalance(<the same input list>), each element a distinct object."""
    prog = ctx.prog
    ctx.rule("C05-P7", "cmd_run.impute zips the input rows with the direct result of rebalance(<those rows>)", 1)
    imp = prog.func("synrbl.SynCmd.cmd_run.impute")
    def zip_of(it):
        if isinstance(it, ast.Call) and getattr(it.func, "id", "") == "enumerate" and it.args:
            it = it.args[0]
        if isinstance(it, ast.Call) and getattr(it.func, "id", "") == "zip" and len(it.args) == 2:
            return it
        return None

    zs = [n for n in own_nodes(imp.node) if isinstance(n, ast.For) and zip_of(n.iter) is not None]
    # alternative: column-wise copy between two frames, `out_df[c] = in_df[c]` - pandas aligns it on index *labels*
    col_copies = []
    for n in own_nodes(imp.node):
        if isinstance(n, ast.Assign) and len(n.targets) == 1 and isinstance(n.targets[0], ast.Subscript) and isinstance(n.targets[0].value, ast.Name):
            v = n.value
            positional = False
            while isinstance(v, (ast.Attribute, ast.Call)):
                if isinstance(v, ast.Attribute) and v.attr in ("values", "array"):
                    positional = True
                    v = v.value
                elif isinstance(v, ast.Call) and isinstance(v.func, ast.Attribute) and v.func.attr in ("to_numpy", "tolist", "to_list"):
                    positional = True
                    v = v.func.value
                else:
                    break
            if isinstance(v, ast.Subscript) and isinstance(v.value, ast.Name) and v.value.id != n.targets[0].value.id and unparse(v.slice) == unparse(n.targets[0].slice):
                col_copies.append((n, n.targets[0].value.id, v.value.id, positional))
    for n, dst, src, positional in col_copies:
        # is the source frame's index anything but the default 0..n-1 ?
        chain, work = set(), [src]
        while work:
            nm = work.pop()
            if nm in chain:
                continue
            chain.add(nm)
            for _st, v, _i in assignments_to(imp, nm):
                work.extend(x.id for x in ast.walk(v) if isinstance(x, ast.Name))
        relabel = None
        for x in own_nodes(imp.node):
            if isinstance(x, ast.Call) and isinstance(x.func, ast.Attribute) and x.func.attr in ("set_index", "sort_values", "sort_index", "sample", "dropna", "drop_duplicates", "query") and any(isinstance(y, ast.Name) and y.id in chain for y in ast.walk(x.func.value)):
                relabel = x
            if isinstance(x, ast.Call) and unparse(x.func).split(".")[-1] == "read_csv" and any(k.arg == "index_col" and not (isinstance(k.value, ast.Constant) and k.value.value in (None, False)) for k in x.keywords):
                relabel = x
            if isinstance(x, ast.Subscript) and isinstance(x.value, ast.Name) and x.value.id in chain and isinstance(getattr(x, "_parent", None), ast.Assign) and x._parent.value is x and isinstance(x.slice, (ast.Compare, ast.Call, ast.Name)) and any(isinstance(t, ast.Name) and t.id in chain for t in x._parent.targets):
                relabel = x
        ok = positional or relabel is None
        ctx.instance("C05-P7", "impute: %s copies a column between frames (positional: %s, source index re-labelled: %s)" % (unparse(n)[:50], positional, unparse(relabel)[:40] if relabel is not None else "no"), imp.loc(n), ok=ok)
        if not ok:
            ctx.finding("C05-P7", "SynCmd.cmd_run.impute:frame-alignment", imp.loc(n), "%s aligns the pass-through column on index labels, and the input frame's index is not the default 0..n-1 (%s): values attach to the row whose position equals the old label, or become NaN" % (unparse(n)[:50], unparse(relabel)[:50]))
    if col_copies and not zs:
        return
    ctx.require(zs, "cmd_run.impute no longer zips inputs with outputs")
    for z in zs:
        a, b = zip_of(z.iter).args
        names = [x.id if isinstance(x, ast.Name) else None for x in (a, b)]
        verdict, why = "unknown", "operands of zip are not plain names"
        if all(names):
            # which one is the rebalance result?
            res = None
            for nm, other in ((names[0], names[1]), (names[1], names[0])):
                asg = assignments_to(imp, nm)
                if len(asg) == 1 and isinstance(asg[0][1], ast.Call):
                    tgt = ctx.res.resolve_callee(asg[0][1], imp)
                    if tgt and tgt[0] == "func" and tgt[1] == REBALANCE:
                        res = (nm, other, asg[0][1])
            if res is not None:
                nm, other, call = res
                first = call.args[0] if call.args else next((k.value for k in call.keywords if k.arg == "reactions"), None)
                if isinstance(first, ast.Name) and first.id == other:
                    verdict, why = "ok", "%s = rebalance(%s, ...)" % (nm, other)
                else:
                    verdict, why = "bad", "%s is the result of rebalance(%s), not of the rows it is zipped with (%s)" % (nm, unparse(first) if first is not None else "?", other)
            else:
                for nm in names:
                    for _, v, _i in assignments_to(imp, nm):
                        if isinstance(v, ast.ListComp):
                            e = v.elt
                            if isinstance(e, (ast.Subscript, ast.Name)) or (isinstance(e, ast.Call) and isinstance(e.func, ast.Attribute) and e.func.attr == "get"):
                                verdict, why = "bad", "%s is rebuilt by look-ups (%s): input rows that map to the same entry share one result object, and the row-wise copy of the pass-through columns overwrites it" % (nm, unparse(v)[:60])
        ctx.instance("C05-P7", "impute: %s (%s)" % (unparse(z.iter), why), imp.loc(z), ok=verdict == "ok")
        if verdict == "bad":
            ctx.finding("C05-P7", "SynCmd.cmd_run.impute:zip-operands", imp.loc(z), why)
        elif verdict == "unknown":
            ctx.require(False, "cmd_run.impute: cannot relate the operands of %s to a rebalance call (%s)" % (unparse(z.iter), why))


def rule_p5(ctx, nx, draws) -> None:
    """The loader may end the stream only because its source is exhausted: the
    flag that guards ``raise StopIteration`` is set in a handler of the source's
    own StopIteration and nowhere else; no count or size estimate ends it."""
    from ..cfg import CFG

    ctx.rule("C05-P5", "DataLoader ends the stream only when its source raised StopIteration (no count / estimate decides it)", 2)
    cls = nx.cls
    sn = nx.params[0]
    cfg = CFG(nx.node)
    raises = [n for n in own_nodes(nx.node) if isinstance(n, ast.Raise) and n.exc is not None and "StopIteration" in unparse(n.exc)]
    ctx.require(raises, "DataLoader.__next__ no longer raises StopIteration")
    flags = set()
    for r in raises:
        g = cfg.guards(cfg.node_of(r))
        attrs = {a.attr for c, _ in g for a in ast.walk(c) if isinstance(a, ast.Attribute) and isinstance(a.value, ast.Name) and a.value.id == sn}
        others = {x.id for c, _ in g for x in ast.walk(c) if isinstance(x, ast.Name) and x.id != sn and x.id not in ("len", "bool")}
        src0 = {c.args[0].attr for c in draws}

        def from_source(name):
            asg = assignments_to(nx, name)
            if not asg:
                return False
            for _, v, _i in asg:
                if isinstance(v, (ast.List, ast.Tuple)) and not v.elts:
                    continue
                if any(isinstance(a, ast.Attribute) and isinstance(a.value, ast.Name) and a.value.id == sn and a.attr in src0 for a in ast.walk(v)):
                    continue
                return False
            return True

        drawn = {o for o in others if from_source(o)}
        others -= drawn
        ok = (bool(attrs) or bool(drawn)) and not others and len(attrs) <= 1
        ctx.instance("C05-P5", "raise StopIteration is guarded by the flag %s only" % sorted(attrs), nx.loc(r), ok=ok)
        if not ok:
            ctx.finding("C05-P5", "DataLoader.__next__:stop-condition", nx.loc(r), "the end of the stream is decided by %s, not by a flag recording that the source is exhausted" % (sorted(attrs | others) or "nothing"))
        flags |= attrs
    src_attrs = {c.args[0].attr for c in draws}
    for m in cls.methods.values():
        msn = m.params[0] if m.params else None
        for n in own_nodes(m.node):
            tg = n.targets if isinstance(n, ast.Assign) else ([n.target] if isinstance(n, (ast.AugAssign, ast.AnnAssign)) else [])
            for t in tg:
                if not (isinstance(t, ast.Attribute) and isinstance(t.value, ast.Name) and t.value.id == msn and t.attr in flags):
                    continue
                val = getattr(n, "value", None)
                if m.name == "__init__" and isinstance(val, ast.Constant) and val.value is False:
                    ctx.instance("C05-P5", "flag %s starts as False" % t.attr, m.loc(n), ok=True, nontrivial=False)
                    continue
                # inside `except StopIteration` of a try whose body draws from the source
                h = getattr(n, "_parent", None)
                while h is not None and not isinstance(h, ast.ExceptHandler):
                    h = getattr(h, "_parent", None)
                ok = False
                if h is not None and h.type is not None and unparse(h.type) == "StopIteration":
                    tr = getattr(h, "_parent", None)
                    ok = isinstance(tr, ast.Try) and any(isinstance(x, ast.Call) and isinstance(x.func, ast.Name) and x.func.id == "next" and x.args and isinstance(x.args[0], ast.Attribute) and x.args[0].attr in src_attrs for b in tr.body for x in ast.walk(b))
                ok = ok and isinstance(val, ast.Constant) and val.value is True
                if not ok and m is nx and isinstance(val, ast.Constant) and val.value is True:
                    # short read: fewer items than asked for came back from islice(source, B)
                    mcfg = cfg
                    for c, pol in mcfg.guards(mcfg.node_of(n)):
                        if pol and isinstance(c, ast.Compare) and len(c.ops) == 1 and isinstance(c.ops[0], ast.Lt) and isinstance(c.left, ast.Call) and getattr(c.left.func, "id", "") == "len" and c.left.args and isinstance(c.left.args[0], ast.Name):
                            lst = c.left.args[0].id
                            bound = unparse(c.comparators[0])
                            for _, v, _i in assignments_to(nx, lst):
                                for x in ast.walk(v):
                                    if isinstance(x, ast.Call) and unparse(x.func).split(".")[-1] == "islice" and len(x.args) == 2 and isinstance(x.args[0], ast.Attribute) and x.args[0].attr in src_attrs and unparse(x.args[1]) == bound:
                                        ok = True
                ctx.instance("C05-P5", "%s: %s" % (m.name, unparse(n)[:70]), m.loc(n), ok=ok)
                if not ok:
                    ctx.finding("C05-P5", "DataLoader.%s:stop-flag:%s" % (m.name, t.attr), m.loc(n), "the flag that ends the stream is set outside a handler of the source's StopIteration (%s): if the value it is computed from is off by one row, the remaining rows are never delivered" % unparse(n)[:70])


def rule_p9(ctx) -> None:
    """The reagent templates are read by constant keys inside the pipeline; a template that lacks one raises KeyError, and
    the pipeline's handler then drops every row of the batch (known finding P3).  Reader and table must agree: every
    template (and variant) has every key the curation code subscripts, and every template a compound class names exists."""
    import json
    import os

    ctx.rule("C05-P9", "every shipped reagent template has the keys the curation code reads; every referenced template exists", 7)
    prog = ctx.prog
    base = os.path.join(ctx.repo, "synrbl", "SynChemImputer")
    try:
        rt = json.load(open(os.path.join(base, "reaction_template.json")))
        ct = json.load(open(os.path.join(base, "compounds_template.json")))
    except (OSError, ValueError) as e:
        raise AnalysisError("reagent template tables unreadable: %s" % e)
    readers = {"reduction": "synrbl.SynChemImputer.curate_reduction", "oxidation": "synrbl.SynChemImputer.curate_oxidation"}
    for kind, modname in readers.items():
        mod = prog.modules.get(modname)
        ctx.require(mod is not None, "module %s vanished" % modname)
        # leaf keys: constant string subscripts at the end of a chain rooted at the reaction_templates table
        leaf = set()
        for n in ast.walk(mod.tree):
            if isinstance(n, ast.Subscript) and isinstance(n.slice, ast.Constant) and isinstance(n.slice.value, str):
                root = n.value
                depth = 0
                while isinstance(root, ast.Subscript):
                    root = root.value
                    depth += 1
                if isinstance(root, ast.Name) and root.id == "reaction_templates" and n.slice.value not in rt and depth >= 1:
                    leaf.add(n.slice.value)
        ctx.require(leaf, "%s no longer reads the reaction templates by constant keys" % modname)
        ctx.require(kind in rt and kind in ct, "template tables lost the %r section" % kind)

        def missing(node, path):
            if isinstance(node, dict) and leaf <= set(node):
                return []
            if isinstance(node, dict) and node and all(isinstance(v, dict) for v in node.values()):
                out = []
                for k, v in node.items():
                    out += missing(v, path + [k])
                return out
            return [(path, sorted(leaf - set(node)) if isinstance(node, dict) else sorted(leaf))]

        for tname, t in sorted(rt[kind].items()):
            miss = missing(t, [tname])
            ctx.instance("C05-P9", "%s/%s has %s" % (kind, tname, sorted(leaf)), "synrbl/SynChemImputer/reaction_template.json", ok=not miss)
            for path, keys in miss:
                ctx.finding("C05-P9", "reaction_template:%s/%s:missing:%s" % (kind, "/".join(path), ",".join(keys)), "synrbl/SynChemImputer/reaction_template.json", "template %s/%s lacks the key(s) %s that %s subscripts: the KeyError leaves the pipeline through the batch handler and every row of the batch is lost" % (kind, "/".join(path), keys, modname.split(".")[-1]))
        for cls_, names in sorted(ct[kind].items()):
            unknown = [x for x in names if x not in rt[kind]]
            ctx.instance("C05-P9", "%s/%s -> %s" % (kind, cls_, names), "synrbl/SynChemImputer/compounds_template.json", ok=not unknown)
            for x in unknown:
                ctx.finding("C05-P9", "compounds_template:%s/%s:unknown-template:%s" % (kind, cls_, x), "synrbl/SynChemImputer/compounds_template.json", "compound class %s/%s names template %s, which reaction_template.json does not define" % (kind, cls_, x))
        if "other" not in ct[kind]:
            ctx.finding("C05-P9", "compounds_template:%s:no-fallback" % kind, "synrbl/SynChemImputer/compounds_template.json", "the fallback class 'other' that the curation code subscripts is missing")


def check(ctx) -> None:
    pl = Pipeline(ctx)
    rule_p9(ctx)
    rule_p1(ctx, pl)
    rule_p2(ctx)
    rule_p3(ctx)
    rule_p4(ctx)
    # P6: every result row describes its own input: positional ids / id maps are coherent (shared with C06-B2)
    from . import c06

    c06.rule_b2(ctx, pl, "C05-P6")
    # P8: the recorded input of a row is its own reaction: a copy of the same frame's column, taken after the rows were
    # selected and renumbered (shared with C02-T2)
    from . import c02

    c02.rule_t2(ctx, pl, "C05-P8")
    # P10: nothing a batch leaves behind is applied to the rows of a later batch: no container that outlives the batch is
    # mutated on the pipeline path (shared with C06-B4)
    c06.rule_b4(ctx, ctx.pipeline_reachable(), "C05-P10")
    rule_p11(ctx)
    # P12: the output file carries every row under its own columns: chunks are not appended under the column layout of
    # an earlier chunk (shared with C06-B10)
    c06.rule_b10(ctx, "C05-P12")
    rule_p13(ctx)
    # P16: the front ends read every record as written: no CSV option that consumes characters of a cell ('#' as a
    # comment sign cuts a nitrile in two, the row then fails to parse and every later row shifts; shared with C02-T8)
    c02.rule_t8(ctx, "C05-P16")
    # P17: a batch served from the cache is the batch that was asked for: the key covers the whole rows (shared with
    # C12-K8)
    from . import c12

    c12.rule_k8(ctx, "C05-P17")
    # P15: values computed row by row stay with their row when they are put back into a frame (label alignment)
    c06.rule_index_alignment(ctx, "C05-P15")
    # P14: a fault while one reaction is worked on stays with that reaction (shared with C06-B14)
    c06.rule_b14(ctx, ctx.pipeline_reachable(), "C05-P14")


def rule_p13(ctx, rule_id: str = "C05-P13") -> None:
    """One record of a CSV dataset is one row: the file is split into records and fields by fixed rules (the csv module's
    default dialect, the one pandas and the csv writers produce), not by rules guessed from the head of the file.  A
    sniffed dialect fixes `doublequote` / `quotechar` from the sample, so a record further down that quotes differently
    is split into several rows or shifted fields."""
    ctx.rule(rule_id, "the CSV dataset reader parses under fixed rules: no dialect or separator derived from the file's content", 1)
    prog = ctx.prog
    f = prog.func("synrbl.SynUtils.batching.csv_reader")
    readers = [c for c in calls(f) if unparse(c.func).split(".")[-1] in ("reader", "DictReader") and unparse(c.func).split(".")[0] in ("csv", "reader", "DictReader")]
    ctx.require(readers, "csv_reader no longer reads through the csv module")
    reach = ctx.res.reachable([f.qualname], ctx.graph)
    sniff = []
    for q in sorted(reach):
        g = prog.functions.get(q)
        if g is None:
            continue
        for c in calls(g):
            t = unparse(c.func)
            if t.split(".")[-1] in ("Sniffer", "sniff", "has_header"):
                sniff.append((g, c))
    for c in readers:
        opts = [k for k in c.keywords if k.arg in ("dialect", "delimiter", "quotechar", "doublequote", "escapechar", "quoting", "skipinitialspace", "lineterminator", "strict")] + [ast.keyword(arg="dialect", value=a) for a in c.args[1:2]]
        derived = []
        for k in opts:
            try:
                fold_in(f, k.value, prog)
            except Unfoldable:
                if not (isinstance(k.value, ast.Attribute) and unparse(k.value).startswith("csv.")) and not (isinstance(k.value, ast.Constant)):
                    derived.append(k)
        bad = bool(derived) and bool(sniff) or any(isinstance(x, ast.Call) and unparse(x.func).split(".")[-1] in ("sniff", "Sniffer") for k in opts for x in ast.walk(k.value))
        ctx.instance(rule_id, "csv_reader: %s with parsing options %s; content sniffing reachable: %s" % (unparse(c.func), [k.arg for k in opts], bool(sniff)), f.loc(c), ok=not bad)
        if bad:
            where = sniff[0][0].loc(sniff[0][1]) if sniff else f.loc(c)
            ctx.finding(rule_id, "SynUtils.batching.csv_reader:sniffed-dialect", where, "the CSV dataset is parsed under a dialect guessed from the head of the file (%s): quoting rules fixed from the sample split or shift a later record that quotes differently, so records and result rows no longer correspond one to one" % ", ".join(k.arg for k in derived or opts))


def rule_p11(ctx, rule_id: str = "C05-P11") -> None:
    """The command line hands every row it read to the Balancer: the rows argument of `rebalance` is the list the reader
    returned - not a filtered copy of it (a validity pre-check that drops rows makes a row's presence depend on how it
    is spelled, and the documented behaviour for an unusable first row is to refuse the run)."""
    ctx.rule(rule_id, "cmd_run.impute passes the rows it read to rebalance unfiltered", 1)
    prog = ctx.prog
    imp = prog.func("synrbl.SynCmd.cmd_run.impute")
    rcalls = [c for c in calls(imp) if isinstance(c.func, ast.Attribute) and c.func.attr == "rebalance" and c.args]
    ctx.require(rcalls, "impute no longer calls rebalance")
    for c in rcalls:
        arg = c.args[0]
        filt = None
        seen = set()
        work = [arg]
        while work:
            e = work.pop()
            if isinstance(e, ast.Name):
                if e.id in seen:
                    continue
                seen.add(e.id)
                for _st, v, _i in assignments_to(imp, e.id):
                    work.append(v)
                # filled by a loop with a conditional append
                for n in own_nodes(imp.node):
                    if isinstance(n, ast.Call) and isinstance(n.func, ast.Attribute) and n.func.attr == "append" and isinstance(n.func.value, ast.Name) and n.func.value.id == e.id:
                        cur = getattr(n, "_parent", None)
                        while cur is not None and cur is not imp.node:
                            if isinstance(cur, ast.If):
                                filt = cur
                            cur = getattr(cur, "_parent", None)
            elif isinstance(e, (ast.ListComp, ast.GeneratorExp)):
                if any(g.ifs for g in e.generators):
                    filt = e
                for g in e.generators:
                    work.append(g.iter)
            elif isinstance(e, ast.Call):
                if getattr(e.func, "id", "") in ("list", "tuple") and e.args:
                    work.append(e.args[0])
                elif getattr(e.func, "id", "") == "filter":
                    filt = e
        ctx.instance(rule_id, "rebalance(%s): rows filtered before the call: %s" % (unparse(arg)[:30], filt is not None), imp.loc(c), ok=filt is None)
        if filt is not None:
            ctx.finding(rule_id, "SynCmd.cmd_run.impute:rows-filtered", imp.loc(c), "the rows handed to rebalance are a filtered copy of the rows that were read (%s): whether a reaction gets a result row then depends on a pre-check of its text (atom-map numbers, characters), not on the reaction" % unparse(filt)[:60])
