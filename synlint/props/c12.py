"""C12 - result caching is transparent (key completeness, crash-safe entries)."""

from __future__ import annotations

import ast
from typing import Dict, List, Optional, Set, Tuple

from ..cfg import CFG
from ..model import Func, own_nodes, unparse
from ..util import assignments_to, calls, const_str, names_in

EXPLANATION = (
    "Decides the two structural causes named by C12: (K1) key completeness - let Cfg be the Balancer attributes the caller can set "
    "(constructor parameters, public attributes) that are read, directly or through a stage object constructed from them, in the "
    "region a cache hit bypasses (__run_pipeline and the Balancer methods it calls); every element of Cfg must flow into the argument "
    "of CacheManager.get_hash_key in __try_cache (followed through dict/list/tuple displays and the return value of a helper method "
    "of the class); n_jobs and batch_size are excluded by rule (C06 claims they do not affect rows); (K2) crash-safe entries - every "
    "write of a file the directory scan accepts as an entry is atomic (written under a name the scan rejects, then os.replace / "
    "os.rename) OR every read treats undecodable content as a miss (handler for ValueError/OSError around the load whose value makes "
    "the caller run the pipeline).  JSON round-trip fidelity of cached rows is NOT decided."
    ' K1 requires public (re-assignable) attributes to be read when the key is computed (a snapshot taken in __init__ goes stale), counts helpers that shape the stored payload as part of the region and a public attribute as itself; K2 recognises gzip/bz2/lzma/io open calls and demands EOFError coverage before it calls a compressed reader tolerant.'
    ' (K5) the rows handed to the pipeline are an unmodified copy of the batch the key was computed from.'
    ' (K6) the rows to return are bound before the cache entry is written; (K7) the key hashes a serialisation of the payload itself.'
    ' (K8) the rows part of the hashed payload is the whole batch, not a projection of its rows. (K9) every value a stage stores in a result row survives a JSON round trip (no tuple / set), followed through locals and tuple-returning callees.'
    ' (K7) also: the key is the whole digest, not a slice of it. (K10) a Balancer setting that names a file read by a stage enters the key by content, not by path.'
    ' (K3) also: the rows stored in an entry are the object the pipeline call was bound to, not a re-shaped copy.'
)
ASSUMPTIONS = ["os.replace is atomic on the cache file system", "sha256 collisions are ignored"]

BAL = "synrbl.balancing.Balancer"
CM = "synrbl.SynUtils.batching.CacheManager"
EXCLUDED = {"n_jobs": "claimed not to affect rows (C06)", "batch_size": "claimed not to affect rows (C06)", "cache": "cache control itself", "cache_dir": "cache control itself"}


def _self_attr_loads(f: Func) -> List[ast.Attribute]:
    if not f.params:
        return []
    s = f.params[0]
    return [n for n in own_nodes(f.node) if isinstance(n, ast.Attribute) and isinstance(n.value, ast.Name) and n.value.id == s and isinstance(n.ctx, ast.Load)]


from ..util import influences_result as _influences_result


def rule_k1(ctx, rule_id: str = "C12-K1") -> None:
    ctx.rule(rule_id, "every caller-settable attribute read in the bypassed region flows into the hashed payload", 4 if rule_id == "C12-K1" else 2)
    prog = ctx.prog
    cls = prog.cls(BAL)
    init = cls.methods["__init__"]
    run = prog.func(BAL + ".__run_pipeline")
    trycache = prog.func(BAL + ".__try_cache")
    # methods of the class reachable from __run_pipeline
    region: Set[str] = set()
    work = [run]
    while work:
        f = work.pop()
        if f.qualname in region:
            continue
        region.add(f.qualname)
        for c in calls(f):
            tgt = ctx.res.resolve_callee(c, f)
            if tgt and tgt[0] == "func" and tgt[1] in prog.functions and prog.functions[tgt[1]].cls is cls:
                work.append(prog.functions[tgt[1]])
    # what is written to the cache is part of what a later run returns: helpers that shape the
    # stored payload belong to the region as well
    payload_reads: List[Tuple[Func, ast.Attribute]] = []
    for m in cls.methods.values():
        for c in calls(m):
            if isinstance(c.func, ast.Attribute) and c.func.attr == "write_cache" and len(c.args) >= 2 and m.params:
                # the payload expression and everything its locals are computed from (backward slice inside m)
                exprs, seen_n, todo = [c.args[1]], set(), [c.args[1]]
                while todo:
                    e_ = todo.pop()
                    for nm in names_in(e_):
                        if nm in seen_n or nm in m.params:
                            continue
                        seen_n.add(nm)
                        for _st, v_, _i in assignments_to(m, nm):
                            if isinstance(v_, ast.Call) and (ctx.res.resolve_callee(v_, m) or ("", ""))[1].endswith(".__run_pipeline"):
                                continue  # the pipeline result itself: its reads are the region's
                            exprs.append(v_)
                            todo.append(v_)
                for x in [y for e_ in exprs for y in ast.walk(e_)]:
                    if isinstance(x, ast.Attribute) and isinstance(x.value, ast.Name) and x.value.id == m.params[0]:
                        par = getattr(x, "_parent", None)
                        if isinstance(par, ast.Call) and par.func is x:
                            h = prog.lookup_method(cls, x.attr)
                            if h is not None:
                                work2 = [h]
                                while work2:
                                    g = work2.pop()
                                    if g.qualname in region:
                                        continue
                                    region.add(g.qualname)
                                    for cc in calls(g):
                                        t = ctx.res.resolve_callee(cc, g)
                                        if t and t[0] == "func" and t[1] in prog.functions and prog.functions[t[1]].cls is cls:
                                            work2.append(prog.functions[t[1]])
                        elif isinstance(x.ctx, ast.Load):
                            payload_reads.append((m, x))
    # private attribute -> constructor parameter it stores
    selfname = init.params[0]
    ctor_params = init.params[1:] + init.kwonly
    source: Dict[str, Set[str]] = {}
    public: Set[str] = set()
    stage_args: Dict[str, Set[str]] = {}
    for n in own_nodes(init.node):
        if isinstance(n, ast.Assign):
            for t in n.targets:
                if isinstance(t, ast.Attribute) and isinstance(t.value, ast.Name) and t.value.id == selfname:
                    used = {x for x in names_in(n.value) if x in ctor_params}
                    used_attrs = {a.attr for a in ast.walk(n.value) if isinstance(a, ast.Attribute) and isinstance(a.value, ast.Name) and a.value.id == selfname}
                    if isinstance(n.value, ast.Call) and ctx.ev._ctor_of(n.value, init) is not None:
                        stage_args[t.attr] = used | used_attrs
                    else:
                        source.setdefault(t.attr, set()).update(used)
                        if not t.attr.startswith("_"):
                            public.add(t.attr)
    # reads in the region
    read: Dict[str, str] = {}
    region_reads = [(prog.functions[q], a) for q in sorted(region) for a in _self_attr_loads(prog.functions[q])] + payload_reads
    for f, a in region_reads:
        if True:
            if not _influences_result(a):
                continue
            if a.attr in stage_args:
                for x in stage_args[a.attr]:
                    for root in (source.get(x) or {x}):
                        read.setdefault(root if root in ctor_params else x, "%s via stage self.%s" % (f.loc(a), a.attr))
            elif a.attr in source or a.attr in public:
                roots = source.get(a.attr) or set()
                for r in roots:
                    read.setdefault(r, "%s as self.%s" % (f.loc(a), a.attr))
                if not roots or (a.attr in public and a.attr not in ctor_params):
                    # a public attribute can be re-assigned as a whole: it counts itself
                    read.setdefault(a.attr, "%s as self.%s" % (f.loc(a), a.attr))
    cfg_attrs = {k: v for k, v in read.items() if (k in ctor_params or k in public) and k not in EXCLUDED}
    # a column-name parameter whose column is not among the returned columns
    # (Balancer.columns) cannot change a returned row: excluded, with the reason
    cols = ctx.balancer.get("columns")
    returned = set()
    for c in cols:
        if c.kind == "list":
            returned |= {x for x in c.value}
    dropped = {}
    for k in list(cfg_attrs):
        if k.endswith("_col"):
            vals = set()
            for a, roots in source.items():
                if k in roots:
                    vals |= set(ctx.balancer.get(a))
            if vals and not (vals & returned):
                dropped[k] = "internal column, not among the returned columns"
                del cfg_attrs[k]
    if dropped:
        ctx.note("not required in the key: %s" % dropped)
    ctx.require(len(cfg_attrs) >= 2, "fewer than 2 configuration attributes are read in the bypassed region: %s" % sorted(read))
    ctx.note("configuration read in the bypassed region: %s; excluded by rule: %s" % (sorted(cfg_attrs), {k: v for k, v in EXCLUDED.items() if k in read}))
    # what flows into the hash
    hashed: Set[str] = set()
    stage_hashed: Set[str] = set()
    hash_calls = [c for c in calls(trycache) if isinstance(c.func, ast.Attribute) and c.func.attr == "get_hash_key"]
    ctx.require(hash_calls, "__try_cache no longer calls get_hash_key")
    batch_in = False
    for hc in hash_calls:
        exprs = list(hc.args) + [k.value for k in hc.keywords]
        seen_helpers = set()
        while exprs:
            e = exprs.pop()
            for x in ast.walk(e):
                if isinstance(x, ast.Attribute) and isinstance(x.value, ast.Name) and x.value.id == trycache.params[0] and isinstance(x.ctx, ast.Load):
                    par = getattr(x, "_parent", None)
                    if isinstance(par, ast.Call) and par.func is x:
                        # helper method of the class: follow its returns (one level)
                        m = prog.lookup_method(cls, x.attr)
                        if m is not None and m.qualname not in seen_helpers:
                            seen_helpers.add(m.qualname)
                            # everything the helper reads from the object can end up in what it returns: direct
                            # returns, locals it builds up (`config[k] = self.x` under a condition), values of stage
                            # objects (`self.rb_method.ban_atoms`, traced to the constructor parameter they hold)
                            from ..values import Env as _Env

                            henv = _Env(func=m, params={}, inst=ctx.balancer)
                            for y in own_nodes(m.node):
                                if isinstance(y, ast.Attribute) and isinstance(y.value, ast.Name) and y.value.id == m.params[0] and isinstance(y.ctx, ast.Load):
                                    hashed.add(y.attr)
                                    top = y
                                    while isinstance(getattr(top, "_parent", None), ast.Attribute) and top._parent.value is top:
                                        top = top._parent
                                    gp = getattr(top, "_parent", None)
                                    if isinstance(gp, ast.Call) and getattr(gp.func, "id", "") == "getattr" and gp.args and gp.args[0] is top:
                                        top = gp  # getattr(self.stage, "name", default)
                                    gp2 = getattr(top, "_parent", None)
                                    if top is not y and isinstance(top, ast.Attribute) and isinstance(gp2, ast.Call) and gp2.func is top:
                                        # a method of the stage object (`self.mcs_search.timeout_config()`): what that
                                        # method reads from its object is what can end up in the key
                                        tg = ctx.res.resolve_callee(gp2, m)
                                        g_ = prog.functions.get(tg[1]) if tg and tg[0] == "func" else None
                                        if g_ is not None and g_.params:
                                            for z in own_nodes(g_.node):
                                                if isinstance(z, ast.Attribute) and isinstance(z.value, ast.Name) and z.value.id == g_.params[0] and isinstance(z.ctx, ast.Load):
                                                    probe = ast.Attribute(value=top.value, attr=z.attr, ctx=ast.Load())
                                                    for val in ctx.ev.eval(probe, henv):
                                                        if val.kind == "sym" and isinstance(val.value, str):
                                                            stage_hashed.add(val.value.split(".", 1)[-1])
                                    elif top is not y:
                                        for val in ctx.ev.eval(top, henv):
                                            if val.kind == "sym" and isinstance(val.value, str):
                                                stage_hashed.add(val.value.split(".", 1)[-1])
                    else:
                        hashed.add(x.attr)
                elif isinstance(x, ast.Name) and x.id in trycache.params:
                    if x.id == trycache.params[-1] or x.id == "batch":
                        # the rows themselves must be hashed, not a digest such as len(batch)
                        cur, ok_flow = x, True
                        par = getattr(cur, "_parent", None)
                        while par is not None and par is not hc:
                            if isinstance(par, ast.Call) and unparse(par.func).split(".")[-1] not in ("list", "tuple", "sorted", "deepcopy", "copy", "dumps"):
                                ok_flow = False
                            cur, par = par, getattr(par, "_parent", None)
                        if ok_flow:
                            batch_in = True
    ctx.instance(rule_id, "hash payload contains the batch rows", trycache.loc(hash_calls[0]), ok=batch_in)
    if not batch_in:
        ctx.finding(rule_id, "Balancer:cache-key:batch", trycache.loc(hash_calls[0]), "the batch rows do not flow into the cache key")
    hashed_roots: Set[str] = set(stage_hashed)
    for a in hashed:
        if a in stage_args:
            continue  # a stage object as such is not a value; what is read from it is in stage_hashed
        hashed_roots.add(a)
        hashed_roots |= source.get(a, set())
    for attr, where in sorted(cfg_attrs.items()):
        # a public attribute can be re-assigned after construction: it has to be read
        # when the key is computed; a snapshot taken in __init__ goes stale
        ok = attr in hashed if attr in public else attr in hashed_roots
        ctx.instance(rule_id, "attribute %s (read at %s) flows into the cache key%s" % (attr, where, " at hash time" if attr in public else ""), trycache.loc(hash_calls[0]), ok=ok)
        if not ok:
            ctx.finding(
                rule_id,
                "Balancer:cache-key:%s" % attr,
                trycache.loc(hash_calls[0]),
                "configuration %r changes what the pipeline returns (read at %s) but is not part of the cache key, so a cache written under one value is served under another" % (attr, where),
            )


COMPRESSED = ("gzip", "bz2", "lzma")


def _open_mode(c: ast.Call):
    """Mode string of an ``open`` / ``gzip.open`` / ``io.open`` ... call, else None."""
    d = unparse(c.func)
    if d == "open" or (d.endswith(".open") and d.split(".")[0] in COMPRESSED + ("io", "codecs")):
        m = c.args[1] if len(c.args) >= 2 else next((k.value for k in c.keywords if k.arg == "mode"), None)
        if m is None:
            return "r"
        return const_str(m)
    return None


def rule_k2(ctx) -> None:
    ctx.rule("C12-K2", "cache entries are written atomically or read tolerantly", 3)
    prog = ctx.prog
    cls = prog.cls(CM)
    write = prog.func(CM + ".write_cache")
    load = prog.func(CM + ".load_cache")
    init = prog.func(CM + ".__init__")
    # which names does the scan accept?  extension equality with cache_ext
    scan_ext = "cache_ext" in unparse(init.node) and "splitext" in unparse(init.node)
    ctx.instance("C12-K2", "directory scan accepts files by extension == cache_ext", init.loc(), ok=scan_ext)
    ctx.require(scan_ext, "CacheManager.__init__ no longer selects entries by extension")
    ext_default = None
    d = init.param_defaults().get("cache_ext")
    if d is not None:
        ext_default = const_str(d)
    # ---- writes
    atomic = True
    opens = []
    for c in calls(write):
        if _open_mode(c) is not None and any(ch in _open_mode(c) for ch in "wxa"):
            opens.append(c)
    ctx.require(opens, "write_cache no longer opens a file for writing")
    why_not = ""
    for o in opens:
        target = o.args[0]
        tname = target.id if isinstance(target, ast.Name) else None
        renamed = False
        final_arg = None
        for c in calls(write):
            if unparse(c.func) in ("os.replace", "os.rename", "shutil.move") and len(c.args) == 2 and unparse(c.args[0]) == unparse(target) and c.lineno > o.lineno:
                renamed = True
                final_arg = c.args[1]
        temp_rejected = False
        if tname:
            for _, v, _i in assignments_to(write, tname):
                t = unparse(v)
                # "<final>.tmp" style: constant suffix appended that is not the entry extension
                lits = [x.value for x in ast.walk(v) if isinstance(x, ast.Constant) and isinstance(x.value, str)]
                suffixes = [l for l in lits if l.strip("{}").startswith(".") or l.startswith("{}.")]
                for l in lits:
                    tail = l.split(".")[-1].strip("{}")
                    if tail and tail != (ext_default or "cache") and "." in l:
                        temp_rejected = True
                if "mkstemp" in t or "NamedTemporaryFile" in t:
                    temp_rejected = True
        ok = renamed and temp_rejected
        if not ok:
            atomic = False
            why_not = "open(%s, 'w') writes %s" % (unparse(target), "the final entry name in place" if not renamed else "a temporary name that the scan would accept")
    # ---- reads
    tolerant = False
    lcfg = CFG(load.node)
    compressed_read = any(unparse(c.func).split(".")[0] in COMPRESSED and _open_mode(c) is not None for c in calls(load))
    for c in calls(load):
        if unparse(c.func) in ("json.load", "json.loads"):
            nid = lcfg.node_of(c)
            # enclosing try with a handler that covers decoding errors
            cur = getattr(c, "_parent", None)
            while cur is not None and cur is not load.node:
                if isinstance(cur, ast.Try):
                    for h in cur.handlers:
                        names = set()
                        if h.type is None:
                            names = {"BaseException"}
                        elif isinstance(h.type, ast.Tuple):
                            names = {unparse(x).split(".")[-1] for x in h.type.elts}
                        else:
                            names = {unparse(h.type).split(".")[-1]}
                        covers = bool(names & {"Exception", "BaseException", "ValueError", "JSONDecodeError"})
                        if compressed_read and not (names & {"Exception", "BaseException"} or {"EOFError", "OSError"} <= names or {"EOFError", "IOError"} <= names):
                            covers = False  # a truncated compressed stream raises EOFError, not ValueError
                        reraises = any(isinstance(x, ast.Raise) for x in ast.walk(h))
                        miss = any(isinstance(x, ast.Return) and isinstance(x.value, (ast.Dict, ast.Call)) and unparse(x.value) in ("{}", "dict()") for x in ast.walk(h))
                        if covers and not reraises and miss:
                            tolerant = True
                cur = getattr(cur, "_parent", None)
    # a tolerant read only protects against torn writes when the entry is ONE
    # JSON document (no proper prefix of a document decodes); line- or
    # record-wise formats have valid prefixes
    dumps = [c for c in calls(write) if unparse(c.func) in ("json.dump",)]
    raw_writes = [c for c in calls(write) if isinstance(c.func, ast.Attribute) and c.func.attr in ("write", "writelines")]
    single_doc_write = len(dumps) == 1 and not raw_writes and not any(isinstance(x, (ast.For, ast.While)) for x in own_nodes(write.node))
    loads = [c for c in calls(load) if unparse(c.func) in ("json.load",)]
    line_reads = [c for c in calls(load) if isinstance(c.func, ast.Attribute) and c.func.attr in ("readline", "readlines")] + [x for x in own_nodes(load.node) if isinstance(x, (ast.For, ast.comprehension))]
    single_doc_read = len(loads) == 1 and not line_reads
    if tolerant and not (single_doc_write and single_doc_read):
        ctx.note("load_cache has a tolerant handler but the entry is not a single JSON document (json.dump calls: %d, raw writes: %d, line-wise reads: %d): truncated prefixes can decode" % (len(dumps), len(raw_writes), len(line_reads)))
        tolerant = False
    # caller treats {} as a miss: result is None -> pipeline
    tc = prog.func(BAL + ".__try_cache")
    rb = prog.func(BAL + ".__rebalance_batch")
    # a miss ({}): __try_cache reads the rows with .get(<key>[, None]) and __rebalance_batch runs the pipeline when they are None
    gets = [c for c in calls(tc) if isinstance(c.func, ast.Attribute) and c.func.attr == "get" and c.args and const_str(c.args[0]) is not None and (len(c.args) == 1 or (isinstance(c.args[1], ast.Constant) and c.args[1].value is None))]
    none_tests = [n for n in own_nodes(rb.node) if isinstance(n, ast.Compare) and len(n.ops) == 1 and isinstance(n.ops[0], ast.Is) and isinstance(n.comparators[0], ast.Constant) and n.comparators[0].value is None]
    runs = [c for c in calls(rb) if (ctx.res.resolve_callee(c, rb) or (None, ""))[1] == BAL + ".__run_pipeline"]
    rcfg = CFG(rb.node)
    guarded_run = any(any(isinstance(g, ast.Compare) and g in none_tests or any(x in none_tests for x in ast.walk(g)) for g, _pol in rcfg.guards(rcfg.node_of(c))) for c in runs)
    miss_ok = len(gets) >= 1 and bool(runs) and (guarded_run or not rcfg.guards(rcfg.node_of(runs[0])))
    ctx.instance("C12-K2", "write_cache is atomic (temp name rejected by the scan + os.replace)", write.loc(), ok=atomic)
    ctx.instance("C12-K2", "load_cache treats undecodable entries as a miss and the caller then runs the pipeline", load.loc(), ok=tolerant and miss_ok)
    if not (atomic or (tolerant and miss_ok)):
        ctx.finding(
            "C12-K2",
            "CacheManager.write_cache/load_cache:crash-safety",
            write.loc(opens[0]),
            "%s and load_cache has no handler that turns an undecodable entry into a miss; a run killed during the write leaves a truncated entry that the next run trips over (JSONDecodeError aborts rebalance)" % why_not,
        )


def rule_k3(ctx, rule_id: str = "C12-K3") -> None:
    """What is stored must be what an uncached run would have produced for *any* later caller: the statistics written
    next to the rows are the dictionary the pipeline filled - unconditionally, not only when this caller asked for them."""
    ctx.rule(rule_id, "the stats stored in a cache entry are the dictionary handed to __run_pipeline, on every path", 1)
    prog = ctx.prog
    rb = prog.func(BAL + ".__rebalance_batch")
    runs = [c for c in calls(rb) if (ctx.res.resolve_callee(c, rb) or (None, ""))[1] == BAL + ".__run_pipeline"]
    writes = [c for c in calls(rb) if isinstance(c.func, ast.Attribute) and c.func.attr == "write_cache" and len(c.args) >= 2]
    ctx.require(runs and writes, "__rebalance_batch no longer runs the pipeline and writes the cache")
    runf = prog.func(BAL + ".__run_pipeline")
    for w in writes:
        payload = w.args[1]
        if isinstance(payload, ast.Name):
            pd_ = assignments_to(rb, payload.id)
            if len(pd_) == 1 and pd_[0][2] is None:
                payload = pd_[0][1]
        stored = None
        if isinstance(payload, ast.Dict):
            for k, v in zip(payload.keys, payload.values):
                if const_str(k) == "stats":
                    stored = v
        # the rows stored are the rows returned: the object the pipeline call was bound to, not a re-shaped copy (a
        # DataFrame round trip fills the keys a row does not have with NaN; the run that fills the cache returns the
        # original rows, every later run the padded ones)
        stored_rows = None
        if isinstance(payload, ast.Dict):
            for k, v in zip(payload.keys, payload.values):
                if const_str(k) == "result":
                    stored_rows = v
        if rule_id == "C12-K3" and stored_rows is not None:
            bound = set()
            for st_ in own_nodes(rb.node):
                if isinstance(st_, ast.Assign) and any(st_.value is r_ for r_ in runs):
                    bound |= {t.id for t in st_.targets if isinstance(t, ast.Name)}
            # plain copies of the bound name (`rows = result`) are the same object
            for _ in range(3):
                for st_ in own_nodes(rb.node):
                    if isinstance(st_, ast.Assign) and isinstance(st_.value, ast.Name) and st_.value.id in bound:
                        bound |= {t.id for t in st_.targets if isinstance(t, ast.Name)}
            okr = isinstance(stored_rows, ast.Name) and stored_rows.id in bound
            ctx.instance(rule_id, "entry stores result=%s; the pipeline result is bound to %s" % (unparse(stored_rows)[:40], sorted(bound)), rb.loc(w), ok=okr)
            if not okr:
                ctx.finding(rule_id, "Balancer.__rebalance_batch:stored-rows", rb.loc(w), "the cache entry stores %s, not the rows the pipeline returned (%s): the run that fills the cache returns the original rows, a run served from it the re-shaped ones (a DataFrame round trip adds every missing key with NaN), so cached and uncached results differ" % (unparse(stored_rows)[:50], sorted(bound)))
        for r in runs:
            arg = r.args[1] if len(r.args) >= 2 else next((k.value for k in r.keywords if k.arg == (runf.params[2] if len(runf.params) > 2 else "stats")), None)
            ok = isinstance(stored, ast.Name) and isinstance(arg, ast.Name) and stored.id == arg.id
            ctx.instance(rule_id, "entry stores stats=%s; pipeline is given %s" % (unparse(stored) if stored is not None else None, unparse(arg) if arg is not None else None), rb.loc(r), ok=ok)
            if not ok:
                ctx.finding(rule_id, "Balancer.__rebalance_batch:stored-stats", rb.loc(r), "the pipeline is handed %s while the cache entry stores %s: the entry then does not hold the counts of exactly this batch (nothing when the caller did not ask for statistics, running totals when the caller's dictionary is stored), and a later run that hits this entry reports wrong counts" % (unparse(arg) if arg is not None else "no stats dictionary", unparse(stored) if stored is not None else "something else"))


def rule_k4(ctx) -> None:
    """A cache hit hands out data decoded from the entry file in that call: no object that an earlier caller also holds."""
    ctx.rule("C12-K4", "load_cache returns what it decoded from the file in this call (or the empty miss value)", 2)
    prog = ctx.prog
    load = prog.func(CM + ".load_cache")
    decoded = set()
    for n in own_nodes(load.node):
        if isinstance(n, ast.Assign) and len(n.targets) == 1 and isinstance(n.targets[0], ast.Name) and isinstance(n.value, ast.Call) and unparse(n.value.func) in ("json.load", "json.loads"):
            decoded.add(n.targets[0].id)
    for r in [n for n in own_nodes(load.node) if isinstance(n, ast.Return) and n.value is not None]:
        v = r.value

        def fresh(e) -> bool:
            if isinstance(e, ast.IfExp):
                return fresh(e.body) and fresh(e.orelse)
            return (isinstance(e, ast.Name) and e.id in decoded) or (isinstance(e, ast.Dict) and not e.keys) or (isinstance(e, ast.Call) and unparse(e.func) in ("dict", "json.load", "json.loads"))

        ok = fresh(v)
        ctx.instance("C12-K4", "load_cache: return %s" % unparse(v)[:40], load.loc(r), ok=ok)
        if not ok:
            ctx.finding("C12-K4", "CacheManager.load_cache:returns-held-object", load.loc(r), "load_cache returns %s, an object kept by the manager, instead of freshly decoded data: rows handed to an earlier caller (and edited there) are served again on the next hit" % unparse(v)[:40])


def check(ctx) -> None:
    rule_k1(ctx)
    rule_k2(ctx)
    rule_k3(ctx)
    rule_k4(ctx)
    rule_k5(ctx)
    rule_k8(ctx)
    rule_k9(ctx)
    rule_k10(ctx)


def rule_k8(ctx, rule_id: str = "C12-K8") -> None:
    """Input columns the pipeline does not know pass through to the output rows (`solved_by`, `confidence`, `rules`,
    `issue` survive preprocessing unless a stage overwrites them), so two batches with equal reactions and different
    other columns have different results.  The key has to cover the whole rows: the rows part of the hashed payload
    is the batch itself (or a copy), not a projection to some of its columns."""
    ctx.rule(rule_id, "the rows part of the hashed payload is the whole batch, not a projection of its rows", 1)
    prog = ctx.prog
    n = 0
    for q, f in sorted(prog.functions.items()):
        if not q.startswith("synrbl.balancing.Balancer."):
            continue
        for c in calls(f):
            if not (isinstance(c.func, ast.Attribute) and c.func.attr == "get_hash_key" and c.args):
                continue
            batch_ps = [p for p in f.params[1:]]

            def mentions_rows(e, depth=0) -> bool:
                for x in ast.walk(e):
                    if isinstance(x, ast.Name) and x.id in batch_ps:
                        return True
                    if isinstance(x, ast.Name) and depth < 3:
                        for _s, v, _i in assignments_to(f, x.id):
                            if mentions_rows(v, depth + 1):
                                return True
                return False

            def whole(e, depth=0) -> bool:
                if isinstance(e, ast.Name) and e.id in batch_ps:
                    return True
                if isinstance(e, ast.Name) and depth < 3:
                    d_ = assignments_to(f, e.id)
                    return bool(d_) and all(i is None and whole(v, depth + 1) for _s, v, i in d_)
                if isinstance(e, ast.Call) and unparse(e.func).split(".")[-1] in ("deepcopy", "copy", "list") and len(e.args) == 1:
                    return whole(e.args[0], depth)
                if isinstance(e, ast.ListComp) and len(e.generators) == 1 and not e.generators[0].ifs and whole(e.generators[0].iter, depth):
                    el, tv = e.elt, e.generators[0].target
                    return isinstance(tv, ast.Name) and ((isinstance(el, ast.Name) and el.id == tv.id) or (isinstance(el, ast.Call) and unparse(el.func).split(".")[-1] in ("deepcopy", "copy", "dict") and len(el.args) == 1 and isinstance(el.args[0], ast.Name) and el.args[0].id == tv.id))
                return False

            payload = c.args[0]
            for _ in range(3):
                if isinstance(payload, ast.Name):
                    d_ = assignments_to(f, payload.id)
                    if len(d_) == 1 and d_[0][2] is None:
                        payload = d_[0][1]
                        continue
                break
            parts = list(payload.values) if isinstance(payload, ast.Dict) else (list(payload.elts) if isinstance(payload, (ast.List, ast.Tuple)) else [payload])
            rows_parts = [v for v in parts if mentions_rows(v)]
            n += 1
            ok = bool(rows_parts) and all(whole(v) for v in rows_parts)
            ctx.instance(rule_id, "%s: rows part of the key payload: %s" % (f.name, [unparse(v)[:50] for v in rows_parts] or "none"), f.loc(c), ok=ok)
            if not ok:
                bad = next((v for v in rows_parts if not whole(v)), None)
                ctx.finding(rule_id, "Balancer.%s:key-over-projection" % f.name, f.loc(c), "the cache key covers %s instead of the whole rows: input columns the pipeline hands through to the output (solved_by, confidence, rules, issue, pass-through data) differ between two batches with the same reactions, and the later one is served the earlier one's rows" % (unparse(bad)[:60] if bad is not None else "no rows at all"))
    ctx.require(n >= 1, "no call of get_hash_key found in the Balancer")


def rule_k9(ctx) -> None:
    """A cache entry is JSON: what comes back is what `json.loads(json.dumps(rows))` gives.  Served rows equal computed
    rows only if every value a stage stores in a row survives that round trip unchanged: strings, numbers, booleans,
    None, lists, string-keyed dicts.  A tuple comes back as a list, a set does not serialise at all."""
    from ..pipeline import Pipeline

    ctx.rule("C12-K9", "values the stages store in the result rows survive a JSON round trip (no tuple / set / frozenset)", 10)
    prog = ctx.prog
    pl = Pipeline(ctx)

    def origins(f, e, depth=0):
        """expressions a value may come from (locals, tuple-unpacked call results followed into the callee's returns)"""
        out = [(f, e)]
        if depth > 4:
            return out
        if isinstance(e, ast.Name):
            for _st, v, idx in assignments_to(f, e.id):
                if idx is None:
                    out += origins(f, v, depth + 1)
                elif isinstance(v, (ast.Tuple, ast.List)) and idx < len(v.elts):
                    out += origins(f, v.elts[idx], depth + 1)
                elif isinstance(v, ast.Call):
                    tgt = ctx.res.resolve_callee(v, f)
                    g = prog.functions.get(tgt[1]) if tgt and tgt[0] == "func" else None
                    if g is not None:
                        for r in [x for x in own_nodes(g.node) if isinstance(x, ast.Return) and isinstance(x.value, ast.Tuple) and idx < len(x.value.elts)]:
                            out += origins(g, r.value.elts[idx], depth + 1)
        elif isinstance(e, ast.IfExp):
            out += origins(f, e.body, depth + 1) + origins(f, e.orelse, depth + 1)
        elif isinstance(e, ast.Call):
            tgt = ctx.res.resolve_callee(e, f)
            g = prog.functions.get(tgt[1]) if tgt and tgt[0] == "func" else None
            if g is not None and g.qualname.startswith("synrbl."):
                for r in [x for x in own_nodes(g.node) if isinstance(x, ast.Return) and x.value is not None]:
                    out += origins(g, r.value, depth + 1)
        return out

    def unstable(e) -> Optional[str]:
        if isinstance(e, ast.Tuple):
            return "a tuple"
        if isinstance(e, (ast.Set, ast.SetComp)):
            return "a set"
        if isinstance(e, ast.Call) and isinstance(e.func, ast.Name) and e.func.id in ("tuple", "set", "frozenset"):
            return "a %s" % e.func.id
        return None

    n = 0
    for st in pl.stages:
        for s in st.stores:
            if s.kind != "assign" or s.value is None:
                continue
            n += 1
            bad = None
            for g, e in origins(s.func, s.value):
                u = unstable(e)
                if u:
                    bad = (g, e, u)
                    break
            ctx.instance("C12-K9", "stage %d %s: row[%s] = %s" % (st.index, st.label, "/".join(sorted(map(str, s.keytexts))) or "?", unparse(s.value)[:40]), s.where(), ok=bad is None, nontrivial=False)
            if bad is not None:
                g, e, u = bad
                ctx.finding("C12-K9", "%s:row-value-not-json-stable:%s" % (s.func.qualname.split("synrbl.", 1)[-1], "/".join(sorted(map(str, s.keytexts)))), s.where(), "the value stored in the row comes from %s (%s at %s): written to the JSON cache and read back it is a list, so a batch served from the cache returns rows that differ from the rows computed without cache" % (u, unparse(e)[:40], g.loc(e)))
    ctx.require(n >= 10, "fewer than 10 row stores found in the pipeline stages (%d)" % n)


def rule_k10(ctx) -> None:
    """A setting that names a *file the pipeline reads* (a rule database, a model) identifies results only together with
    the file's content: the key has to cover the content (a digest of the bytes), not the path - the file can be edited
    under the same name between two runs over one cache directory."""
    from ..util import param_attrs

    ctx.rule("C12-K10", "a Balancer setting that names a file read by a stage enters the cache key by content, not by path", 0)
    prog = ctx.prog
    cls = prog.cls(BAL)
    init = prog.lookup_method(cls, "__init__")
    READERS = {"open", "load_database", "load", "read_text", "read_bytes", "read_csv", "read_json", "load_model"}
    ctor_params = set(init.params[1:] + init.kwonly)
    # attributes of the Balancer that hold a ctor parameter (possibly wrapped: os.path.abspath(p))
    holds = {}
    for n in own_nodes(init.node):
        if isinstance(n, ast.Assign):
            for t in n.targets:
                if isinstance(t, ast.Attribute) and isinstance(t.value, ast.Name) and t.value.id == init.params[0]:
                    used = names_in(n.value) & ctor_params
                    if used and ctx.ev._ctor_of(n.value, init) is None:
                        holds[t.attr] = used
    file_params = {}
    for c in calls(init):
        sub = ctx.ev._ctor_of(c, init)
        if sub is None:
            continue
        scls = sub[0]
        sinit = prog.lookup_method(scls, "__init__")
        if sinit is None:
            continue
        sparams = sinit.params[1:]
        bound = [(sparams[i], a) for i, a in enumerate(c.args) if i < len(sparams)] + [(k.arg, k.value) for k in c.keywords if k.arg]
        for sp, a in bound:
            roots = set(names_in(a) & ctor_params)
            for x in ast.walk(a):
                if isinstance(x, ast.Attribute) and isinstance(x.value, ast.Name) and x.value.id == init.params[0] and x.attr in holds:
                    roots |= holds[x.attr]
            if not roots:
                continue
            names = param_attrs(scls, sp)
            reads = False
            for m in scls.methods.values():
                for cc in calls(m):
                    if unparse(cc.func).split(".")[-1] in READERS:
                        for y in [z for a_ in list(cc.args) + [k.value for k in cc.keywords] for z in ast.walk(a_)]:
                            if (isinstance(y, ast.Name) and y.id == sp and m is sinit) or (isinstance(y, ast.Attribute) and y.attr in names and y.attr != sp):
                                reads = True
                            if isinstance(y, ast.Name) and y.id in names and m is sinit:
                                reads = True
            if reads:
                for r in roots:
                    file_params[r] = "%s(%s=..)" % (scls.name, sp)
    if not file_params:
        ctx.note("C12-K10: no Balancer setting names a file that a stage reads on this tree")
        return
    cfgm = prog.lookup_method(cls, "__cache_config")
    ctx.require(cfgm is not None, "Balancer.__cache_config vanished")
    for p_, via in sorted(file_params.items()):
        attrs = {a for a, roots in holds.items() if p_ in roots} | {p_}
        vals = []
        for d in [x for x in own_nodes(cfgm.node) if isinstance(x, ast.Dict)]:
            for k, v in zip(d.keys, d.values):
                if any((isinstance(y, ast.Attribute) and y.attr in attrs) or (isinstance(y, ast.Name) and y.id in attrs) for y in ast.walk(v)):
                    vals.append(v)
        for st in [x for x in own_nodes(cfgm.node) if isinstance(x, ast.Assign) and any(isinstance(t, ast.Subscript) for t in x.targets)]:
            if any(isinstance(y, ast.Attribute) and y.attr in attrs for y in ast.walk(st.value)):
                vals.append(st.value)
        by_content = any(isinstance(y, ast.Call) and unparse(y.func).split(".")[-1] in ("sha256", "sha1", "md5", "blake2b", "hexdigest", "read", "read_bytes", "read_text", "file_digest", "crc32") for v in vals for y in ast.walk(v))
        ctx.instance("C12-K10", "setting %s names a file read by %s; key entry: %s" % (p_, via, [unparse(v)[:40] for v in vals] or "none"), cfgm.loc(), ok=by_content)
        if not by_content:
            ctx.finding("C12-K10", "Balancer:cache-key:file-by-path:%s" % p_, cfgm.loc(), "the setting %r names a file that %s reads, and the cache key covers %s - the path, not the content: after the file is edited under the same name a run over the same cache directory is served rows computed with the old file" % (p_, via, [unparse(v)[:40] for v in vals] or "nothing of it"))


def rule_k5(ctx) -> None:
    """An entry is found again by a key computed from the batch (and the settings, K1).  What the pipeline computes for
    the entry must therefore be a function of that batch alone: the rows handed to __run_pipeline are a copy of the
    hashed batch, with nothing written into them that the key does not cover (a running row offset, a timestamp)."""
    ctx.rule("C12-K5", "the rows handed to the pipeline are an unmodified copy of the batch the cache key was computed from", 1)
    prog = ctx.prog
    rb = prog.func("synrbl.balancing.Balancer.__rebalance_batch")
    pcalls = [c for c in calls(rb) if (ctx.res.resolve_callee(c, rb) or ("", ""))[1].endswith("Balancer.__run_pipeline")]
    ctx.require(pcalls, "__rebalance_batch no longer calls __run_pipeline")
    batch_p = rb.params[1] if len(rb.params) > 1 else None

    def is_copy_of_batch(e) -> bool:
        if isinstance(e, ast.Name) and e.id == batch_p:
            return True
        if isinstance(e, ast.Call) and unparse(e.func).split(".")[-1] in ("deepcopy", "copy", "list") and len(e.args) == 1:
            return is_copy_of_batch(e.args[0])
        if isinstance(e, ast.ListComp) and len(e.generators) == 1 and not e.generators[0].ifs and is_copy_of_batch(e.generators[0].iter):
            el = e.elt
            tv = e.generators[0].target
            return isinstance(tv, ast.Name) and ((isinstance(el, ast.Name) and el.id == tv.id) or (isinstance(el, ast.Call) and unparse(el.func).split(".")[-1] in ("deepcopy", "copy", "dict") and len(el.args) == 1 and isinstance(el.args[0], ast.Name) and el.args[0].id == tv.id))
        return False

    for c in pcalls:
        arg = c.args[0] if c.args else None
        # follow plain copies of a local (`rows = tmp`)
        for _ in range(4):
            if isinstance(arg, ast.Name) and arg.id != batch_p:
                d_ = assignments_to(rb, arg.id)
                if len(d_) == 1 and d_[0][2] is None and isinstance(d_[0][1], ast.Name):
                    arg = d_[0][1]
                    continue
            break
        ok, why = False, "no rows argument"
        if arg is not None and is_copy_of_batch(arg):
            ok, why = True, "a copy of the batch (%s)" % unparse(arg)[:40]
        elif isinstance(arg, ast.Name):
            defs = assignments_to(rb, arg.id)
            if defs and all(i is None and is_copy_of_batch(v) for _s, v, i in defs):
                # nothing is written into the copy (or its rows) before the pipeline gets it
                elems = {arg.id}
                for n in own_nodes(rb.node):
                    if isinstance(n, (ast.For, ast.comprehension)) and any(isinstance(x, ast.Name) and x.id == arg.id for x in ast.walk(n.iter)):
                        elems |= {x.id for x in ast.walk(n.target) if isinstance(x, ast.Name)}
                writes = []
                for n in own_nodes(rb.node):
                    if isinstance(n, (ast.Assign, ast.AugAssign)):
                        for t in (n.targets if isinstance(n, ast.Assign) else [n.target]):
                            base = t
                            while isinstance(base, ast.Subscript):
                                base = base.value
                            if base is not t and isinstance(base, ast.Name) and base.id in elems:
                                writes.append(n)
                    if isinstance(n, ast.Call) and isinstance(n.func, ast.Attribute) and n.func.attr in ("append", "extend", "insert", "update", "setdefault", "pop", "remove") and isinstance(n.func.value, ast.Name) and n.func.value.id in elems:
                        writes.append(n)
                ok = not writes
                why = "a copy of the batch" if ok else "a copy of the batch into which %s is written" % unparse(writes[0])[:50]
            else:
                why = "%s, which is not a copy of the batch" % "; ".join(unparse(v)[:40] for _s, v, _i in defs)
        elif arg is not None:
            why = "%s, which is not a copy of the batch" % unparse(arg)[:40]
        ctx.instance("C12-K5", "__run_pipeline receives %s" % why, rb.loc(c), ok=ok)
        if not ok:
            ctx.finding("C12-K5", "Balancer.__rebalance_batch:pipeline-input", rb.loc(c), "the pipeline computes the cached entry from %s: the entry then depends on something the cache key does not cover, and a later hit returns a result that a fresh run would not produce" % why)
    rule_k6(ctx)


def rule_k6(ctx) -> None:
    """Caching is transparent also when the cache cannot be written (directory removed, disk full): the rows a batch
    computed are returned all the same.  In __rebalance_batch the write sits inside the handler that also guards the
    pipeline, so the name that is returned has to be bound to the pipeline's rows *before* write_cache is called."""
    ctx.rule("C12-K6", "the rows to return are bound before the cache entry is written (a failed write cannot lose them)", 1)
    prog = ctx.prog
    rb = prog.func("synrbl.balancing.Balancer.__rebalance_batch")
    cfg = CFG(rb.node)
    writes = [c for c in calls(rb) if isinstance(c.func, ast.Attribute) and c.func.attr == "write_cache"]
    runs = [c for c in calls(rb) if (ctx.res.resolve_callee(c, rb) or ("", ""))[1].endswith("Balancer.__run_pipeline")]
    ctx.require(writes and runs, "__rebalance_batch no longer runs the pipeline and writes the cache")
    rets = [r for r in own_nodes(rb.node) if isinstance(r, ast.Return) and r.value is not None]
    rnames = set()
    for r in rets:
        v = r.value.elts[0] if isinstance(r.value, ast.Tuple) and r.value.elts else r.value
        if isinstance(v, ast.Name):
            rnames.add(v.id)
    ctx.require(rnames, "__rebalance_batch does not return a local")
    # names that carry the pipeline's rows (through copies)
    carriers = set()
    for c in runs:
        par = getattr(c, "_parent", None)
        if isinstance(par, ast.Assign):
            carriers |= {t.id for t in par.targets if isinstance(t, ast.Name)}
    for w in writes:
        own_try = False
        cur, prev = getattr(w, "_parent", None), w
        while cur is not None and cur is not rb.node:
            if isinstance(cur, ast.Try) and any(any(y is w for y in ast.walk(b)) for b in cur.body) and not any(any(y is c for y in ast.walk(b)) for b in cur.body for c in runs):
                own_try = True  # a handler of its own, not shared with the pipeline call
            cur = getattr(cur, "_parent", None)
        wn = cfg.node_of(w)
        bound_before = False
        for nm in rnames:
            for st_, v, i in assignments_to(rb, nm):
                src_ok = (isinstance(v, ast.Call) and v in runs) or (isinstance(v, ast.Name) and v.id in carriers) or (i is not None)
                if isinstance(v, ast.Call) and v in runs or (isinstance(v, ast.Name) and v.id in carriers):
                    an = cfg.node_of(st_)
                    if an is not None and wn is not None and cfg.dominates(an, wn):
                        bound_before = True
        ok = own_try or bound_before
        ctx.instance("C12-K6", "write_cache: returned rows bound before the write: %s, write in a handler of its own: %s" % (bound_before, own_try), rb.loc(w), ok=ok)
        if not ok:
            ctx.finding("C12-K6", "Balancer.__rebalance_batch:write-before-result", rb.loc(w), "the cache entry is written before the name that __rebalance_batch returns (%s) is bound to the pipeline's rows: when the write fails the shared handler leaves that name empty and the batch's rows are dropped, although the same run without a cache returns them" % sorted(rnames))
    rule_k7(ctx)


def rule_k7(ctx) -> None:
    """Two different payloads must not share a key.  sha256 over `json.dumps(payload, sort_keys=True)` is injective on
    what the Balancer hashes (lists keep their order, only dict keys are sorted).  A payload that is first rewritten by
    some function - sorted, turned into sets, stringified - may collapse payloads that differ (the same rows in another
    order), so the serialiser has to be applied to the parameter itself."""
    ctx.rule("C12-K7", "the cache key hashes a serialisation of the payload itself, not of a rewritten copy", 1)
    prog = ctx.prog
    cm = next((c for q, c in prog.classes.items() if q.endswith(".CacheManager")), None)
    ctx.require(cm is not None, "CacheManager vanished")
    f = prog.lookup_method(cm, "get_hash_key")
    ctx.require(f is not None and len(f.params) >= 2, "CacheManager.get_hash_key vanished")
    data_p = f.params[1]
    dumps = [(c, c.args[0] if c.args else None) for c in calls(f) if unparse(c.func).split(".")[-1] in ("dumps",)]
    # a helper that is nothing but the serialiser: `def _encode(obj): return json.dumps(obj, sort_keys=True)`
    for c in calls(f):
        tgt = ctx.res.resolve_callee(c, f)
        g = prog.functions.get(tgt[1]) if tgt and tgt[0] == "func" else None
        if g is None or not c.args:
            continue
        rets = [r for r in own_nodes(g.node) if isinstance(r, ast.Return) and r.value is not None]
        if len(rets) == 1 and isinstance(rets[0].value, ast.Call) and unparse(rets[0].value.func).split(".")[-1] == "dumps" and rets[0].value.args and isinstance(rets[0].value.args[0], ast.Name) and rets[0].value.args[0].id in g.params:
            dumps.append((c, c.args[g.params.index(rets[0].value.args[0].id)] if g.params.index(rets[0].value.args[0].id) < len(c.args) else None))
    ctx.require(dumps, "get_hash_key no longer serialises its argument with json.dumps / pickle.dumps")
    # ... and the key is the whole digest: a prefix of it addresses entries by a few bits, and two different payloads
    # whose digests share the prefix share the entry
    for r in [x for x in own_nodes(f.node) if isinstance(x, ast.Return) and x.value is not None]:
        v = r.value
        for _ in range(3):
            if isinstance(v, ast.Name):
                d_ = assignments_to(f, v.id)
                if len(d_) == 1 and d_[0][2] is None:
                    v = d_[0][1]
                    continue
            break
        cut = next((x for x in ast.walk(v) if isinstance(x, ast.Subscript) and isinstance(x.slice, ast.Slice)), None)
        ctx.instance("C12-K7", "get_hash_key returns %s" % unparse(v)[:50], f.loc(r), ok=cut is None)
        if cut is not None:
            ctx.finding("C12-K7", "CacheManager.get_hash_key:truncated-digest", f.loc(r), "the key is a slice of the digest (%s): entries are addressed by a few bits only, two different batches (or one batch under two settings) whose digests share that prefix share one entry, and the second is served the rows of the first" % unparse(cut)[:50])
    for c, arg in dumps:
        for _ in range(3):
            if isinstance(arg, ast.Name) and arg.id != data_p:
                d_ = assignments_to(f, arg.id)
                if len(d_) == 1 and d_[0][2] is None:
                    arg = d_[0][1]
                    continue
            break
        ok = isinstance(arg, ast.Name) and arg.id == data_p
        ctx.instance("C12-K7", "get_hash_key serialises %s" % (unparse(arg)[:50] if arg is not None else None), f.loc(c), ok=ok)
        if not ok:
            ctx.finding("C12-K7", "CacheManager.get_hash_key:payload-rewritten", f.loc(c), "the key is computed from %s instead of the payload itself: a rewrite that sorts or collapses parts of the payload gives one key to batches that differ (the same rows in another order), and the later run is served the earlier run's rows" % (unparse(arg)[:50] if arg is not None else "nothing"))
