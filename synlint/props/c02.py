"""C02 - only whole molecules are added; given molecules are never altered."""

from __future__ import annotations

import ast
from typing import Dict, List, Set

from ..model import AnalysisError, own_nodes, unparse
from ..pipeline import Pipeline
from ..rows import package_stores
from ..smitext import EXEMPT_CALLEES, TextFlow
from ..util import assignments_to, calls, const_str, enclosing_stmt
from ..values import texts

EXPLANATION = (
    "Decides the text discipline behind C02, not the chemistry of merged fragments: (T1) with a may-taint of text that carries the "
    "user's molecules (sources: the reaction column and the reactants / products / new_reaction / curated_reaction fields; "
    "interprocedural over the pipeline-reachable functions) every operation on such text is classified - append forms (+, +=, format, "
    "f-string, join) and component forms (split on '.' or '>>', whole-component equality / membership / count on the split list, list "
    "filters) are allowed, substring edits (str.replace, re.sub, slicing, strip(chars), translate) whose result reaches a text field "
    "of a row or a return value are violations, the two atom-map regexes of chem_utils.remove_atom_mapping being owned by C15; (T2) "
    "the input_reaction column has exactly one writer, in preprocess, a copy of the reaction column taken after the atom-map removal "
    "and before anything else writes the reaction; (T3) the standardisers are applied to the merged fragment only, never to text "
    "that carries input molecules; (T5/T6) the text stored in a row's reaction column belongs to that row: ids used as list positions are "
    "positions of that list (rule shared with C06-B2) and no writer of the reaction column reads an attribute of a long-lived stage "
    "object that can hold a value of an earlier batch (rule shared with C06-B7)."
    ' (T9) atom-map removal keeps every molecule (shared with C15-Rg1/Rg2).'
    " (T3) follows the standardiser list into every function it is forwarded to. (T10) a range of a side's component list reaches a text field only together with its complement, the head range (the given molecules) untouched."
)
ASSUMPTIONS = [
    "the input contains no free [H]/[O] placeholder components (precondition of the property): whole-component filters on those literals do not touch given molecules",
    "may-taint is intra-package; strings handed to RDKit come back as new text (respell), which is not an edit of the molecule set",
]


def rule_t1(ctx, tf: TextFlow) -> None:
    ctx.rule("C02-T1", "text carrying input molecules is only appended to or handled component-wise; no substring edit reaches a row field", 30)
    ops = tf.all_ops()
    n_app = sum(1 for o in ops if o.klass == "append")
    n_comp = sum(1 for o in ops if o.klass == "component")
    ctx.require(n_app >= 9 and n_comp >= 4, "text-flow lost its anchors: %d append forms, %d component forms (>= 9 / >= 4 confirmed by hand)" % (n_app, n_comp))
    for o in ops:
        if o.klass in ("append", "component"):
            ctx.instance("C02-T1", "%s %s: %s" % (o.klass, o.func.qualname.split("synrbl.", 1)[-1], o.detail), o.where(), ok=True, nontrivial=True)
    # which edits reach a sink?  (edit labels carry the function they happened in)
    reaching: Dict[str, str] = {}
    for s in tf.all_sinks():
        for origin in tf.edit_origins(s.labels):
            reaching.setdefault(origin, s.func.qualname)
    edits_by_func: Dict[str, List] = {}
    for o in ops:
        if o.klass == "substring-edit":
            edits_by_func.setdefault(o.func.qualname, []).append(o)
    for q, eds in sorted(edits_by_func.items()):
        reaches = q in reaching
        via = reaching.get(q) if reaches and reaching.get(q) != q else None
        markers = sorted({repr(o.literal) if o.literal is not None else o.detail for o in eds})
        short = q.split("synrbl.", 1)[-1]
        ctx.instance("C02-T1", "substring edit(s) in %s: %s; reaches a text field: %s" % (short, markers, reaches), eds[0].where(), ok=not reaches)
        if reaches:
            ctx.finding(
                "C02-T1",
                "%s:{%s}" % (short.split(".", 1)[-1] if "." in short else short, ",".join(sorted(str(o.literal) if o.literal is not None else o.detail.split("(")[0] for o in eds))),
                eds[0].where(),
                "substring edit on text that carries the given molecules (%s) and the result is written back%s: a given molecule whose text contains the pattern is altered or fused with its neighbour"
                % ("; ".join(o.detail for o in eds), " via %s" % via if via else ""),
            )


def _only_map_removal(ctx, f, e, rc: str, env, depth: int = 0, busy=frozenset()) -> bool:
    """`e` is the reaction column of a frame, possibly with remove_atom_mapping applied element-wise (`.map` / `.apply`)"""
    from ..util import assignments_to

    if depth > 4:
        return False
    if isinstance(e, ast.Subscript) and not isinstance(e.slice, ast.Slice):
        return texts(ctx.ev.eval(e.slice, env)) == {rc}
    if isinstance(e, ast.Call) and isinstance(e.func, ast.Attribute) and e.func.attr in ("map", "apply") and len(e.args) == 1 and not e.keywords:
        return unparse(e.args[0]).split(".")[-1] == "remove_atom_mapping" and _only_map_removal(ctx, f, e.func.value, rc, env, depth + 1, busy)
    if isinstance(e, ast.Name):
        if e.id in busy:
            return True  # `x = x.map(..)`: the name itself, already being judged
        defs = assignments_to(f, e.id)
        return bool(defs) and all(i is None and _only_map_removal(ctx, f, v, rc, env, depth + 1, busy | {e.id}) for _s, v, i in defs)
    return False


def rule_t2(ctx, pl: Pipeline, rule_id: str = "C02-T2") -> None:
    ctx.rule(rule_id, "input_reaction has a single writer: a copy of the reaction column taken right after atom-map removal", 2)
    inp = pl.input_col.text
    writers = []
    for st in pl.stages:
        for ks in st.frame_stores:
            if inp in ks.keytexts:
                writers.append((st, ks))
        for s in st.stores:
            if inp in s.keytexts:
                writers.append((st, s))
    seen = {id(w[1].node) for w in writers}
    for ks in package_stores(ctx):
        if inp in ks.keytexts and id(ks.node) not in seen and ks.func.qualname.startswith("synrbl."):
            writers.append((None, ks))
    ctx.require(writers, "nothing writes the input_reaction column any more")
    for st, w in writers:
        okw = st is not None and st.index == 0 and w.func.qualname == "synrbl.preprocess.preprocess"
        v = w.value
        copy_ok = isinstance(v, ast.Subscript) and texts(ctx.ev.eval(v.slice, st.env if st else None)) == {pl.reaction_col.text} if okw else False
        ctx.instance(rule_id, "writer of %r: %s in %s" % (inp, unparse(w.node)[:60], w.func.qualname.split("synrbl.", 1)[-1]), w.where(), ok=okw and copy_ok)
        if not okw:
            ctx.finding(rule_id, "%s:writes-input_reaction" % w.func.qualname.split("synrbl.", 1)[-1], w.where(), "the recorded input is written outside preprocess: %s" % unparse(w.node)[:60])
        elif not copy_ok:
            ctx.finding(rule_id, "preprocess.preprocess:input-copy", w.where(), "input_reaction is not a plain copy of the reaction column (%s)" % unparse(v)[:50])
    if len(writers) != 1:
        ctx.finding(rule_id, "input_reaction:writers", writers[0][1].where(), "input_reaction has %d writers" % len(writers))
    # between the atom-map removal and the copy nothing else writes the reaction column
    st0 = pl.stages[0]
    f = st0.callee
    rc = pl.reaction_col.text
    copy_line = min(w.node.lineno for st, w in writers if st is st0) if any(st is st0 for st, _ in writers) else None
    other = []
    for ks in st0.frame_stores:
        if rc in ks.keytexts and copy_line is not None and ks.node.lineno < copy_line:
            v_ = getattr(ks, "value", None)
            if isinstance(v_, ast.Call) and unparse(v_.func).endswith("remove_atom_mapping"):
                continue  # the map removal itself, applied to a copy of the row
            if v_ is not None and _only_map_removal(ctx, f, v_, rc, st0.env):
                continue  # the column itself, with the map removal applied element-wise
            other.append(ks)
    row_writes = [s for s in st0.stores if rc in s.keytexts]
    ok = copy_line is not None and not other and all(isinstance(s.value, ast.Call) and unparse(s.value.func).endswith("remove_atom_mapping") for s in row_writes)
    ctx.instance(rule_id, "only the atom-map removal writes the reaction before the input is recorded", f.loc(), ok=ok)
    if not ok:
        ctx.finding(rule_id, "preprocess.preprocess:edit-before-record", f.loc(), "the reaction column is edited by something other than atom-map removal before input_reaction is recorded")


def _standardizer_family(ctx, f, pname: str):
    """(function, local name) pairs that hold the list of standardiser callables: the parameter of ``f`` and every
    parameter of a package function it is forwarded to."""
    out, todo = [], [(f, pname)]
    seen = set()
    while todo:
        g, nm = todo.pop()
        if (g.qualname, nm) in seen:
            continue
        seen.add((g.qualname, nm))
        out.append((g, nm))
        for c in [x for x in own_nodes(g.node) if isinstance(x, ast.Call)]:
            hits = [("pos", i) for i, a in enumerate(c.args) if isinstance(a, ast.Name) and a.id == nm] + [("kw", k.arg) for k in c.keywords if isinstance(k.value, ast.Name) and k.value.id == nm and k.arg]
            if not hits:
                continue
            tgt = ctx.res.resolve_callee(c, g)
            if not tgt or tgt[0] != "func" or tgt[1] not in ctx.prog.functions:
                continue
            h = ctx.prog.functions[tgt[1]]
            params = list(h.params)
            if h.cls is not None and not h.is_static and isinstance(c.func, ast.Attribute):
                params = params[1:]
            for kind, v in hits:
                if kind == "pos" and v < len(params):
                    todo.append((h, params[v]))
                elif kind == "kw" and v in h.params:
                    todo.append((h, v))
    return out


def rule_t3(ctx, tf: TextFlow) -> None:
    ctx.rule("C02-T3", "standardisers are applied to the merged fragment only", 1)
    f = ctx.prog.func("synrbl.SynMCSImputer.mcs_based_method.impute_reaction")
    std = [p for p in f.params if "standardizer" in p]
    ctx.require(len(std) == 1, "impute_reaction no longer takes the list of smiles standardizers")
    n = 0
    for g, lname in _standardizer_family(ctx, f, std[0]):
        names = tf._names_cache.get(g.qualname, {})
        host = g is f
        for loop in [x for x in own_nodes(g.node) if isinstance(x, (ast.For, ast.comprehension)) and isinstance(x.iter, ast.Name) and x.iter.id == lname and isinstance(x.target, ast.Name)]:
            body = loop if isinstance(loop, ast.For) else getattr(loop, "_parent", loop)
            for c in [y for y in ast.walk(body) if isinstance(y, ast.Call) and isinstance(y.func, ast.Name) and y.func.id == loop.target.id]:
                n += 1
                arg = c.args[0] if c.args else None
                arg_names = [x.id for x in ast.walk(arg) if isinstance(x, ast.Name)] if arg is not None else []
                tainted = any("T" in names.get(a, frozenset()) for a in arg_names)
                src_ok = True
                if host:
                    src_ok = False
                    if isinstance(arg, ast.Name):
                        srcs = [unparse(v) for _, v, _i in assignments_to(g, arg.id)]
                        src_ok = any(s.endswith(".smiles") for s in srcs)
                ctx.instance("C02-T3", "%s: standardizer(%s): argument carries input text: %s" % (g.name, unparse(arg) if arg is not None else "?", tainted), g.loc(c), ok=not tainted and src_ok)
                if tainted or not src_ok:
                    ctx.finding("C02-T3", "mcs_based_method.%s:standardizer-scope" % g.name, g.loc(c), "a SMILES standardiser is applied to text that carries the given molecules (or not to the merge result)")
    ctx.require(n >= 1, "impute_reaction no longer applies the smiles_standardizer callables")


PLACEHOLDERS = {"[H]", "[O]"}


def rule_t4(ctx) -> None:
    """Whole-component removal by a literal that is a real molecule (e.g. OO)
    is only allowed inside the window of components appended to that side."""
    from ..cfg import CFG, normal_compare

    ctx.rule("C02-T4", "components equal to a real-molecule literal are only removed from the window the imputer appended to that side", 1)
    prog = ctx.prog
    f = prog.func("synrbl.SynRuleImputer.synthetic_rule_constraint.RuleConstraint.reduction_oxidation_rules_modify")
    cfg = CFG(f.node)
    n_inst = 0
    for n in own_nodes(f.node):
        if not (isinstance(n, ast.Assign) and isinstance(n.value, ast.ListComp) and len(n.targets) == 1 and isinstance(n.targets[0], ast.Name)):
            continue
        comp = n.value
        g = comp.generators[0]
        if not (isinstance(g.iter, ast.Name) and g.ifs):
            continue
        lits = set()
        for c in g.ifs:
            for x in ast.walk(c):
                if isinstance(x, ast.Constant) and isinstance(x.value, str):
                    lits.add(x.value)
        real = lits - PLACEHOLDERS
        lst = g.iter.id
        if not real:
            ctx.instance("C02-T4", "filter of %s by placeholder(s) %s" % (lst, sorted(lits)), f.loc(n), ok=True, nontrivial=False)
            continue
        n_inst += 1
        ok, why = _is_added_window(ctx, f, cfg, lst)
        ctx.instance("C02-T4", "filter of %s by real-molecule literal(s) %s: %s" % (lst, sorted(real), why), f.loc(n), ok=ok)
        if not ok:
            ctx.finding(
                "C02-T4",
                "RuleConstraint.reduction_oxidation_rules_modify:window:%s" % ",".join(sorted(real)),
                f.loc(n),
                "components equal to %s are removed from %r, which is not restricted to the molecules the imputer appended to that side (%s); a given molecule such as hydrogen peroxide can be deleted" % (sorted(real), lst, why),
            )
    ctx.require(n_inst >= 1, "no removal of a real-molecule placeholder (OO) found in reduction_oxidation_rules_modify (mechanism changed)")


def _is_added_window(ctx, f, cfg, lst: str):
    from ..cfg import normal_compare

    # lst = X[len(X) - n:]   (first definition; later filters of lst itself are fine)
    defs = [(st, v) for st, v, i in assignments_to(f, lst) if i is None and not (isinstance(v, ast.ListComp) and isinstance(v.generators[0].iter, ast.Name) and v.generators[0].iter.id == lst) and not isinstance(v, ast.BinOp)]
    aug_ok = True
    if len(defs) != 1:
        return False, "%d defining assignments" % len(defs)
    v = defs[0][1]
    # a plain copy of another local (helper results handed over): judge that local
    for _ in range(3):
        if isinstance(v, ast.Name):
            d2 = [(st2, v2) for st2, v2, i2 in assignments_to(f, v.id) if i2 is None]
            if len(d2) == 1:
                v = d2[0][1]
                continue
        break
    if not (isinstance(v, ast.Subscript) and isinstance(v.slice, ast.Slice) and v.slice.upper is None and isinstance(v.value, ast.Name)):
        return False, "not a tail slice of the side's component list"
    X = v.value.id
    lo = v.slice.lower
    nname = None
    if isinstance(lo, ast.BinOp) and isinstance(lo.op, ast.Sub) and unparse(lo.left) == "len(%s)" % X and isinstance(lo.right, ast.Name):
        nname = lo.right.id
    if nname is None:
        return False, "lower bound is not len(%s) - <n>" % X
    # which side is X?
    side = None
    for _, xv, _i in assignments_to(f, X):
        for sub in ast.walk(xv):
            if isinstance(sub, ast.Subscript) and const_str(sub.slice) in ("products", "reactants"):
                side = const_str(sub.slice)
    if side is None:
        return False, "component list %s is not split from a side field" % X
    for st, nv, _i in assignments_to(f, nname):
        if isinstance(nv, ast.Constant) and nv.value == 0:
            continue
        guards = cfg.guards(cfg.node_of(st))
        okg = False
        for c, p in guards:
            t = unparse(c)
            if p and "imputed_side" in t and "not in" in t:
                okg = True  # no record: direct use, every component counts as added
            nc = normal_compare(c, p)
            if nc and nc[1] == "==" and "imputed_side" in unparse(nc[0]) + unparse(nc[2]) and side in (const_str(nc[0]), const_str(nc[2])):
                okg = True
        if not okg:
            return False, "%s = %s is not guarded by imputed_side == %r" % (nname, unparse(nv)[:40], side)
    return True, "tail window of %s whose length is non-zero only when imputed_side == %r" % (X, side)


def rule_t5(ctx, pl: Pipeline) -> None:
    """The text written to a row's reaction column is that row's own text:
    (a) ids used as positions are positions of the same list (shared with C06-B2),
    (b) a function that writes the reaction column reads no attribute of a
    long-lived stage object that can still hold a value of an earlier batch
    (shared with C06-B7)."""
    from . import c06

    c06.rule_b2(ctx, pl, "C02-T5")
    writers = {s.func.qualname for st in pl.stages for s in st.stores if pl.reaction_col.text in s.keytexts}
    ctx.require(len(writers) >= 4, "fewer than 4 functions write the reaction column (%d)" % len(writers))
    reach = ctx.res.reachable(["synrbl.balancing.Balancer.rebalance"], ctx.graph)
    c06.rule_b7(ctx, reach, "C02-T6", reader_filter=lambda m: m.qualname in writers)


CSV_TEXT_OPTIONS = {
    "escapechar": "the backslash is the SMILES directional-bond symbol",
    "comment": "'#' is the triple bond",
    "converters": "cell text may be rewritten",
    "thousands": "",
    "decimal": "",
    "skipinitialspace": "",
    "lineterminator": "",
    "quoting": "",
    "doublequote": "",
}


def rule_t8(ctx, rule_id: str = "C02-T8") -> None:
    """The command line front ends read the reaction column as it is written: no CSV option that consumes or rewrites
    characters of a cell (SMILES uses `\\`, `#`, `/`, `.`, `@`, brackets)."""
    ctx.rule(rule_id, "CSV readers of the front ends pass no option that rewrites cell text", 2)
    prog = ctx.prog
    n = 0
    for q, f in sorted(prog.functions.items()):
        if not (q.startswith("synrbl.SynCmd.") or q.startswith("synrbl.SynUtils.batching.")):
            continue
        for c in calls(f):
            name = unparse(c.func).split(".")[-1]
            if name not in ("read_csv", "read_table", "reader", "DictReader"):
                continue
            if name in ("reader", "DictReader") and unparse(c.func).split(".")[0] != "csv":
                continue
            n += 1
            bad = [k.arg for k in c.keywords if k.arg in CSV_TEXT_OPTIONS and not (isinstance(k.value, ast.Constant) and k.value.value in (None, False))]
            if any(k.arg == "quotechar" and not (isinstance(k.value, ast.Constant) and k.value.value == '"') for k in c.keywords):
                bad.append("quotechar")
            if any(k.arg in ("sep", "delimiter") and isinstance(k.value, ast.Constant) and isinstance(k.value.value, str) and any(ch in k.value.value for ch in ".=#@/\\[]()+-:") for k in c.keywords):
                bad.append("sep")
            ctx.instance(rule_id, "%s: %s" % (q.split("synrbl.", 1)[-1], unparse(c)[:60]), f.loc(c), ok=not bad)
            if bad:
                ctx.finding(rule_id, "%s:csv-option:%s" % (q.split("synrbl.", 1)[-1], "+".join(sorted(bad))), f.loc(c), "the reaction column is read with %s: characters that belong to the SMILES are consumed by the parser (%s), so the molecules that reach the Balancer are not the given ones" % (", ".join(sorted(bad)), "; ".join(CSV_TEXT_OPTIONS.get(b, "") for b in bad if CSV_TEXT_OPTIONS.get(b))))
    ctx.require(n >= 2, "fewer than 2 CSV read sites found in SynCmd / batching (%d)" % n)


def _slice_bounds(sl: ast.Slice, X: str):
    """-> ('head'|'tail', normalised cut) for X[:b] / X[b:], else None"""
    if sl.step is not None:
        return None
    def norm(b):
        t = unparse(b).replace(" ", "")
        pre = "len(%s)-" % X
        if t.startswith(pre):
            return "-" + t[len(pre):].strip("()")
        return t
    if sl.lower is None and sl.upper is not None:
        return "head", norm(sl.upper)
    if sl.upper is None and sl.lower is not None:
        return "tail", norm(sl.lower)
    return None


def rule_t10(ctx, tf: TextFlow) -> None:
    """A sub-range of the component list of a side (``parts[:k]``) written back to a text field leaves the components
    outside the range behind.  It keeps the given molecules only when the complementary range is written with it and
    the range that holds the given components (the head: imputers append) is handed through untouched."""
    ctx.rule("C02-T10", "a range of a side's components is written back only together with its complement, the head range unmodified", 1)
    reaching = set()
    for s in tf.all_sinks():
        reaching |= {l[2:] for l in s.labels if l.startswith("D:")}
    by_func: Dict[str, List] = {}
    for o in tf.all_ops():
        if o.klass == "component-range":
            by_func.setdefault(o.func.qualname, []).append(o)
    n = 0
    for q, ops in sorted(by_func.items()):
        f = ctx.prog.functions[q]
        short = q.split("synrbl.", 1)[-1]
        if q not in reaching:
            ctx.instance("C02-T10", "%s: component range(s) never reach a text field" % short, ops[0].where(), ok=True)
            continue
        n += 1
        parts: Dict[Tuple[str, str], Dict[str, ast.AST]] = {}
        odd = []
        sink_values = [sk.value for sk in tf.all_sinks() if sk.func.qualname == q and isinstance(sk.value, ast.AST)]

        def holder(e):
            """-> (stored?, name that holds the range or None when the range itself is inside the stored value)"""
            if any(x is e for v in sink_values for x in ast.walk(v)):
                return True, None
            st = enclosing_stmt(e)
            if isinstance(st, ast.Assign) and len(st.targets) == 1 and isinstance(st.targets[0], ast.Name) and st.value is e:
                nm = st.targets[0].id
                group = {nm}
                for _ in range(4):
                    for a in own_nodes(f.node):
                        if isinstance(a, ast.Assign) and isinstance(a.value, ast.Name) and a.value.id in group:
                            group |= {t.id for t in a.targets if isinstance(t, ast.Name)}
                return any(isinstance(x, ast.Name) and x.id in group for v in sink_values for x in ast.walk(v)), nm
            return False, None

        held = {}
        for o in ops:
            e = o.node
            stored, nm = holder(e)
            if not stored:
                continue  # a range that is only looked at (compared, counted)
            X = e.value.id if isinstance(e.value, ast.Name) else None
            b = _slice_bounds(e.slice, X) if X else None
            if b is None:
                odd.append(o)
                continue
            parts.setdefault((X, b[1]), {})[b[0]] = e
            held[id(e)] = nm
        bad = None
        for (X, cut), d in sorted(parts.items()):
            if "head" in d and "tail" not in d:
                bad = (d["head"], "the components after %s[:%s] are not written back with it" % (X, cut))
            elif "tail" in d and "head" not in d:
                bad = (d["tail"], "the components before %s[%s:] are not written back with it" % (X, cut))
            else:
                nm = held[id(d["head"])]
                if nm is not None:
                    defs = assignments_to(f, nm)
                    edited = len(defs) != 1 or any(isinstance(c, ast.Call) and isinstance(c.func, ast.Attribute) and isinstance(c.func.value, ast.Name) and c.func.value.id == nm and c.func.attr in ("remove", "pop", "clear", "sort", "reverse", "insert") for c in own_nodes(f.node)) or any(isinstance(x, ast.Delete) and any(nm in unparse(t) for t in x.targets) for x in own_nodes(f.node))
                    if edited:
                        bad = (d["head"], "the head range %s (the given components) is edited before it is written back" % nm)
        if odd and bad is None:
            raise AnalysisError("%s: component range %s has a form the rule does not model" % (odd[0].where(), odd[0].detail))
        ctx.instance("C02-T10", "%s: ranges %s" % (short, sorted("%s@%s" % k for k in parts)), ops[0].where(), ok=bad is None)
        if bad is not None:
            ctx.finding("C02-T10", "%s:component-range" % short.split(".", 1)[-1], f.loc(bad[0]), "a range of the components of a side is written to a text field and %s: a given molecule in that position disappears from the reaction" % bad[1])
    ctx.require(n >= 1, "no function writes a range of a side's components back (the window mechanism of reduction_oxidation_rules_modify changed)")


def check(ctx) -> None:
    pl = Pipeline(ctx)
    tf = TextFlow(ctx, ctx.pipeline_reachable())
    rule_t1(ctx, tf)
    rule_t2(ctx, pl)
    rule_t3(ctx, tf)
    rule_t4(ctx)
    rule_t10(ctx, tf)
    rule_t5(ctx, pl)
    # T7: a cached batch is served only for the identical rows and settings (shared with C12-K1): a key that
    # identifies reactions up to normalisation hands one input the molecules of another
    from . import c12

    c12.rule_k1(ctx, "C02-T7")
    rule_t8(ctx)
    # T9: the only rewrite the pipeline applies to the given text before it is recorded - atom-map removal - keeps every
    # molecule (shared with C15-Rg1/Rg2)
    from . import c15

    c15.rule_rg1_rg2(ctx, "C02-T9", "C02-T9")
