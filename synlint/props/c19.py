"""C19 - the rule database stays consistent under any sequence of edits."""

from __future__ import annotations

import ast
import os
from typing import Dict, List, Optional, Set

from .. import tables
from ..cfg import CFG
from ..model import AnalysisError, Func, own_nodes, unparse
from ..util import assignments_to, calls, const_str, kwarg, names_in
from . import c08

EXPLANATION = (
    "An invariant-preservation argument over the three operations, decided on the code, plus the shipped initial states: (U1) in "
    "RuleImputeManager.add_entry the single mutation of self.database is dominated by the three rejections (duplicate formula, "
    "duplicate SMILES, invalid SMILES), each of which raises, and no statement after the mutation can raise back into a caller "
    "that swallows it with the database changed; (U2) the only functions that mutate self.database are add_entry (append of one "
    "record) and remove_entry (remove of one record selected by formula equality); add_entries mutates only through add_entry; "
    "(U3) the appended record's smiles/formula are the parameters, its Composition is decompose(smiles) with Q stored explicitly "
    "on every path; (U4) add_entries catches exactly the exception type the rejections raise and collects the offending entry; (U5) "
    "the shipped databases satisfy the uniqueness invariant (no two records share a formula or a SMILES) - exhaustive.  "
    "Correctness of decompose itself is C07."
    ' U4 also requires the bulk-add loop to iterate the entries parameter itself; (U6) the composition recorded by add_entry is decompose(smiles), whose element keys, atom set and charge follow C07-E1/E2/E3 (shared); (U7) the validity gate parses the SMILES with the same RDKit parser and sanitisation setting as decompose, so nothing decompose cannot build passes the gate.'
    " (U8) every shipped record's composition is the composition of its SMILES (shared with C08-D1); U3 also requires that neither parameter of add_entry is rebound."
)
ASSUMPTIONS = ["list.append / list.remove mutate by exactly one element", "decompose is correct (C07)"]

MGR = "synrbl.SynRuleImputer.rule_data_manager.RuleImputeManager"


def _db_mutations(f: Func) -> List[ast.AST]:
    out = []
    for n in own_nodes(f.node):
        if isinstance(n, ast.Call) and isinstance(n.func, ast.Attribute) and n.func.attr in ("append", "extend", "insert", "remove", "pop", "clear", "sort", "reverse", "__setitem__", "__delitem__"):
            if unparse(n.func.value) == "self.database":
                out.append(n)
        elif isinstance(n, (ast.Assign, ast.AugAssign, ast.Delete)):
            targets = n.targets if isinstance(n, (ast.Assign, ast.Delete)) else [n.target]
            for t in targets:
                base = t
                while isinstance(base, ast.Subscript):
                    base = base.value
                if unparse(base) == "self.database" and base is not t:
                    out.append(n)
            if isinstance(n, ast.AugAssign) and unparse(n.target) == "self.database":
                out.append(n)
    # in-place edits of the records themselves
    elems = set()
    for n in own_nodes(f.node):
        if isinstance(n, (ast.For, ast.comprehension)) and unparse(n.iter) == "self.database" and isinstance(n.target, ast.Name):
            elems.add(n.target.id)
    for n in own_nodes(f.node):
        if isinstance(n, (ast.Assign, ast.AugAssign, ast.Delete)):
            targets = n.targets if isinstance(n, (ast.Assign, ast.Delete)) else [n.target]
            for t in targets:
                if isinstance(t, ast.Subscript) and isinstance(t.value, ast.Name) and t.value.id in elems:
                    out.append(n)
        elif isinstance(n, ast.Call) and isinstance(n.func, ast.Attribute) and isinstance(n.func.value, ast.Name) and n.func.value.id in elems and n.func.attr in ("update", "pop", "clear", "setdefault"):
            out.append(n)
    return out


def _rejection_kind(add: Func, t: ast.AST, formula_p: str, smiles_p: str) -> Optional[str]:
    """'formula' / 'smiles': the test is `any(<rec>[<key>] == <param> for <rec> in self.database)` (either operand
    order, also `<param> in (<rec>[<key>] for ...)` / a set or list comprehension of the keys);
    'valid': `not <validity predicate>(<smiles param>)`"""
    def key_compare(gen_elt, target):
        if isinstance(gen_elt, ast.Compare) and len(gen_elt.ops) == 1 and isinstance(gen_elt.ops[0], ast.Eq):
            for a, b in ((gen_elt.left, gen_elt.comparators[0]), (gen_elt.comparators[0], gen_elt.left)):
                if isinstance(a, ast.Subscript) and isinstance(a.value, ast.Name) and a.value.id == target and isinstance(b, ast.Name):
                    k = const_str(a.slice)
                    if k == "formula" and b.id == formula_p:
                        return "formula"
                    if k == "smiles" and b.id == smiles_p:
                        return "smiles"
        return None

    def over_db(gen):
        return len(gen.generators) == 1 and unparse(gen.generators[0].iter) == "%s.database" % add.params[0] and isinstance(gen.generators[0].target, ast.Name) and not gen.generators[0].ifs

    if isinstance(t, ast.Call) and getattr(t.func, "id", "") == "any" and t.args and isinstance(t.args[0], (ast.GeneratorExp, ast.ListComp)) and over_db(t.args[0]):
        return key_compare(t.args[0].elt, t.args[0].generators[0].target.id)
    if isinstance(t, ast.Compare) and len(t.ops) == 1 and isinstance(t.ops[0], ast.In) and isinstance(t.left, ast.Name):
        c = t.comparators[0]
        if isinstance(c, (ast.GeneratorExp, ast.ListComp, ast.SetComp)) and over_db(c) and isinstance(c.elt, ast.Subscript) and isinstance(c.elt.value, ast.Name) and c.elt.value.id == c.generators[0].target.id:
            k = const_str(c.elt.slice)
            if k == "formula" and t.left.id == formula_p:
                return "formula"
            if k == "smiles" and t.left.id == smiles_p:
                return "smiles"
    if isinstance(t, ast.UnaryOp) and isinstance(t.op, ast.Not) and isinstance(t.operand, ast.Call) and t.operand.args and isinstance(t.operand.args[0], ast.Name) and t.operand.args[0].id == smiles_p and "valid" in unparse(t.operand.func).lower():
        return "valid"
    # `v = <parse>(smiles)` ... `if v is None: raise`
    if isinstance(t, ast.Compare) and len(t.ops) == 1 and isinstance(t.ops[0], ast.Is) and isinstance(t.left, ast.Name) and isinstance(t.comparators[0], ast.Constant) and t.comparators[0].value is None:
        defs = assignments_to(add, t.left.id)
        if len(defs) == 1 and isinstance(defs[0][1], ast.Call) and defs[0][1].args and isinstance(defs[0][1].args[0], ast.Name) and defs[0][1].args[0].id == smiles_p:
            return "valid"
    return None


def check(ctx) -> None:
    prog = ctx.prog
    cls = prog.cls(MGR)
    add = prog.func(MGR + ".add_entry")
    adds = prog.func(MGR + ".add_entries")
    rem = prog.func(MGR + ".remove_entry")
    ctx.rule("C19-U1", "the single mutation in add_entry is dominated by three raising rejections", 4)
    ctx.rule("C19-U2", "closed set of mutators of self.database", 3)
    ctx.rule("C19-U3", "record provenance: parameters + decompose(smiles) + explicit Q", 3)
    ctx.rule("C19-U4", "bulk add catches exactly the rejection type and collects the entry", 2)
    ctx.rule("C19-U5", "shipped databases: no two records share a formula or a SMILES", 60)
    # ---------------------------------------------------------------- U1
    cfg = CFG(add.node)
    muts = _db_mutations(add)
    ctx.require(muts, "add_entry no longer mutates self.database")
    formula_p, smiles_p = add.params[1], add.params[2]
    rejections = {"formula": None, "smiles": None, "valid": None}
    raised_types: Set[str] = set()
    for n in own_nodes(add.node):
        if isinstance(n, ast.If) and any(isinstance(x, ast.Raise) for x in n.body):
            t = n.test
            kind = _rejection_kind(add, t, formula_p, smiles_p)
            if kind:
                rejections[kind] = n
                for x in n.body:
                    if isinstance(x, ast.Raise) and x.exc is not None:
                        raised_types.add(unparse(x.exc.func) if isinstance(x.exc, ast.Call) else unparse(x.exc))
    cname = "RuleImputeManager.add_entry"

    def mutating_calls(f: Func):
        """statements of f that change the manager's state: container mutation of a self attribute,
        or a call of a method of the class whose body does so (one level)"""
        out = []
        MUT = ("append", "extend", "insert", "remove", "pop", "clear", "add", "discard", "update", "setdefault")
        for n in own_nodes(f.node):
            if isinstance(n, ast.Call) and isinstance(n.func, ast.Attribute):
                if n.func.attr in MUT and unparse(n.func.value).startswith("self."):
                    out.append(n)
                elif isinstance(n.func.value, ast.Name) and n.func.value.id == "self":
                    m2 = prog.lookup_method(cls, n.func.attr)
                    if m2 is not None and m2 is not f and m2.cls is cls:
                        inner = [x for x in own_nodes(m2.node) if isinstance(x, ast.Call) and isinstance(x.func, ast.Attribute) and x.func.attr in MUT and unparse(x.func.value).startswith("self.")]
                        inner += [x for x in own_nodes(m2.node) if isinstance(x, (ast.Assign, ast.AugAssign, ast.Delete)) and any(unparse(t).startswith("self.") for t in (x.targets if not isinstance(x, ast.AugAssign) else [x.target]))]
                        if inner:
                            out.append(n)
        return out

    # (a) nothing is changed on a path that can still reject
    for mc in mutating_calls(add):
        nid = cfg.node_of(mc)
        can_raise_after = nid is not None and cfg.raise_exit in cfg.reachable_from(nid)
        in_handler = bool(cfg.in_handler(nid)) if nid is not None else False
        ok = not can_raise_after and not in_handler
        ctx.instance("C19-U1", "state change %s cannot be followed by a rejection" % unparse(mc)[:50], add.loc(mc), ok=ok)
        if not ok:
            ctx.finding("C19-U1", cname + ":state-change-before-rejection:" + unparse(mc.func)[:30], add.loc(mc), "add_entry changes the manager's state (%s) on a path that can still end in a rejection%s: a rejected entry leaves the manager changed" % (unparse(mc)[:50], " (inside an except handler)" if in_handler else ""))
    # helpers that can reject: the idiom table below only knows the direct any(...) forms
    helper_rejects = []
    for n in own_nodes(add.node):
        if isinstance(n, ast.Call) and isinstance(n.func, ast.Attribute) and isinstance(n.func.value, ast.Name) and n.func.value.id == "self":
            m2 = prog.lookup_method(cls, n.func.attr)
            if m2 is not None and m2.cls is cls and m2.name not in ("is_valid_smiles", "decompose") and any(isinstance(x, ast.Raise) for x in own_nodes(m2.node)):
                helper_rejects.append(m2.name)
    for m in muts:
        mnode = cfg.node_of(m)
        missing_kinds = [k for k, n in rejections.items() if n is None]
        if missing_kinds and helper_rejects and ctx.findings:
            ctx.note("rejections are delegated to %s; the idiom table cannot see kinds %s (violation above decides)" % (sorted(set(helper_rejects)), missing_kinds))
            break
        if missing_kinds and helper_rejects:
            raise AnalysisError("add_entry delegates rejections to %s; the rejection kinds %s are not visible in the recognised form `if any(d[key] == param ...): raise` - extend the idiom table before trusting a verdict" % (sorted(set(helper_rejects)), missing_kinds))
        for kind, n in rejections.items():
            ok = n is not None and cfg.dominates(cfg.node_of(n), mnode) and _false_edge_dominates(cfg, n, mnode)
            ctx.instance("C19-U1", "rejection '%s' dominates the mutation" % kind, add.loc(n) if n is not None else add.loc(), ok=ok)
            if not ok:
                ctx.finding("C19-U1", cname + ":rejection:" + kind, add.loc(m), "the database is mutated without the %s rejection having been passed on every path" % {"formula": "duplicate-formula", "smiles": "duplicate-SMILES", "valid": "invalid-SMILES"}[kind])
    ok1 = len(muts) == 1 and isinstance(muts[0], ast.Call) and muts[0].func.attr == "append"
    ctx.instance("C19-U1", "add_entry has a single mutation (append)", add.loc(muts[0]), ok=ok1)
    if not ok1:
        ctx.finding("C19-U1", cname + ":mutations", add.loc(muts[0]), "add_entry mutates the database %d times / not by a single append" % len(muts))
    # nothing that can raise a swallowed exception after the mutation: the statements after it are prints
    mnode = cfg.node_of(muts[0])
    after = [x for x in cfg.reachable_from(mnode) if x != mnode]
    for x in after:
        nd = cfg.nodes[x]
        if nd.kind == "stmt" and isinstance(nd.ast, ast.Raise):
            ctx.finding("C19-U1", cname + ":raise-after-mutation", add.loc(nd.ast), "add_entry can raise after the database was changed (the bulk add would report the entry as rejected)")
    # ---------------------------------------------------------------- U2
    allowed = {add.qualname: ("append",), rem.qualname: ("remove",)}
    n_mut = 0
    for m in cls.methods.values():
        for mut in _db_mutations(m):
            n_mut += 1
            kind = mut.func.attr if isinstance(mut, ast.Call) else type(mut).__name__
            ok = m.qualname in allowed and kind in allowed[m.qualname]
            ctx.instance("C19-U2", "%s mutates self.database by %s" % (m.name, kind), m.loc(mut), ok=ok)
            if not ok:
                ctx.finding("C19-U2", "RuleImputeManager.%s:mutates:%s" % (m.name, kind), m.loc(mut), "self.database is mutated by %s in %s (only add_entry.append and remove_entry.remove are part of the invariant argument)" % (kind, m.name))
    # whole-attribute rebinding outside __init__
    for m in cls.methods.values():
        if m.name == "__init__":
            continue
        for n in own_nodes(m.node):
            if isinstance(n, ast.Assign) and any(unparse(t) == "self.database" for t in n.targets):
                ctx.finding("C19-U2", "RuleImputeManager.%s:rebinds" % m.name, m.loc(n), "self.database is rebound outside __init__")
    # subclasses / other modules mutating <x>.database
    for g in prog.package_functions():
        if g.cls is cls:
            continue
        for n in own_nodes(g.node):
            if isinstance(n, ast.Call) and isinstance(n.func, ast.Attribute) and n.func.attr in ("append", "remove", "extend", "insert", "pop", "clear") and isinstance(n.func.value, ast.Attribute) and n.func.value.attr == "database":
                ctx.instance("C19-U2", "%s mutates .database directly" % g.qualname, g.loc(n), ok=False)
                ctx.finding("C19-U2", "%s:mutates-database" % g.qualname.split("synrbl.", 1)[-1], g.loc(n), "the database list is mutated directly outside RuleImputeManager")
    # remove_entry: removes the element selected by formula equality
    rm = [x for x in _db_mutations(rem)]
    okr = False
    if len(rm) == 1 and isinstance(rm[0], ast.Call) and rm[0].args and isinstance(rm[0].args[0], ast.Name):
        for _, v, _i in assignments_to(rem, rm[0].args[0].id):
            t = unparse(v)
            okr = "['formula'] == %s" % rem.params[1] in t and "self.database" in t and "next(" in t
    ctx.instance("C19-U2", "remove_entry removes the record selected by formula equality", rem.loc(), ok=okr)
    if not okr:
        ctx.finding("C19-U2", "RuleImputeManager.remove_entry:selection", rem.loc(), "remove_entry no longer removes exactly the first record whose formula equals the argument")
    # add_entries only through add_entry
    ok_bulk = not _db_mutations(adds) and any((ctx.res.resolve_callee(c, adds) or (None, None))[1] == add.qualname for c in calls(adds))
    ctx.instance("C19-U2", "add_entries mutates only through add_entry", adds.loc(), ok=ok_bulk)
    if not ok_bulk:
        ctx.finding("C19-U2", "RuleImputeManager.add_entries:direct-mutation", adds.loc(), "add_entries bypasses add_entry")
    # ---------------------------------------------------------------- U3
    app = muts[0]
    rec = app.args[0] if isinstance(app, ast.Call) and app.args else None
    if isinstance(rec, ast.Name):
        rdefs = assignments_to(add, rec.id)
        if len(rdefs) == 1 and rdefs[0][2] is None:
            rec = rdefs[0][1]
    ok3 = False
    detail = ""
    if isinstance(rec, ast.Dict):
        d = {const_str(k): v for k, v in zip(rec.keys, rec.values) if k is not None}
        f_ok = isinstance(d.get("formula"), ast.Name) and d["formula"].id == formula_p
        s_ok = isinstance(d.get("smiles"), ast.Name) and d["smiles"].id == smiles_p
        c_ok = False
        comp = d.get("Composition")
        if isinstance(comp, ast.Name):
            srcs = assignments_to(add, comp.id)
            c_ok = len(srcs) == 1 and isinstance(srcs[0][1], ast.Call) and unparse(srcs[0][1].func).endswith("decompose") and srcs[0][1].args and isinstance(srcs[0][1].args[0], ast.Name) and srcs[0][1].args[0].id == smiles_p
        ok3 = f_ok and s_ok and c_ok and set(d) == {"formula", "smiles", "Composition"}
        detail = "formula=%s smiles=%s Composition=%s" % (f_ok, s_ok, c_ok)
    ctx.instance("C19-U3", "appended record is built from the parameters and decompose(smiles): %s" % detail, add.loc(app), ok=ok3)
    if not ok3:
        ctx.finding("C19-U3", cname + ":record", add.loc(app), "the appended record is not {formula: <param>, smiles: <param>, Composition: decompose(<smiles param>)} (%s)" % detail)
    # the values that were checked are the values that are stored: neither parameter is rebound
    for pn in (formula_p, smiles_p):
        reb = assignments_to(add, pn)
        ctx.instance("C19-U3", "parameter %r is not rebound in add_entry" % pn, add.loc(reb[0][0]) if reb else add.loc(), ok=not reb)
        if reb:
            ctx.finding("C19-U3", cname + ":parameter-rebound:" + pn, add.loc(reb[0][0]), "add_entry rebinds its parameter %r (%s): the duplicate checks compared the value as given, the record stores another one, so two entries can end up with the same %s" % (pn, unparse(reb[0][0])[:50], "SMILES" if pn == smiles_p else "formula"))
    # explicit Q on every path to the append
    q_ok = False
    for n in own_nodes(add.node):
        if isinstance(n, ast.If):
            t = unparse(n.test)
            if "'Q' not in" in t:
                for x in n.body:
                    if isinstance(x, ast.Assign) and isinstance(x.targets[0], ast.Subscript) and const_str(x.targets[0].slice) == "Q" and isinstance(x.value, ast.Constant) and x.value.value == 0:
                        q_ok = cfg.dominates(cfg.node_of(n), mnode)
    ctx.instance("C19-U3", "Q is stored explicitly before the append", add.loc(), ok=q_ok)
    if not q_ok:
        ctx.finding("C19-U3", cname + ":explicit-Q", add.loc(), "a record can be appended without an explicit charge entry Q")
    # decompose resolves to RSMIDecomposer.decompose (C07's function)
    dec = prog.lookup_method(cls, "decompose")
    ok_dec = dec is not None and dec.qualname.endswith("RSMIDecomposer.decompose")
    ctx.instance("C19-U3", "self.decompose resolves to %s" % (dec.qualname if dec else None), add.loc(), ok=ok_dec)
    if not ok_dec:
        ctx.finding("C19-U3", cname + ":decompose", add.loc(), "composition is no longer computed by RSMIDecomposer.decompose")
    # ---------------------------------------------------------------- U4
    handlers = [n for n in own_nodes(adds.node) if isinstance(n, ast.ExceptHandler)]
    ok4 = False
    for h in handlers:
        ht = unparse(h.type) if h.type is not None else "BaseException"
        hts = {unparse(x) for x in h.type.elts} if isinstance(h.type, ast.Tuple) else {ht}
        collects = any(isinstance(x, ast.Expr) and isinstance(x.value, ast.Call) and getattr(x.value.func, "attr", "") == "append" for x in h.body)
        covers = all(rt in hts or hts & {"Exception", "BaseException"} for rt in raised_types)
        ok4 = collects and covers and bool(raised_types)
        ctx.instance("C19-U4", "add_entries handler catches %s (rejections raise %s) and collects the entry" % (ht, sorted(raised_types)), adds.loc(h), ok=ok4)
    if not ok4:
        ctx.finding("C19-U4", "RuleImputeManager.add_entries:handler", adds.loc(), "the bulk add does not catch the rejection type %s and collect the rejected entry" % sorted(raised_types))
    rets = [n for n in own_nodes(adds.node) if isinstance(n, ast.Return)]
    ok4b = len(rets) == 1 and isinstance(rets[0].value, ast.Name)
    # the try body contains only the add_entry call; nothing else in the loop can skip
    loops = [n for n in own_nodes(adds.node) if isinstance(n, ast.For)]
    skip = [n for n in own_nodes(adds.node) if isinstance(n, (ast.Continue, ast.Break))]
    ok4c = len(loops) == 1 and not skip
    # the loop visits the caller's entries themselves: every item once, in order
    if len(loops) == 1:
        it = loops[0].iter
        if isinstance(it, ast.Call) and getattr(it.func, "id", "") in ("enumerate", "list", "tuple", "iter") and it.args:
            it = it.args[0]
        direct = isinstance(it, ast.Name) and it.id == adds.params[1] and not any(isinstance(n, ast.Assign) and any(isinstance(t, ast.Name) and t.id == adds.params[1] for t in n.targets) for n in own_nodes(adds.node))
        ctx.instance("C19-U4", "the bulk-add loop iterates the entries parameter itself (%s)" % unparse(loops[0].iter)[:40], adds.loc(loops[0]), ok=direct)
        if not direct:
            ctx.finding("C19-U4", "RuleImputeManager.add_entries:loop-source", adds.loc(loops[0]), "the bulk add does not visit every given entry once and in order (it iterates %s): items are merged or dropped before add_entry sees them, so the batch differs from the same adds done one by one and rejected items go unreported" % unparse(loops[0].iter)[:50])
    ctx.instance("C19-U4", "loop body cannot skip an entry silently (no continue/break), rejected list is returned", adds.loc(), ok=ok4b and ok4c)
    if not (ok4b and ok4c):
        ctx.finding("C19-U4", "RuleImputeManager.add_entries:loop", adds.loc(), "the bulk-add loop can skip an entry silently or does not return the rejected entries")
    # ---------------------------------------------------------------- U6
    # the composition recorded by add_entry is decompose(smiles): its element keys, atom set and
    # charge follow the rules of C07 (shared: E1, E2, E3)
    from . import c07

    c07.rule_e1(ctx, "C19-U6")
    c07.rule_e2(ctx, "C19-U6")
    c07.rule_e3(ctx, "C19-U6")
    # ---------------------------------------------------------------- U7
    # the validity gate must reject whatever the composition step cannot parse: both parse with the same RDKit parser
    # and the same sanitisation setting (decompose returns an empty composition for a molecule it cannot build)
    ctx.rule("C19-U7", "the validity gate parses the SMILES the way decompose does (same parser, same sanitize setting)", 1)

    def parser_calls(f: Func):
        return [c for c in calls(f) if unparse(c.func).split(".")[-1].startswith("MolFrom")]

    def parse_config(c: ast.Call):
        san = kwarg(c, "sanitize", 1)
        return (unparse(c.func).split(".")[-1], "True" if san is None else unparse(san))

    gate_if = rejections.get("valid")
    if gate_if is not None and dec is not None:
        gt = gate_if.test
        if isinstance(gt, ast.UnaryOp):
            gcall = gt.operand
        else:
            gcall = assignments_to(add, gt.left.id)[0][1]
        gate = None
        if isinstance(gcall.func, ast.Attribute) and isinstance(gcall.func.value, ast.Name) and gcall.func.value.id == add.params[0]:
            gate = prog.lookup_method(cls, gcall.func.attr)
        else:
            tgt = ctx.res.resolve_callee(gcall, add)
            if tgt and tgt[0] == "func":
                gate = prog.functions.get(tgt[1])
        ctx.require(gate is not None, "the validity predicate %s of add_entry cannot be resolved" % unparse(gcall.func))
        gp, dp = parser_calls(gate), parser_calls(dec)
        ctx.require(dp, "decompose no longer parses its SMILES with an RDKit MolFrom* call")
        if not gp and any(unparse(c.func).split(".")[-1] == dec.name for c in calls(gate)):
            ctx.instance("C19-U7", "%s delegates to %s" % (gate.name, dec.name), gate.loc(), ok=True)
        else:
            ctx.require(gp, "the validity predicate %s has no RDKit MolFrom* call and does not delegate to decompose" % gate.name)
            want = {parse_config(c) for c in dp}
            for c in gp:
                cfgc = parse_config(c)
                ok7 = cfgc in want
                ctx.instance("C19-U7", "%s parses with %s (sanitize=%s); decompose: %s" % (gate.name, cfgc[0], cfgc[1], sorted(want)), gate.loc(c), ok=ok7)
                if not ok7:
                    ctx.finding("C19-U7", "RuleImputeManager.%s:parser-weaker-than-decompose" % gate.name, gate.loc(c), "the validity gate parses with %s(sanitize=%s) while decompose parses with %s: a SMILES that passes the gate but that decompose cannot build is stored with an empty composition instead of being rejected" % (cfgc[0], cfgc[1], ", ".join("%s(sanitize=%s)" % w for w in sorted(want))))
    # ---------------------------------------------------------------- U8
    # the invariant holds in the initial states: every shipped record's composition is the composition of its SMILES
    # (shared with C08-D1)
    c08.rule_d1(ctx, "C19-U8")
    # ---------------------------------------------------------------- U5
    for name, rel, db in c08.databases(ctx):
        seen_f: Dict[str, int] = {}
        seen_s: Dict[str, int] = {}
        for i, rec in enumerate(db):
            fkey, skey = rec.get("formula"), rec.get("smiles")
            dupf = fkey in seen_f
            dups = skey in seen_s
            ctx.instance("C19-U5", "%s#%d %s|%s" % (name, i, fkey, skey), "%s#%d" % (rel, i), ok=not (dupf or dups))
            if dupf:
                ctx.finding("C19-U5", "%s:duplicate-formula:%s" % (name, fkey), "%s#%d" % (rel, i), "formula %r occurs in records #%d and #%d" % (fkey, seen_f[fkey], i))
            if dups:
                ctx.finding("C19-U5", "%s:duplicate-smiles:%s" % (name, skey), "%s#%d" % (rel, i), "SMILES %r occurs in records #%d and #%d" % (skey, seen_s[skey], i))
            seen_f.setdefault(fkey, i)
            seen_s.setdefault(skey, i)


def _false_edge_dominates(cfg: CFG, if_node: ast.If, target: int) -> bool:
    """the mutation is reached only through the *not rejected* edge"""
    t = cfg.node_of(if_node)
    for s in cfg.nodes[t].succ:
        nd = cfg.nodes[s]
        if nd.kind == "edge" and nd.polarity is False:
            return cfg.dominates(s, target)
    return False
