"""C09 - fragment merging: reported rules explain the result (structural clauses)."""

from __future__ import annotations

import ast
import os
from typing import Dict, List, Optional, Set, Tuple

from .. import tables
from ..cfg import CFG
from ..model import AnalysisError, Class, Func, own_nodes, unparse
from ..util import assignments_to, calls, const_str, names_in

EXPLANATION = (
    "Decides structural clauses of C09, not the cut/merge round trip or valences (RDKit computations over all molecules): (M1) in "
    "MergeRule.apply, ExpandRule.apply and CompoundRule.apply every path to a normal return passes an append of the rule itself to the "
    "rules list of the compound that is returned; MergeRule.apply also carries over the absorbed compound's rules and merge() prepends "
    "the rules of deactivated compounds - necessary for `heavy atoms = fragments + compounds named in the reported rules`; (M2) the "
    "three rule tables agree with the code that interprets them, exhaustively: every key of every rule / condition / action object is "
    "an accepted constructor parameter (the _check_config contract evaluated from the signatures), every action type is registered, "
    "every bond name is handled by parse_bond_type, every functional-group name (with or without '!') is a key of "
    "functional_group_config, every expansion compound parses, has its index inside the molecule and contains no carbon, rule names "
    "are unique per table, the merge table ends with an unconditional rule; (M3) no function of the merge machinery reachable from "
    "merge() deletes atoms (RemoveAtom / DeleteSubstructs / ReplaceSubstructs); (M4) hydrogen fixing is applied to both boundary atoms "
    "under `bond_type is not None` before merge_two_mols and reduces the explicit H count by the bond order."
    " (M5) no loop iterates the live compound list while its body reaches a list mutator; (M6) in MergeRule.apply the compound that is updated, that inherits the other compound's rules and that is returned is <b>.compound of the boundary b removed by update(), as b is bound at that point (a look-up taken before the boundary swap is stale); (M7) <compound>.mol is assigned only by methods of Compound and of the rule/action classes, never by the orchestration in merge.py."
    ' (M9) the classification loop of merge() hands every compound to a collector on every path; (M10) explicit hydrogen counts are changed only by the hydrogen-fixing helper of MergeRule.apply.'
    ' (M11) lists joined by position derive from the same selection (shared with C06-B3); (M12) no state shared between calls on the merge path, memo tables keyed by a projection of a parameter included (shared with C06-B4).'
    ' (M13) nobody edits the container that is a parameter default of the merge stage (shared with C06-B13). (M14) Compound.concat joins the SMILES of every part with multiplicity, no set.'
    ' (M15) on the merge path compounds are not collected in a dict / set keyed by their SMILES.'
)
ASSUMPTIONS = ["RDKit CombineMols/AddBond conserve atoms (library)"]

RULES = "synrbl.SynMCSImputer.rules"
MERGE = "synrbl.SynMCSImputer.merge.merge"
MACHINERY = ("synrbl.SynMCSImputer.merge", "synrbl.SynMCSImputer.rules", "synrbl.SynMCSImputer.structure", "synrbl.SynMCSImputer.utils")
ATOM_DELETERS = {"RemoveAtom", "DeleteSubstructs", "ReplaceSubstructs", "ReplaceCore", "ReplaceSidechains"}


def _init_params(prog, qual: str) -> Set[str]:
    cls = prog.cls(qual)
    init = prog.lookup_method(cls, "__init__")
    if init is None:
        raise AnalysisError("%s has no __init__" % qual)
    return set(init.params[1:] + init.kwonly)


def _registered(prog, base: str) -> Dict[str, str]:
    """type name -> class qualname from ``Base.register("name", Class)`` at module level"""
    m = prog.module(RULES)
    out = {}
    for n in m.tree.body:
        if isinstance(n, ast.Expr) and isinstance(n.value, ast.Call) and unparse(n.value.func) == "%s.register" % base and len(n.value.args) == 2:
            name = const_str(n.value.args[0])
            cls = unparse(n.value.args[1])
            if name:
                out[name] = RULES + "." + cls
    return out


def _bond_names(prog) -> Set[object]:
    f = prog.func(RULES + ".parse_bond_type")
    out: Set[object] = set()
    for n in own_nodes(f.node):
        if isinstance(n, ast.Compare) and len(n.ops) == 1 and isinstance(n.left, ast.Name) and n.left.id == f.params[0]:
            c = n.comparators[0]
            if isinstance(n.ops[0], ast.Eq) and isinstance(c, ast.Constant):
                out.add(c.value)
            if isinstance(n.ops[0], ast.Is) and isinstance(c, ast.Constant) and c.value is None:
                out.add(None)
    return out


def _fg_names(prog) -> Set[str]:
    m = prog.module("synrbl.SynUtils.functional_group_utils")
    d = m.assigns.get("functional_group_config")
    if not isinstance(d, ast.Dict):
        raise AnalysisError("functional_group_config is no longer a literal dict")
    return {const_str(k) for k in d.keys if const_str(k)}


def _strip_neg(x):
    return x[1:] if isinstance(x, str) and x.startswith("!") else x


def _as_list(x):
    return x if isinstance(x, list) else [x]


def rule_m1(ctx) -> None:
    ctx.rule("C09-M1", "every applied rule appends itself to the rules of the compound it returns, on every normal path", 4)
    prog = ctx.prog
    for qual in ("MergeRule", "ExpandRule", "CompoundRule"):
        f = prog.func("%s.%s.apply" % (RULES, qual))
        cfg = CFG(f.node)
        rets = [n for n in own_nodes(f.node) if isinstance(n, ast.Return) and n.value is not None]
        ctx.require(rets, "%s.apply returns nothing" % qual)
        ret_txt = {unparse(r.value) for r in rets}

        def is_self_append(node) -> bool:
            a = node.ast
            if a is None or not isinstance(a, ast.stmt):
                return False
            for c in ast.walk(a):
                if isinstance(c, ast.Call) and isinstance(c.func, ast.Attribute) and c.func.attr == "append" and c.args and isinstance(c.args[0], ast.Name) and c.args[0].id == f.params[0]:
                    recv = unparse(c.func.value)
                    if recv.endswith(".rules") and recv[: -len(".rules")] in ret_txt:
                        return True
            return False

        ok, _ = cfg.every_path_to_exit_passes(cfg.entry, lambda nd: nd.kind == "stmt" and is_self_append(nd))
        ctx.instance("C09-M1", "%s.apply: every normal return passes <returned>.rules.append(self)" % qual, f.loc(), ok=ok)
        if not ok:
            ctx.finding("C09-M1", "rules.%s.apply:self-not-recorded" % qual, f.loc(), "a path through %s.apply returns a compound without the rule having appended itself to its rules (the reported rules would not explain the result)" % qual, path="%s.apply: entry -> return" % qual)
    # carry-over of the absorbed compound's rules
    f = prog.func(RULES + ".MergeRule.apply")
    carry = [c for c in calls(f) if isinstance(c.func, ast.Attribute) and c.func.attr == "extend" and unparse(c.func.value).endswith(".rules") and c.args and unparse(c.args[0]).endswith(".rules")]
    cfg = CFG(f.node)
    okc = bool(carry)
    if okc:
        nid = cfg.node_of(carry[0])
        okc, _ = cfg.every_path_to_exit_passes(cfg.entry, lambda nd: nd.id == nid)
    ctx.instance("C09-M1", "MergeRule.apply carries over the absorbed compound's rules", f.loc(carry[0]) if carry else f.loc(), ok=okc)
    if not okc:
        ctx.finding("C09-M1", "rules.MergeRule.apply:absorbed-rules-lost", f.loc(), "the rules recorded on the absorbed compound are not carried over to the merged compound")
    mg = prog.func(MERGE)
    pre = [n for n in own_nodes(mg.node) if isinstance(n, ast.Assign) and unparse(n.targets[0]).endswith(".rules") and isinstance(n.value, ast.BinOp) and "removed_rules" in unparse(n.value)]
    ctx.instance("C09-M1", "merge() prepends the rules of deactivated compounds", mg.loc(pre[0]) if pre else mg.loc(), ok=bool(pre))
    if not pre:
        ctx.finding("C09-M1", "merge.merge:removed-rules-lost", mg.loc(), "rules of deactivated compounds are not added to the merged compound's rules")
    # concat keeps rules
    cc = prog.func("synrbl.SynMCSImputer.structure.Compound.concat")
    okk = any(isinstance(c.func, ast.Attribute) and c.func.attr == "extend" and unparse(c.func.value) == "self.rules" for c in calls(cc))
    ctx.instance("C09-M1", "Compound.concat extends the rules with the other compound's rules", cc.loc(), ok=okk)
    if not okk:
        ctx.finding("C09-M1", "structure.Compound.concat:rules-lost", cc.loc(), "concatenation drops the rules of the appended compound")


def rule_m2(ctx) -> None:
    ctx.rule("C09-M2", "rule tables use only parameters, action types, bond names and functional groups the code accepts", 17)
    prog = ctx.prog
    fg = _fg_names(prog)
    bonds = _bond_names(prog)
    actions = _registered(prog, "Action")
    cactions = _registered(prog, "CompoundAction")
    ctx.require(len(fg) >= 20 and len(bonds) >= 3 and actions and cactions, "rule vocabulary could not be extracted (fg=%d bonds=%s actions=%s)" % (len(fg), bonds, sorted(actions)))
    P = lambda q: _init_params(prog, RULES + "." + q)

    def check_keys(table, rname, where, obj, allowed, what):
        for k in obj:
            if k not in allowed:
                ctx.finding("C09-M2", "%s:%s:unknown-key:%s" % (table, rname, k), where, "%s has key %r which %s does not accept (accepted: %s)" % (what, k, what.split()[0], sorted(allowed)))
                return False
        return True

    def check_boundary_cond(table, rname, where, cond):
        ok = check_keys(table, rname, where, cond, P("BoundaryCondition"), "BoundaryCondition of rule %r" % rname)
        for g in _as_list(cond.get("functional_group", [])):
            if _strip_neg(g) not in fg:
                ctx.finding("C09-M2", "%s:%s:unknown-functional-group:%s" % (table, rname, g), where, "functional group %r is not a key of functional_group_config" % g)
                ok = False
        for key in ("pattern", "src_pattern"):
            for p in _as_list(cond.get(key, [])):
                if tables.heavy_atoms(_strip_neg(p)) is None:
                    ctx.finding("C09-M2", "%s:%s:bad-pattern:%s" % (table, rname, p), where, "pattern %r does not parse" % p)
                    ok = False
        return ok

    def load(fname):
        p = tables.resource_path(prog, fname)
        return os.path.relpath(p, prog.repo), tables.load_json(p)

    # ---- merge rules
    rel, merge_rules = load("merge_rules.json")
    names = []
    for i, r in enumerate(merge_rules):
        where = "%s#%d" % (rel, i)
        rname = r.get("name", "unnamed")
        names.append(rname)
        ok = check_keys("merge_rules", rname, where, r, P("MergeRule"), "MergeRule %r" % rname)
        for ck in ("condition1", "condition2"):
            ok = check_boundary_cond("merge_rules", rname, where, r.get(ck, {})) and ok
        for ak in ("action1", "action2"):
            for a in _as_list(r.get(ak, [])):
                t = a.get("type")
                if t not in actions:
                    ctx.finding("C09-M2", "merge_rules:%s:unknown-action:%s" % (rname, t), where, "action type %r is not registered (registered: %s)" % (t, sorted(actions)))
                    ok = False
                    continue
                allowed = _init_params(prog, actions[t]) | {"type"}
                ok = check_keys("merge_rules", rname, where, a, allowed, "%s of rule %r" % (actions[t].split(".")[-1], rname)) and ok
                if "bond" in a and a["bond"] not in bonds:
                    ctx.finding("C09-M2", "merge_rules:%s:unknown-bond:%s" % (rname, a["bond"]), where, "bond %r is not handled by parse_bond_type" % a["bond"])
                    ok = False
        if r.get("bond") not in bonds:
            ctx.finding("C09-M2", "merge_rules:%s:unknown-bond:%s" % (rname, r.get("bond")), where, "bond %r is not handled by parse_bond_type (handled: %s)" % (r.get("bond"), sorted(map(str, bonds))))
            ok = False
        ctx.instance("C09-M2", "merge_rules %r" % rname, where, ok=ok)
    last = merge_rules[-1] if merge_rules else {}
    okl = bool(merge_rules) and not last.get("condition1") and not last.get("condition2") and last.get("bond") is not None
    ctx.instance("C09-M2", "merge table ends with an unconditional bonding rule (%r)" % last.get("name"), rel, ok=okl)
    if not okl:
        ctx.finding("C09-M2", "merge_rules:no-default-rule", rel, "the merge table does not end with an unconditional rule that forms a bond")
    _unique("merge_rules", rel, names, ctx)
    # ---- expand rules
    rel, expand_rules = load("expand_rules.json")
    names = []
    for i, r in enumerate(expand_rules):
        where = "%s#%d" % (rel, i)
        rname = r.get("name", "unnamed")
        names.append(rname)
        ok = check_keys("expand_rules", rname, where, r, P("ExpandRule"), "ExpandRule %r" % rname)
        ok = check_boundary_cond("expand_rules", rname, where, r.get("condition", {})) and ok
        comp = r.get("compound") or {}
        atoms = tables.heavy_atoms(comp.get("smiles", "")) if isinstance(comp.get("smiles"), str) else None
        if atoms is None:
            ctx.finding("C09-M2", "expand_rules:%s:compound-unparsable" % rname, where, "expansion compound %r does not parse" % comp.get("smiles"))
            ok = False
        else:
            idx = comp.get("index")
            if not isinstance(idx, int) or not (0 <= idx < len(atoms)):
                ctx.finding("C09-M2", "expand_rules:%s:compound-index" % rname, where, "boundary index %r is outside the %d atoms of %r" % (idx, len(atoms), comp.get("smiles")))
                ok = False
            if any(s == "C" for s, _ in atoms):
                ctx.finding("C09-M2", "expand_rules:%s:compound-has-carbon" % rname, where, "expansion compound %r contains carbon: an expansion would change the number of carbon atoms" % comp.get("smiles"))
                ok = False
            if set(comp) - {"smiles", "index"}:
                ctx.finding("C09-M2", "expand_rules:%s:compound-keys" % rname, where, "compound object has unexpected keys %s" % sorted(set(comp) - {"smiles", "index"}))
                ok = False
        ctx.instance("C09-M2", "expand_rules %r (+%s)" % (rname, comp.get("smiles")), where, ok=ok)
    _unique("expand_rules", rel, names, ctx)
    # ---- compound rules
    rel, compound_rules = load("compound_rules.json")
    names = []
    for i, r in enumerate(compound_rules):
        where = "%s#%d" % (rel, i)
        rname = r.get("name", "unnamed")
        names.append(rname)
        ok = check_keys("compound_rules", rname, where, r, P("CompoundRule"), "CompoundRule %r" % rname)
        cond = r.get("condition", {})
        ok = check_keys("compound_rules", rname, where, cond, P("CompoundRuleCondition"), "CompoundRuleCondition of %r" % rname) and ok
        cc = cond.get("compound", {})
        ok = check_keys("compound_rules", rname, where, cc, P("CompoundCondition"), "CompoundCondition of %r" % rname) and ok
        for g in _as_list(cc.get("functional_group", [])):
            if _strip_neg(g) not in fg:
                ctx.finding("C09-M2", "compound_rules:%s:unknown-functional-group:%s" % (rname, g), where, "functional group %r is not a key of functional_group_config" % g)
                ok = False
        ok = check_keys("compound_rules", rname, where, cond.get("set", {}), P("SetCondition"), "SetCondition of %r" % rname) and ok
        for a in _as_list(r.get("action", [])):
            t = a.get("type")
            if t not in cactions:
                ctx.finding("C09-M2", "compound_rules:%s:unknown-action:%s" % (rname, t), where, "compound action type %r is not registered (registered: %s)" % (t, sorted(cactions)))
                ok = False
                continue
            allowed = _init_params(prog, cactions[t]) | {"type"}
            ok = check_keys("compound_rules", rname, where, a, allowed, "%s of rule %r" % (cactions[t].split(".")[-1], rname)) and ok
            if "functional_group" in a and _strip_neg(a["functional_group"]) not in fg:
                ctx.finding("C09-M2", "compound_rules:%s:unknown-functional-group:%s" % (rname, a["functional_group"]), where, "functional group %r is not a key of functional_group_config" % a["functional_group"])
                ok = False
            if t == "add_boundary":
                atoms = tables.heavy_atoms(a.get("pattern", "")) if isinstance(a.get("pattern"), str) else None
                if atoms is None or not isinstance(a.get("index"), int) or not (0 <= a["index"] < len(atoms)):
                    ctx.finding("C09-M2", "compound_rules:%s:add_boundary-index" % rname, where, "add_boundary index %r is outside pattern %r" % (a.get("index"), a.get("pattern")))
                    ok = False
        ctx.instance("C09-M2", "compound_rules %r" % rname, where, ok=ok)
    _unique("compound_rules", rel, names, ctx)


def _unique(table, rel, names, ctx):
    seen = set()
    for n in names:
        if n in seen:
            ctx.finding("C09-M2", "%s:duplicate-name:%s" % (table, n), rel, "two rules of %s share the name %r; the reported rules are names" % (table, n))
        seen.add(n)


def deleter_sites(f: Func) -> List[ast.Call]:
    return [c for c in calls(f) if isinstance(c.func, ast.Attribute) and c.func.attr in ATOM_DELETERS]


def rule_m3(ctx) -> None:
    ctx.rule("C09-M3", "no function of the merge machinery reachable from merge() deletes atoms", 20)
    prog = ctx.prog
    reach = ctx.res.reachable([MERGE], ctx.graph)
    n = 0
    for q in sorted(reach):
        f = prog.functions.get(q)
        if f is None:
            continue
        in_machinery = f.module.name in MACHINERY
        sites = deleter_sites(f)
        if in_machinery:
            n += 1
            ctx.instance("C09-M3", q.split("synrbl.", 1)[-1], f.loc(), ok=not sites, nontrivial=True)
            for s in sites:
                ctx.finding("C09-M3", "%s:%s" % (q.split("synrbl.", 1)[-1], s.func.attr), f.loc(s), "%s deletes atoms of a molecule on the merge path (%s)" % (f.name, unparse(s)[:50]))
        elif sites:
            ctx.note("atom deletion outside the merge machinery, on a scratch copy used for matching: %s (%s)" % (q.split("synrbl.", 1)[-1], ", ".join(f.loc(s) for s in sites)))
    ctx.require(n >= 20, "only %d functions of the merge machinery are reachable from merge() (resolver lost the rule objects)" % n)
    # the detector itself must be alive: positive fixture
    fx = ast.parse("def f(m):\n    m.RemoveAtom(3)\n    return m\n")
    from ..model import set_parents

    set_parents(fx)
    hits = [c for c in ast.walk(fx) if isinstance(c, ast.Call) and isinstance(c.func, ast.Attribute) and c.func.attr in ATOM_DELETERS]
    ctx.require(len(hits) == 1, "atom-deletion detector fixture did not fire")
    # re-parse of a compound from an *edited* SMILES string
    for q in sorted(reach):
        f = prog.functions.get(q)
        if f is None or f.module.name not in MACHINERY:
            continue
        for node in own_nodes(f.node):
            if isinstance(node, ast.Assign) and isinstance(node.value, ast.Call) and isinstance(node.value.func, ast.Attribute) and node.value.func.attr in ("replace", "sub") and node.targets and isinstance(node.targets[0], ast.Name):
                name = node.targets[0].id
                later = [c for c in calls(f) if c.lineno > node.lineno and unparse(c.func).endswith("MolFromSmiles") and c.args and isinstance(c.args[0], ast.Name) and c.args[0].id == name]
                if later and "smiles" in unparse(node.value.func.value).lower():
                    ctx.finding("C09-M3", "%s:reparse-edited-smiles" % q.split("synrbl.", 1)[-1], f.loc(node), "a compound is re-parsed from a SMILES string edited with %s(): atoms can be lost or renumbered" % node.value.func.attr)


def _h_fix_helper(ctx, f):
    """the helper of MergeRule.apply that lowers explicit hydrogen counts: the nested `_fix_Hs`, or a method / function
    that apply calls and that contains the SetNumExplicitHs call"""
    fix = f.nested.get("_fix_Hs")
    if fix is not None:
        return fix
    for c in calls(f):
        tgt = ctx.res.resolve_callee(c, f)
        g = ctx.prog.functions.get(tgt[1]) if tgt and tgt[0] == "func" else None
        if g is None and isinstance(c.func, ast.Attribute) and isinstance(c.func.value, ast.Name) and c.func.value.id in ("self", "cls") and f.cls is not None:
            g = ctx.prog.lookup_method(f.cls, c.func.attr)
        if g is not None and g is not f and any(isinstance(x, ast.Call) and isinstance(x.func, ast.Attribute) and x.func.attr == "SetNumExplicitHs" for x in own_nodes(g.node)):
            return g
    return None


def rule_m4(ctx) -> None:
    ctx.rule("C09-M4", "hydrogen fixing on both boundary atoms, under bond_type is not None, before merge_two_mols", 2)
    prog = ctx.prog
    f = prog.func(RULES + ".MergeRule.apply")
    cfg = CFG(f.node)
    fix = _h_fix_helper(ctx, f)
    ctx.require(fix is not None, "MergeRule.apply lost its _fix_Hs helper")
    fix_calls = [c for c in calls(f) if (isinstance(c.func, ast.Name) and c.func.id == fix.name) or (isinstance(c.func, ast.Attribute) and c.func.attr == fix.name)]
    merge_calls = [c for c in calls(f) if unparse(c.func).endswith("merge_two_mols")]
    ctx.require(merge_calls, "MergeRule.apply no longer calls merge_two_mols")
    args = sorted(unparse(c.args[0]) for c in fix_calls if c.args)
    both = len(fix_calls) == 2 and args == ["boundary1.get_atom()", "boundary2.get_atom()"]
    guarded = all(any(pol and "is not None" in unparse(cnd) and "bond_type" in unparse(cnd) for cnd, pol in cfg.guards(cfg.node_of(c))) for c in fix_calls) and bool(fix_calls)
    before = all(c.lineno < merge_calls[0].lineno for c in fix_calls)
    same_nr = len({unparse(c.args[1]) for c in fix_calls if len(c.args) > 1}) == 1
    ok = both and guarded and before and same_nr
    ctx.instance("C09-M4", "_fix_Hs on %s (guarded=%s, before merge=%s)" % (args, guarded, before), f.loc(fix_calls[0]) if fix_calls else f.loc(), ok=ok)
    if not ok:
        ctx.finding("C09-M4", "rules.MergeRule.apply:fix-Hs-pairing", f.loc(), "explicit-hydrogen fixing is not applied to both boundary atoms under `bond_type is not None` before the merge (calls on %s)" % args)
    src = unparse(fix.node)
    ok2 = "SetNumExplicitHs" in src and "GetNumExplicitHs() - %s" % fix.params[1] in src and "max" in src
    ctx.instance("C09-M4", "_fix_Hs reduces explicit H by the bond order, not below 0", fix.loc(), ok=ok2)
    if not ok2:
        ctx.finding("C09-M4", "rules.MergeRule.apply._fix_Hs:arithmetic", fix.loc(), "_fix_Hs no longer sets explicit H to max(0, explicit H - bond order)")
    # merge_two_mols adds exactly one bond and combines both molecules
    m2 = prog.func("synrbl.SynMCSImputer.utils.merge_two_mols")
    src = unparse(m2.node)
    ok3 = "CombineMols(%s, %s)" % (m2.params[0], m2.params[1]) in src and src.count(".AddBond(") == 1 and not deleter_sites(m2)
    # the second molecule's atoms sit behind ALL atoms of the first one
    off_ok = False
    for n in own_nodes(m2.node):
        if isinstance(n, ast.Assign) and isinstance(n.targets[0], ast.Name) and "offset" in n.targets[0].id:
            t = unparse(n.value)
            off_ok = t in ("len(%s.GetAtoms())" % m2.params[0], "%s.GetNumAtoms()" % m2.params[0])
            ctx.instance("C09-M4", "merge_two_mols: offset of the second molecule = %s" % t, m2.loc(n), ok=off_ok)
            if not off_ok:
                ctx.finding("C09-M4", "utils.merge_two_mols:offset", m2.loc(n), "the index offset of the second molecule is %s, not the number of atoms of the first molecule: with explicit hydrogen atoms in the graph the new bond lands on the wrong atom" % t)
    ctx.instance("C09-M4", "merge_two_mols = CombineMols(mol1, mol2) + one AddBond", m2.loc(), ok=ok3)
    if not ok3:
        ctx.finding("C09-M4", "utils.merge_two_mols:combine", m2.loc(), "merge_two_mols is no longer CombineMols of both molecules plus a single new bond")


def rule_m10(ctx) -> None:
    """A new bond costs each of its two atoms `bond order` hydrogens, once.  M4 pins the one place where that is done
    (`_fix_Hs` in MergeRule.apply, before merge_two_mols).  Any second site on the merge path that lowers explicit
    hydrogen counts releases them twice for atoms that carry two or more ([NH4+], [13CH4], [SiH4])."""
    ctx.rule("C09-M10", "explicit hydrogen counts are changed only by the hydrogen-fixing helper of MergeRule.apply", 1)
    prog = ctx.prog
    f = prog.func(RULES + ".MergeRule.apply")
    fix = _h_fix_helper(ctx, f)
    ctx.require(fix is not None, "MergeRule.apply lost its _fix_Hs helper")
    sites = []
    for q, g in sorted(prog.functions.items()):
        if g.module.name not in MACHINERY:
            continue
        for c in calls(g):
            if isinstance(c.func, ast.Attribute) and c.func.attr == "SetNumExplicitHs":
                sites.append((g, c))
    ctx.require(sites, "no SetNumExplicitHs call left in the merge machinery")
    for g, c in sites:
        ok = g is fix
        ctx.instance("C09-M10", "%s: %s" % (g.qualname.split("synrbl.SynMCSImputer.", 1)[-1], unparse(c)[:60]), g.loc(c), ok=ok)
        if not ok:
            ctx.finding("C09-M10", "%s:second-hydrogen-release" % g.qualname.split("synrbl.SynMCSImputer.", 1)[-1], g.loc(c), "%s changes explicit hydrogen counts (%s) in addition to _fix_Hs of MergeRule.apply: hydrogens of the bonded atoms are released twice, so an atom written with two or more hydrogens ends one short" % (g.name, unparse(c)[:60]))


def rule_m5(ctx) -> None:
    """No loop of the merge machinery iterates the live compound list while
    its body (transitively) adds to or removes from that list."""
    ctx.rule("C09-M5", "the live compound list is not mutated while it is iterated", 1)
    prog = ctx.prog
    cs = prog.cls("synrbl.SynMCSImputer.structure.CompoundSet")
    # properties / methods that hand out the internal list itself
    live = set()
    for m in cs.methods.values():
        rets = [n for n in own_nodes(m.node) if isinstance(n, ast.Return) and n.value is not None]
        if rets and all(isinstance(r.value, ast.Attribute) and isinstance(r.value.value, ast.Name) and r.value.value.id == m.params[0] for r in rets):
            live.add(m.name)
    mutators = {m.qualname for m in cs.methods.values() if any(isinstance(n, ast.Call) and isinstance(n.func, ast.Attribute) and n.func.attr in ("remove", "append", "pop", "insert", "clear", "extend") and isinstance(n.func.value, ast.Attribute) for n in own_nodes(m.node))}
    ctx.require(live and mutators, "CompoundSet no longer exposes its list / mutators (%s / %s)" % (live, mutators))
    reach = ctx.res.reachable([MERGE], ctx.graph)
    n = 0
    for q in sorted(reach):
        f = prog.functions.get(q)
        if f is None or f.module.name not in MACHINERY:
            continue
        for loop in [x for x in own_nodes(f.node) if isinstance(x, ast.For)]:
            it = loop.iter
            if not (isinstance(it, ast.Attribute) and it.attr in live):
                continue
            n += 1
            reached = set()
            for c in [y for y in ast.walk(loop) if isinstance(y, ast.Call)]:
                tgt = ctx.res.resolve_callee(c, f)
                if tgt and tgt[0] == "func":
                    reached |= ctx.res.reachable([tgt[1]], ctx.graph)
                elif tgt and tgt[0] == "method":
                    for mm in ctx.res.methods_named(tgt[1]):
                        reached |= ctx.res.reachable([mm.qualname], ctx.graph)
            bad = sorted(reached & mutators)
            ctx.instance("C09-M5", "%s: loop over %s; body reaches list mutators: %s" % (f.name, unparse(it), bad or "none"), f.loc(loop), ok=not bad)
            if bad:
                ctx.finding("C09-M5", "%s:mutates-iterated-list" % q.split("synrbl.", 1)[-1], f.loc(loop), "the loop iterates the live list %s while its body reaches %s: the iterator skips the element after every removal, so compounds silently drop out of the merged product" % (unparse(it), ", ".join(b.split(".")[-1] for b in bad)))
    ctx.require(n >= 1, "no loop over the live compound list found in the merge machinery")


def rule_m9(ctx) -> None:
    """merge() sorts the compounds of the set into the lists it goes on to merge / concatenate.  Every compound must be
    accounted for: each path through the body of that loop hands the compound (or, for a deactivated one, its rules) to
    a collector.  A path that falls through drops the compound - and its atoms - from the merged product silently."""
    from ..model import clone, set_parents

    ctx.rule("C09-M9", "the classification loop of merge() hands every compound to a collector on every path", 1)
    f = ctx.prog.func(MERGE)
    n = 0
    for loop in [x for x in own_nodes(f.node) if isinstance(x, ast.For) and isinstance(x.target, ast.Name)]:
        it = loop.iter
        if not (isinstance(it, ast.Attribute) and it.attr == "compounds"):
            continue
        var = loop.target.id
        n += 1
        body = clone(loop.body)
        fn = ast.FunctionDef(name="_body", args=ast.arguments(posonlyargs=[], args=[ast.arg(arg=var)], kwonlyargs=[], kw_defaults=[], defaults=[]), body=body, decorator_list=[], lineno=loop.lineno, col_offset=0)
        for x in ast.walk(fn):
            for fld, val in list(ast.iter_fields(x)):
                if isinstance(val, list):
                    for i, y in enumerate(val):
                        if isinstance(y, ast.Continue):
                            val[i] = ast.copy_location(ast.Return(value=None), y)
        ast.fix_missing_locations(fn)
        set_parents(fn)
        cfg = CFG(fn)

        def accounts(nd) -> bool:
            a = getattr(nd, "ast", None)
            if a is None or nd.kind != "stmt":
                return False
            for c in ast.walk(a):
                if isinstance(c, ast.Call) and isinstance(c.func, ast.Attribute) and c.func.attr in ("append", "extend", "add", "insert", "concat") and any(isinstance(z, ast.Name) and z.id == var for arg in c.args for z in ast.walk(arg)):
                    return True
            return False

        ok, _ = cfg.every_path_to_exit_passes(cfg.entry, accounts)
        ctx.instance("C09-M9", "merge: every path through the loop over %s collects %s" % (unparse(it), var), f.loc(loop), ok=ok)
        if not ok:
            ctx.finding("C09-M9", "merge.merge:compound-dropped", f.loc(loop), "a path through the classification loop of merge() hands the compound %r to no collector: such a compound (e.g. one without boundaries that is not a catalyst) vanishes from the merged product with its atoms" % var)
    ctx.require(n >= 1, "merge() no longer classifies compound_set.compounds in a loop")


def rule_m6(ctx) -> None:
    """MergeRule.apply may swap its two boundaries before merging.  The compound
    that receives the merged molecule, loses a boundary, inherits the other
    compound's rules and is returned must be the compound *of the boundary that is
    removed* at that point of the function - not one looked up before the swap."""
    ctx.rule("C09-M6", "in MergeRule.apply the updated / extended / returned compound is <b>.compound of the boundary b removed by update(), as b is bound at that point", 2)
    prog = ctx.prog
    f = prog.func(RULES + ".MergeRule.apply")
    cfg = CFG(f.node)

    def rebinds(name):
        out = []
        for n in own_nodes(f.node):
            if isinstance(n, (ast.Assign, ast.AugAssign, ast.AnnAssign)):
                tg = n.targets if isinstance(n, ast.Assign) else [n.target]
                if any(isinstance(x, ast.Name) and x.id == name for t in tg for x in ast.walk(t)):
                    out.append(n)
        return out

    def owner(expr, at):
        """(boundary name, None) if ``expr`` denotes <boundary>.compound as bound at ``at``; else (None, reason)"""
        if isinstance(expr, ast.Attribute) and expr.attr == "compound" and isinstance(expr.value, ast.Name):
            return expr.value.id, None
        if isinstance(expr, ast.Name):
            asg = assignments_to(f, expr.id)
            if len(asg) != 1:
                return None, "%s has %d assignments" % (expr.id, len(asg))
            stmt, v, _i = asg[0]
            if not (isinstance(v, ast.Attribute) and v.attr == "compound" and isinstance(v.value, ast.Name)):
                return None, "%s is not <boundary>.compound" % expr.id
            b = v.value.id
            a_id, u_id = cfg.node_of(stmt), cfg.node_of(at)
            after = cfg.reachable_from(a_id) if a_id is not None else set()
            for r in rebinds(b):
                r_id = cfg.node_of(r)
                if r_id is not None and r_id != a_id and r_id in after and u_id in cfg.reachable_from(r_id):
                    return None, "%s = %s.compound is taken at line %d, but %s is re-bound at line %d before the use at line %d" % (expr.id, b, stmt.lineno, b, r.lineno, at.lineno)
            return b, None
        return None, "unrecognised receiver %s" % unparse(expr)[:40]

    ups = [c for c in calls(f) if isinstance(c.func, ast.Attribute) and c.func.attr == "update" and len(c.args) == 2 and isinstance(c.args[1], ast.Name)]
    ctx.require(ups, "MergeRule.apply no longer calls <compound>.update(mol, boundary)")
    removed = None
    for c in ups:
        b, why = owner(c.func.value, c)
        removed = c.args[1].id
        ok = b == removed
        ctx.instance("C09-M6", "update(): receiver %s is the compound of the removed boundary %s" % (unparse(c.func.value), removed), f.loc(c), ok=ok, reason=why or "")
        if not ok:
            ctx.finding("C09-M6", "rules.MergeRule.apply:update-receiver", f.loc(c), "the compound that is updated is not the compound of the boundary that is removed from it (%s): after a swap the merged compound keeps an open boundary" % (why or "receiver belongs to %s, removed boundary is %s" % (b, removed)))
    for c in calls(f):
        if isinstance(c.func, ast.Attribute) and c.func.attr == "extend" and isinstance(c.func.value, ast.Attribute) and c.func.value.attr == "rules" and c.args and isinstance(c.args[0], ast.Attribute) and c.args[0].attr == "rules":
            tb, why1 = owner(c.func.value.value, c)
            sb, why2 = owner(c.args[0].value, c)
            ok = tb == removed and sb is not None and sb != tb
            ctx.instance("C09-M6", "rules carried over from %s.compound into %s.compound" % (sb, tb), f.loc(c), ok=ok, reason=why1 or why2 or "")
            if not ok:
                ctx.finding("C09-M6", "rules.MergeRule.apply:rules-carry-over", f.loc(c), "the rules are not carried from the absorbed compound into the merged one (%s)" % (why1 or why2 or "target %s, source %s" % (tb, sb)))
    for r in [n for n in own_nodes(f.node) if isinstance(n, ast.Return) and n.value is not None]:
        b, why = owner(r.value, r)
        ok = b == removed
        ctx.instance("C09-M6", "returns the merged compound (%s)" % unparse(r.value), f.loc(r), ok=ok, reason=why or "")
        if not ok:
            ctx.finding("C09-M6", "rules.MergeRule.apply:returned-compound", f.loc(r), "the compound returned is not the one that was merged into (%s)" % (why or "returns compound of %s, merged into %s" % (b, removed)))


def rule_m7(ctx) -> None:
    """Who may write a compound's molecule: the methods of Compound and the
    rule / action classes (which record themselves, M1).  The orchestration
    (plain functions of the merge machinery) only calls them; a molecule it
    assigns itself is not explained by any recorded rule."""
    ctx.rule("C09-M7", "<compound>.mol is assigned only by methods of Compound and of the rule/action classes", 3)
    prog = ctx.prog
    n_ok = 0
    for q, f in sorted(prog.functions.items()):
        if f.module.name not in MACHINERY:
            continue
        for n in own_nodes(f.node):
            if isinstance(n, (ast.Assign, ast.AugAssign, ast.AnnAssign)):
                tg = n.targets if isinstance(n, ast.Assign) else [n.target]
                for t in tg:
                    if isinstance(t, ast.Attribute) and t.attr == "mol" and isinstance(t.ctx, ast.Store):
                        root = f
                        while root.parent is not None:
                            root = root.parent
                        in_layer = root.cls is not None and (root.cls.name == "Compound" or root.module.name == RULES)
                        ctx.instance("C09-M7", "%s assigns %s" % (q.split("synrbl.", 1)[-1], unparse(t)), f.loc(n), ok=in_layer)
                        if in_layer:
                            n_ok += 1
                        else:
                            ctx.finding("C09-M7", "%s:assigns-mol" % q.split("synrbl.", 1)[-1], f.loc(n), "%s replaces the molecule of a compound outside the rule layer (%s): the rules reported for the product no longer account for its atoms" % (f.name, unparse(n)[:60]))
    ctx.require(n_ok >= 3, "fewer than 3 molecule writers found in the rule layer (%d)" % n_ok)


_COPY_CTORS = {"Mol", "RWMol", "deepcopy"}


def _only_copies_leave(prog, f) -> bool:
    """Every use of the memoised function's result is a `None` test or the argument of a copying constructor
    (`Chem.Mol(x)`, `RWMol(x)`, `copy.deepcopy(x)`): the stored molecule itself never reaches a caller."""
    sites = []
    for q, g in prog.functions.items():
        for c in calls(g):
            if unparse(c.func).split(".")[-1] == f.name and g is not f:
                sites.append((g, c))
    if not sites:
        return False

    def use_ok(n) -> bool:
        par = getattr(n, "_parent", None)
        if isinstance(par, ast.Compare) and len(par.ops) == 1 and isinstance(par.ops[0], (ast.Is, ast.IsNot)):
            return True
        if isinstance(par, ast.Call) and n in par.args and unparse(par.func).split(".")[-1] in _COPY_CTORS:
            return True
        return False

    for g, c in sites:
        if use_ok(c):
            continue
        par = getattr(c, "_parent", None)
        if not (isinstance(par, ast.Assign) and len(par.targets) == 1 and isinstance(par.targets[0], ast.Name)):
            return False
        nm = par.targets[0].id
        if len(assignments_to(g, nm)) != 1:
            return False
        for n in own_nodes(g.node):
            if isinstance(n, ast.Name) and n.id == nm and isinstance(n.ctx, ast.Load) and not use_ok(n):
                return False
    return True


def rule_m8(ctx) -> None:
    """The merge machinery edits molecules in place (hydrogen fixing on the boundary atoms, M4).  Every Compound must
    therefore own its molecule: a function that hands out RDKit molecules must not be memoised."""
    ctx.rule("C09-M8", "no memoised function of the merge machinery returns an RDKit molecule (molecules are edited in place)", 1)
    prog = ctx.prog
    MOL_MAKERS = {"MolFromSmiles", "MolFromSmarts", "MolFromMolBlock", "RWMol", "GetMol", "Mol", "AddHs", "RemoveHs"}
    editors = []
    for q, f in prog.functions.items():
        if f.module.name in MACHINERY:
            for c in calls(f):
                if isinstance(c.func, ast.Attribute) and c.func.attr in ("SetNumExplicitHs", "SetFormalCharge", "SetNoImplicit", "SetIsotope", "SetAtomMapNum", "SetNumRadicalElectrons"):
                    editors.append((f, c))
    ctx.instance("C09-M8", "in-place atom edits in the merge machinery: %d call(s)" % len(editors), editors[0][0].loc(editors[0][1]) if editors else "", ok=True, nontrivial=bool(editors))
    for q, f in sorted(prog.functions.items()):
        if f.module.name not in MACHINERY:
            continue
        decos = [unparse(d.func if isinstance(d, ast.Call) else d).split(".")[-1] for d in getattr(f.node, "decorator_list", [])]
        if not any(d in ("lru_cache", "cache", "cached", "memoize", "memoized") for d in decos):
            continue
        makes = [c for r in own_nodes(f.node) if isinstance(r, ast.Return) and r.value is not None for c in ast.walk(r.value) if isinstance(c, ast.Call) and unparse(c.func).split(".")[-1] in MOL_MAKERS]
        names = [r.value.id for r in own_nodes(f.node) if isinstance(r, ast.Return) and isinstance(r.value, ast.Name)]
        for nm in names:
            for _st, v, _i in assignments_to(f, nm):
                makes += [c for c in ast.walk(v) if isinstance(c, ast.Call) and unparse(c.func).split(".")[-1] in MOL_MAKERS]
        bad = bool(makes) and bool(editors) and not _only_copies_leave(prog, f)
        ctx.instance("C09-M8", "%s is memoised and returns a molecule: %s" % (q.split("synrbl.", 1)[-1], bool(makes)), f.loc(), ok=not bad)
        if bad:
            ctx.finding("C09-M8", "%s:memoised-molecule" % q.split("synrbl.", 1)[-1], f.loc(), "%s is memoised and returns an RDKit molecule; %s edits atoms of compound molecules in place (%s), so every later Compound built from the same SMILES starts from the edited molecule" % (f.name, editors[0][0].qualname.split(".")[-2] + "." + editors[0][0].name, unparse(editors[0][1])[:40]))


def check(ctx) -> None:
    rule_m15(ctx)
    rule_m10(ctx)
    rule_m9(ctx)
    rule_m8(ctx)
    rule_m7(ctx)
    rule_m6(ctx)
    rule_m1(ctx)
    rule_m2(ctx)
    rule_m3(ctx)
    rule_m4(ctx)
    rule_m5(ctx)
    # M11: product and rules are written to the reaction whose fragments they were computed from: lists joined by position
    # derive from the same selection (shared with C06-B3)
    from ..pipeline import Pipeline
    from . import c06

    c06.rule_b3(ctx, Pipeline(ctx), "C09-M11")
    # M12: the rule conditions see the molecule they are asked about: no state shared between calls on the merge path
    # (module-level tables keyed by less than their inputs), shared with C06-B4
    scope12 = {q for q in ctx.res.reachable([MERGE], ctx.graph) if q.startswith("synrbl.")}
    c06.rule_b4(ctx, scope12, "C09-M12", class_level=False)
    # M13: the merge stage driver used on its own behaves the same whatever was constructed before: nobody edits the
    # container that is the default of one of its parameters (shared with C06-B13)
    c06.rule_b13(ctx, "C09-M13")
    rule_m14(ctx)


def rule_m14(ctx, rule_id: str = "C09-M14") -> None:
    """Compounds without an open boundary are concatenated into the result as they are: the molecule of the result is
    parsed from the SMILES of *every* part, with multiplicity.  Two fragments of one molecule can be the same compound
    (two equal leaving groups); a set of their SMILES keeps one of them and the result loses heavy atoms."""
    ctx.rule(rule_id, "Compound.concat builds the joined molecule from every part's SMILES, with multiplicity (no set of SMILES)", 1)
    f = ctx.prog.func("synrbl.SynMCSImputer.structure.Compound.concat")
    sites = [c for c in calls(f) if unparse(c.func).split(".")[-1] == "_to_mol" and c.args]
    ctx.require(sites, "Compound.concat no longer parses the joined SMILES with _to_mol")

    def closure(e, depth=0, seen=None):
        seen = seen if seen is not None else set()
        out = [e]
        for x in ast.walk(e):
            if isinstance(x, ast.Name) and x.id not in seen and depth < 4:
                seen.add(x.id)
                for _st, v, _i in assignments_to(f, x.id):
                    out.extend(closure(v, depth + 1, seen))
        return out

    def dedups(e) -> Optional[ast.AST]:
        for x in ast.walk(e):
            if isinstance(x, (ast.Set, ast.SetComp, ast.DictComp)):
                return x
            if isinstance(x, ast.Call):
                t = unparse(x.func).split(".")[-1]
                if t in ("set", "frozenset", "fromkeys", "unique", "Counter", "drop_duplicates"):
                    return x
        return None

    for c in sites:
        bad = None
        for e in closure(c.args[0]):
            bad = bad or dedups(e)
        smi = any(isinstance(x, ast.Attribute) and x.attr in ("smiles", "src_smiles") for e in closure(c.args[0]) for x in ast.walk(e))
        ctx.instance(rule_id, "concat: %s (from the parts' SMILES: %s, de-duplicated: %s)" % (unparse(c)[:70], smi, bad is not None), f.loc(c), ok=bad is None)
        if bad is not None:
            ctx.finding(rule_id, "Compound.concat:parts-as-set", f.loc(c), "the SMILES of the parts are collected in a set (%s) before they are joined and parsed: two equal compounds (two identical leaving groups of one reaction) become one and the merged result loses their heavy atoms" % unparse(bad)[:60])


def rule_m15(ctx, rule_id: str = "C09-M15") -> None:
    """Two fragments of one molecule can be the same compound (a cut about which the molecule is symmetric: ethane,
    a disulfide, biphenyl).  On the merge path compounds are kept in lists; a dict or set *keyed by their SMILES* holds
    one of two equal fragments, the other vanishes and the merged product has half the atoms."""
    ctx.rule(rule_id, "on the merge path compounds are not collected in a dict / set keyed by their SMILES", 1)
    prog = ctx.prog
    scope = sorted({q for q in ctx.res.reachable([MERGE], ctx.graph) if q.startswith("synrbl.SynMCSImputer.")} | {q for q in prog.functions if q.startswith("synrbl.SynMCSImputer.structure.")})
    n = 0
    for q in scope:
        f = prog.functions.get(q)
        if f is None:
            continue
        n += 1
        for x in own_nodes(f.node):
            key = None
            if isinstance(x, ast.DictComp):
                key = x.key
            elif isinstance(x, ast.SetComp):
                key = x.elt
            elif isinstance(x, ast.Call) and isinstance(x.func, ast.Name) and x.func.id in ("dict", "set", "frozenset") and x.args and isinstance(x.args[0], (ast.GeneratorExp, ast.ListComp)):
                e = x.args[0].elt
                key = e.elts[0] if isinstance(e, ast.Tuple) and e.elts else e
            elif isinstance(x, ast.Assign) and len(x.targets) == 1 and isinstance(x.targets[0], ast.Subscript) and (isinstance(getattr(x, "_parent", None), ast.For) or "compound" in unparse(x.targets[0].value).lower()):
                key = x.targets[0].slice
                # a key computed by a helper: judge what the helper returns
                if isinstance(key, ast.Call):
                    tg = ctx.res.resolve_callee(key, f)
                    g = prog.functions.get(tg[1]) if tg and tg[0] == "func" else None
                    if g is not None:
                        rets = [r.value for r in own_nodes(g.node) if isinstance(r, ast.Return) and r.value is not None]
                        if rets:
                            extra = [v for r_ in rets for nm in {y.id for y in ast.walk(r_) if isinstance(y, ast.Name)} for _s, v, _i in assignments_to(g, nm)]
                            key = ast.Tuple(elts=rets + extra, ctx=ast.Load())
            if key is None:
                continue
            by_smiles = any(isinstance(y, ast.Attribute) and y.attr in ("smiles", "src_smiles") for y in ast.walk(key)) or any(isinstance(y, ast.Call) and unparse(y.func).split(".")[-1] in ("MolToSmiles", "CanonSmiles") for y in ast.walk(key))
            if not by_smiles:
                continue
            ctx.instance(rule_id, "%s: %s" % (q.split("synrbl.", 1)[-1], unparse(x)[:60]), f.loc(x), ok=False)
            ctx.finding(rule_id, "%s:compounds-keyed-by-smiles" % q.split("synrbl.", 1)[-1], f.loc(x), "%s collects compounds under their SMILES (%s): two equal fragments - the halves of a molecule cut at its symmetric bond - become one entry, the second fragment is dropped and the merged product loses its atoms" % (f.name, unparse(x)[:60]))
    ctx.instance(rule_id, "%d function(s) of the merge path inspected" % n, "", ok=True)
    ctx.require(n >= 5, "merge path collapsed (%d functions)" % n)
