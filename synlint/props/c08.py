"""C08 - rule-based completions add up exactly to the imbalance (data clause,
acceptance guard, ban list x database, provenance of appended text)."""

from __future__ import annotations

import ast
import os
import re
from typing import Dict, List, Optional, Tuple

from .. import tables
from ..cfg import CFG, normal_compare, split_cond
from ..model import AnalysisError, Func, dotted, own_nodes, unparse
from ..util import assignments_to, calls, const_str, names_in

EXPLANATION = (
    "Decides the data clause of C08 completely and the structural part of the solver: (D1) for every record of both shipped rule "
    "databases the recorded Composition (with explicit Q) equals the composition of its SMILES literal, folded with RDKit "
    "(parse, AddHs, count by symbol, net formal charge) and cross-checked by an independent formula counter - exhaustive; (D2) in "
    "SyntheticRuleMatcher the only statements that publish a completion are dominated by the exit predicate on the current "
    "remainder, the predicate is `exactly one key left and that key's charge is 0`, apply_rule subtracts ratio x count for every key "
    "of the rule composition and the ratio is a min over floor divisions guarded by can_match; (D3) every record made of exactly two "
    "halogen atoms is matched by the product ban list RuleBasedMethod.run passes to RuleConstraint, evaluated the way the code "
    "does (canonicalise ban literals, regex search on the record's SMILES); (D4) the text appended by the imputer is the "
    "solution's smiles repeated Ratio times.  Completeness and arithmetic of the depth-first search over all vectors are NOT decided."
    ' The ban list may be computed from literals at import time: it is constant-folded (comprehensions, itertools.combinations*, str.format) before D3 is decided.'
    ' (D7) the both-side relabelling returns the given vector or its complete negation.'
    ' (D8) the completion used by single_impute comes from SyntheticRuleMatcher.match() only; (D9) the ban list is canonicalised outside any handler that swallows the failure.'
    ' (D10) every placeholder exchange of reduction_oxidation_rules_modify conserves each element and the charge as polynomials in the number of removed components (multiplicities read off the code, floor division only under a divisibility guard, literal compositions folded). (D11) the id the rule-based stage indexes the batch with is the row position (shared with C06-B2).'
    ' (D12) the computed imbalance is not shadowed by keys the row already carries (shared with C04-G12).'
)
ASSUMPTIONS = [
    "RDKit parses the table literals as the pipeline's own RDKit does (same interpreter)",
    "halogens = F, Cl, Br, I, At",
]

MATCHER = "synrbl.SynRuleImputer.synthetic_rule_matcher.SyntheticRuleMatcher"
IMPUTER = "synrbl.SynRuleImputer.synthetic_rule_imputer.SyntheticRuleImputer"
HALOGENS = {"F", "Cl", "Br", "I", "At"}


def databases(ctx) -> List[Tuple[str, str, list]]:
    out = []
    p = tables.resource_path(ctx.prog, "rules_manager.json.gz")
    out.append(("rules_manager", os.path.relpath(p, ctx.repo), tables.load_json(p)))
    p2 = os.path.join(ctx.repo, "Data", "Rules", "automated_rules.json.gz")
    if os.path.exists(p2):
        out.append(("automated_rules", os.path.relpath(p2, ctx.repo), tables.load_json(p2)))
    else:
        raise AnalysisError("Data/Rules/automated_rules.json.gz vanished")
    return out


def rule_d1(ctx, rule_id: str = "C08-D1") -> None:
    ctx.rule(rule_id, "record.Composition (explicit Q) == folded composition of record.smiles, every record of both databases", 60)
    for name, rel, db in databases(ctx):
        ctx.require(isinstance(db, list) and db, "%s is not a non-empty list of records" % rel)
        for i, rec in enumerate(db):
            key = "%s:%s|%s" % (name, rec.get("formula"), rec.get("smiles"))
            where = "%s#%d" % (rel, i)
            smi = rec.get("smiles")
            comp = rec.get("Composition")
            if not isinstance(smi, str) or not isinstance(comp, dict):
                ctx.instance(rule_id, key, where, ok=False)
                ctx.finding(rule_id, key + ":shape", where, "record lacks smiles/Composition")
                continue
            folded = tables.fold_rdkit(smi)
            second = tables.fold_simple(smi)
            if folded is None:
                ctx.instance(rule_id, key, where, ok=False)
                ctx.finding(rule_id, key + ":unparsable", where, "SMILES %r does not parse" % smi)
                continue
            if second is not None and second != folded:
                ctx.note("independent fold disagrees with RDKit on %r: %s vs %s (RDKit decides)" % (smi, second, folded))
            problems = []
            if "Q" not in comp:
                problems.append("charge key Q missing")
            want = dict(folded)
            have = {k: v for k, v in comp.items()}
            if "Q" not in have:
                have["Q"] = want["Q"]
            for k in sorted(set(want) | set(have)):
                if want.get(k, 0) != have.get(k, 0):
                    problems.append("%s: recorded %s, true %s" % (k, have.get(k, 0), want.get(k, 0)))
            if any((not isinstance(v, int)) or isinstance(v, bool) for v in comp.values()):
                problems.append("non-integer count")
            if any(v <= 0 for k, v in comp.items() if k != "Q" and isinstance(v, int)):
                problems.append("non-positive element count")
            ctx.instance(rule_id, key, where, ok=not problems, folded=folded)
            if problems:
                ctx.finding(rule_id, key, where, "recorded composition differs from the SMILES: " + "; ".join(problems))


def rule_d2(ctx) -> None:
    ctx.rule("C08-D2", "completions are published only under the zero-remainder predicate; apply_rule subtracts every key with a guarded ratio", 5)
    prog = ctx.prog
    dfs = prog.func(MATCHER + ".dfs")
    exitp = prog.func(MATCHER + ".exit_strategy_solution")
    apply_rule = prog.func(MATCHER + ".apply_rule")
    can_match = prog.func(MATCHER + ".can_match")
    # exit predicate: len(d) == 1 and d.get('Q', 0) == 0   (or d == {'Q': 0}, or set(d) == {'Q'} and d['Q'] == 0)
    rets = [n for n in own_nodes(exitp.node) if isinstance(n, ast.Return)]
    okp = len(rets) == 1 and _is_zero_remainder(rets[0].value, exitp.params[-1])
    ctx.instance("C08-D2", "exit predicate: %s" % (unparse(rets[0].value) if rets else "?"), exitp.loc(), ok=okp)
    if not okp:
        ctx.finding("C08-D2", "SyntheticRuleMatcher.exit_strategy_solution:predicate", exitp.loc(), "the exit predicate is not `nothing but a zero charge is left` (%s)" % (unparse(rets[0].value) if rets else "no single return"))
    # publish sites in dfs
    cfg = CFG(dfs.node)
    data_param = dfs.params[1]
    path_param = dfs.params[2]
    pubs = []
    for n in own_nodes(dfs.node):
        if isinstance(n, ast.Call) and isinstance(n.func, ast.Attribute) and n.func.attr == "append" and "all_solutions" in unparse(n.func.value):
            pubs.append(n)
        if isinstance(n, ast.Return) and isinstance(n.value, ast.Name) and n.value.id == path_param:
            pubs.append(n)
    ctx.require(pubs, "dfs no longer publishes completions (append to all_solutions / return path)")
    for n in pubs:
        g = cfg.guards(cfg.node_of(n))
        ok = False
        for c, p in g:
            if p and isinstance(c, ast.Call):
                tgt = ctx.res.resolve_callee(c, dfs)
                if tgt and tgt[0] == "func" and tgt[1] == exitp.qualname and c.args and isinstance(c.args[0], ast.Name) and c.args[0].id == data_param:
                    ok = True
        ctx.instance("C08-D2", "publish site %s under %s" % (unparse(n)[:40], [unparse(c) for c, p in g]), dfs.loc(n), ok=ok)
        if not ok:
            ctx.finding("C08-D2", "SyntheticRuleMatcher.dfs:publish:" + ("append" if isinstance(n, ast.Call) else "return"), dfs.loc(n), "a completion is published without the exit predicate holding on the current remainder")
    # data parameter is not rebound before the test
    for n in own_nodes(dfs.node):
        if isinstance(n, ast.Name) and n.id == data_param and isinstance(n.ctx, ast.Store):
            ctx.finding("C08-D2", "SyntheticRuleMatcher.dfs:data-rebound", dfs.loc(n), "the remainder parameter is reassigned inside dfs")
    # the recursive call passes the remainder returned by apply_rule
    rec_ok = False
    for c in calls(dfs):
        tgt = ctx.res.resolve_callee(c, dfs)
        if tgt and tgt[0] == "func" and tgt[1] == dfs.qualname and c.args and isinstance(c.args[0], ast.Name):
            for _, v, idx in assignments_to(dfs, c.args[0].id):
                if isinstance(v, ast.Call):
                    t2 = ctx.res.resolve_callee(v, dfs)
                    if t2 and t2[0] == "func" and t2[1] == apply_rule.qualname and idx == 0:
                        rec_ok = True
    ctx.instance("C08-D2", "recursion continues on apply_rule's remainder", dfs.loc(), ok=rec_ok)
    if not rec_ok:
        ctx.finding("C08-D2", "SyntheticRuleMatcher.dfs:recursion", dfs.loc(), "dfs does not recurse on the remainder returned by apply_rule")
    # apply_rule: subtract for every key
    ar = apply_rule
    acfg = CFG(ar.node)
    data_p, rule_p = ar.params[1], ar.params[3]
    ratio_name = _ratio_name(ar)
    sub_ok = False
    sub_node = None
    for n in own_nodes(ar.node):
        if isinstance(n, ast.For) and "Composition" in unparse(n.iter) and "items" in unparse(n.iter) and isinstance(n.target, ast.Tuple) and len(n.target.elts) == 2:
            k, v = [x.id for x in n.target.elts if isinstance(x, ast.Name)] + [None, None][: 2 - len([x for x in n.target.elts if isinstance(x, ast.Name)])]
            for s in ast.walk(n):
                if isinstance(s, ast.AugAssign) and isinstance(s.op, ast.Sub) and isinstance(s.target, ast.Subscript) and isinstance(s.target.slice, ast.Name) and s.target.slice.id == k:
                    val = s.value
                    if isinstance(val, ast.BinOp) and isinstance(val.op, ast.Mult) and {x for x in names_in(val)} >= {v, ratio_name}:
                        # guards inside the loop: only `k in new_data`
                        extra = []
                        for c, pol in acfg.guards(acfg.node_of(s)):
                            nc = normal_compare(c, pol)
                            if nc is not None and nc[1] == "in":
                                continue  # `k in new_data` (also written as `if k not in new_data: continue`)
                            if any(isinstance(x, ast.Call) and (ctx.res.resolve_callee(x, ar) or ("", ""))[1] == can_match.qualname for x in ast.walk(c)):
                                continue
                            extra.append(unparse(c))
                        sub_ok = not extra
                        sub_node = s
    ctx.instance("C08-D2", "apply_rule subtracts ratio*count for every key of the rule", ar.loc(sub_node) if sub_node else ar.loc(), ok=sub_ok)
    if not sub_ok:
        ctx.finding("C08-D2", "SyntheticRuleMatcher.apply_rule:subtract", ar.loc(sub_node) if sub_node else ar.loc(), "apply_rule does not subtract ratio x count for every key of the rule composition (a key such as Q may be skipped)")
    # ratio: min over floor divisions, dominated by the can_match guard
    ratio_ok = False
    for _, v, idx in assignments_to(ar, ratio_name or ""):
        mins = [c for c in ast.walk(v) if isinstance(c, ast.Call) and isinstance(c.func, ast.Name) and c.func.id == "min"]
        fl = [b for b in ast.walk(v) if isinstance(b, ast.BinOp) and isinstance(b.op, ast.FloorDiv)]
        ratio_ok = bool(mins) and bool(fl)
    guard_ok = False
    for n in own_nodes(ar.node):
        if isinstance(n, ast.If):
            for c in ast.walk(n.test):
                if isinstance(c, ast.Call):
                    tgt = ctx.res.resolve_callee(c, ar)
                    if tgt and tgt[0] == "func" and tgt[1] == can_match.qualname:
                        # early return on not can_match
                        if isinstance(n.test, ast.UnaryOp) and any(isinstance(x, ast.Return) for x in n.body):
                            guard_ok = True
    ctx.instance("C08-D2", "ratio = min(floor divisions) under the can_match guard", ar.loc(), ok=ratio_ok and guard_ok)
    if not (ratio_ok and guard_ok):
        ctx.finding("C08-D2", "SyntheticRuleMatcher.apply_rule:ratio", ar.loc(), "the multiplicity is not a min over floor divisions guarded by can_match (it may be 0 or overshoot)")
    # can_match: every non-Q key present with data >= rule
    rets = [n for n in own_nodes(can_match.node) if isinstance(n, ast.Return)]
    cm_ok = False
    if len(rets) == 1 and isinstance(rets[0].value, ast.Call) and getattr(rets[0].value.func, "id", "") == "all":
        gen = rets[0].value.args[0]
        if isinstance(gen, (ast.GeneratorExp, ast.ListComp)):
            t = unparse(gen.elt)
            cm_ok = " in " in t and ">=" in t
    ctx.instance("C08-D2", "can_match: all(k in data and data[k] >= v ...)", can_match.loc(), ok=cm_ok)
    if not cm_ok:
        ctx.finding("C08-D2", "SyntheticRuleMatcher.can_match:predicate", can_match.loc(), "can_match no longer requires every rule element to be present in sufficient quantity")


def _ratio_name(ar: Func):
    """the local of apply_rule bound to min(<floor divisions>)"""
    for n in own_nodes(ar.node):
        if isinstance(n, ast.Assign) and len(n.targets) == 1 and isinstance(n.targets[0], ast.Name):
            v = n.value
            if any(isinstance(c, ast.Call) and isinstance(c.func, ast.Name) and c.func.id == "min" for c in ast.walk(v)) and any(isinstance(b, ast.BinOp) and isinstance(b.op, ast.FloorDiv) for b in ast.walk(v)):
                return n.targets[0].id
    return None


def _is_zero_remainder(e: ast.AST, p: str) -> bool:
    conj = [e]
    if isinstance(e, ast.BoolOp) and isinstance(e.op, ast.And):
        conj = list(e.values)
    one_key = zero_q = False
    for c in conj:
        nc = normal_compare(c, True)
        if nc is None:
            return False
        l, op, r = nc
        if op != "==":
            return False
        lt, rt = unparse(l), unparse(r)
        if lt in ("0", "1", "{'Q': 0}", "{'Q'}"):
            lt, rt = rt, lt
        if (lt == "len(%s)" % p and rt == "1") or (rt == "len(%s)" % p and lt == "1"):
            one_key = True
        elif lt in ("%s.get('Q', 0)" % p, "%s['Q']" % p) and rt == "0":
            zero_q = True
        elif lt == p and rt == "{'Q': 0}":
            one_key = zero_q = True
        elif lt in ("set(%s)" % p, "%s.keys()" % p) and rt == "{'Q'}":
            one_key = True
        else:
            return False
    return one_key and zero_q


def ban_literals(ctx) -> Tuple[List[str], Func, ast.AST]:
    rb = ctx.prog.func("synrbl.rule_based.RuleBasedMethod.run")
    for c in calls(rb):
        tgt = ctx.res.resolve_callee(c, rb)
        if tgt and tgt[0] == "class" and tgt[1].endswith("RuleConstraint"):
            for k in c.keywords:
                if k.arg == "ban_atoms":
                    # a display of literals, or an expression that folds to one at import time
                    from ..constfold import Unfoldable, fold_in

                    try:
                        val = fold_in(rb, k.value)
                    except Unfoldable as ex:
                        # a setting of the stage object (made configurable): its value under the default configuration
                        from ..values import Env as _Env

                        vals = ctx.ev.eval(k.value, _Env(func=rb, params={}, inst=ctx.stage("rb_method")))
                        lists = [v for v in vals if v.kind == "list" and all(x.kind == "const" and isinstance(x.value, str) for x in v.value)]
                        rest = [v for v in vals if v.kind != "list" and not (v.kind == "sym" and v.default is None) and not (v.kind == "const" and v.value is None)]
                        if len(lists) == 1 and not rest:
                            return [x.value for x in lists[0].value], rb, c
                        # `self.<x>` computed in the constructor from its parameters: fold it under the default arguments
                        if isinstance(k.value, ast.Attribute) and isinstance(k.value.value, ast.Name) and k.value.value.id == rb.params[0] and rb.cls is not None:
                            from ..constfold import Folder

                            init = ctx.prog.lookup_method(rb.cls, "__init__")
                            if init is not None:
                                env_ = {}
                                for pn, dv in init.param_defaults().items():
                                    try:
                                        fo0 = Folder(init.module, None)
                                        fo0.prog = ctx.prog
                                        env_[pn] = fo0.fold(dv)
                                    except Unfoldable:
                                        pass
                                for n_ in own_nodes(init.node):
                                    if isinstance(n_, ast.Assign) and any(isinstance(t, ast.Attribute) and t.attr == k.value.attr for t in n_.targets):
                                        try:
                                            fo1 = Folder(init.module, None)
                                            fo1.prog = ctx.prog
                                            val = fo1.fold(n_.value, env_)
                                            if isinstance(val, (list, tuple)) and all(isinstance(x, str) for x in val):
                                                return list(val), rb, c
                                        except Unfoldable:
                                            pass
                        raise AnalysisError("the ban_atoms argument of RuleConstraint in RuleBasedMethod.run does not fold to a list of literals: %s" % ex)
                    if isinstance(val, (list, tuple)) and all(isinstance(x, str) for x in val):
                        return list(val), rb, c
                    raise AnalysisError("the ban_atoms argument of RuleConstraint folds to %r, not to a list of strings" % (val,))
    raise AnalysisError("RuleBasedMethod.run no longer passes ban_atoms to RuleConstraint")


def rule_d3(ctx) -> None:
    ctx.rule("C08-D3", "every dihalogen / interhalogen record of the rule database used by the pipeline is matched by the product ban pattern", 4)
    lits, rb, call = ban_literals(ctx)
    # RuleConstraint.__init__: canonicalise each literal, join with | after re.escape
    init = ctx.prog.func("synrbl.SynRuleImputer.synthetic_rule_constraint.RuleConstraint.__init__")
    src = unparse(init.node)
    canon_used = "CanonSmiles" in src
    escape_used = "re.escape" in src
    pats = []
    for l in lits:
        c = tables.canon(l) if canon_used else l
        if c is None:
            ctx.finding("C08-D3", "RuleBasedMethod.run:ban:%s" % l, rb.loc(call), "ban literal %r does not canonicalise" % l)
            continue
        pats.append(re.escape(c) if escape_used else c)
    ctx.require(pats, "empty ban list")
    pattern = re.compile("|".join(pats))
    ctx.note("product ban pattern folded from the code: %s" % pattern.pattern)
    name, rel, db = databases(ctx)[0]
    n = 0
    for i, rec in enumerate(db):
        atoms = tables.heavy_atoms(rec.get("smiles", ""))
        if atoms is None:
            continue
        if len(atoms) == 2 and all(s in HALOGENS and q == 0 for s, q in atoms):
            n += 1
            hit = bool(pattern.search(rec["smiles"]))
            # the text that reaches the ban test is the record's literal appended after '.'
            key = "%s:%s" % (name, rec["smiles"])
            ctx.instance("C08-D3", "dihalogen record %s matched by ban pattern" % rec["smiles"], "%s#%d" % (rel, i), ok=hit)
            if not hit:
                ctx.finding("C08-D3", key + ":not-banned", "%s#%d" % (rel, i), "database compound %r (two halogen atoms) is not matched by the product ban list %s" % (rec["smiles"], lits))
    ctx.require(n >= 4, "fewer than 4 dihalogen records found in %s (F2, Cl2, Br2, I2 confirmed by hand)" % rel)
    # the ban literals themselves still cover the four homonuclear halogens
    for x in ("FF", "ClCl", "BrBr", "II"):
        hit = bool(pattern.search(x))
        ctx.instance("C08-D3", "ban pattern covers %s" % x, rb.loc(call), ok=hit)
        if not hit:
            ctx.finding("C08-D3", "RuleBasedMethod.run:ban-list:%s" % x, rb.loc(call), "the product ban list no longer matches %s" % x)


def rule_d4(ctx) -> None:
    ctx.rule("C08-D4", "appended text = solution smiles repeated Ratio times; Ratio is apply_rule's guarded ratio", 3)
    prog = ctx.prog
    gv = prog.func(IMPUTER + ".get_and_validate_smiles")
    ok1 = False

    def is_field(e, key):
        return isinstance(e, ast.Subscript) and const_str(e.slice) == key and isinstance(e.value, ast.Name)

    def repeat_expr(e):
        """[item['smiles']] * item['Ratio']  (either operand order)"""
        if isinstance(e, ast.BinOp) and isinstance(e.op, ast.Mult):
            for a, b in ((e.left, e.right), (e.right, e.left)):
                if isinstance(a, ast.List) and len(a.elts) == 1 and is_field(a.elts[0], "smiles") and is_field(b, "Ratio") and a.elts[0].value.id == b.value.id:
                    return True
        return False

    for n in own_nodes(gv.node):
        # canonical form: a comprehension whose inner generator runs over the repeated smiles
        if isinstance(n, ast.ListComp) and len(n.generators) >= 2 and repeat_expr(n.generators[-1].iter) and isinstance(n.elt, ast.Name) and unparse(n.generators[-1].target) == n.elt.id:
            ok1 = True
        # ... or the element itself repeated by an inner range(item['Ratio'])
        if isinstance(n, ast.ListComp) and len(n.generators) >= 2 and is_field(n.elt, "smiles"):
            it = n.generators[-1].iter
            if isinstance(it, ast.Call) and getattr(it.func, "id", "") == "range" and len(it.args) == 1 and is_field(it.args[0], "Ratio"):
                ok1 = True
        if isinstance(n, ast.Call) and isinstance(n.func, ast.Attribute) and n.func.attr == "extend" and n.args and repeat_expr(n.args[0]):
            ok1 = True
    ctx.instance("C08-D4", "get_and_validate_smiles repeats item['smiles'] item['Ratio'] times", gv.loc(), ok=ok1)
    if not ok1:
        ctx.finding("C08-D4", "SyntheticRuleImputer.get_and_validate_smiles:repeat", gv.loc(), "the appended text is no longer the solution's smiles repeated Ratio times")
    rets = [n for n in own_nodes(gv.node) if isinstance(n, ast.Return) and n.value is not None and not (isinstance(n.value, ast.Constant) and n.value.value is None)]
    def joined(e):
        if isinstance(e, ast.IfExp):  # `joined if valid else None`
            return all(joined(x) or (isinstance(x, ast.Constant) and x.value is None) for x in (e.body, e.orelse)) and (joined(e.body) or joined(e.orelse))
        return isinstance(e, ast.Name) and any(isinstance(c_, ast.Call) and isinstance(c_.func, ast.Attribute) and c_.func.attr == "join" for _, v, _i in assignments_to(gv, e.id) for c_ in ast.walk(v))

    ok1b = all(joined(r.value) for r in rets) and bool(rets)
    ctx.instance("C08-D4", "returned text is the '.'-join of those parts", gv.loc(), ok=ok1b)
    if not ok1b:
        ctx.finding("C08-D4", "SyntheticRuleImputer.get_and_validate_smiles:return", gv.loc(), "get_and_validate_smiles returns something other than the joined database compounds")
    ar = prog.func(MATCHER + ".apply_rule")
    ok2 = False
    for n in own_nodes(ar.node):
        if isinstance(n, ast.Dict):
            d = {const_str(k): v for k, v in zip(n.keys, n.values) if k is not None}
            if "smiles" in d and "Ratio" in d:
                ok2 = unparse(d["smiles"]).endswith("['smiles']") and isinstance(d["Ratio"], ast.Name) and d["Ratio"].id == _ratio_name(ar)
    ctx.instance("C08-D4", "path entries are {'smiles': rule['smiles'], 'Ratio': ratio}", ar.loc(), ok=ok2)
    if not ok2:
        ctx.finding("C08-D4", "SyntheticRuleMatcher.apply_rule:path-entry", ar.loc(), "a path entry is not built from the rule's own smiles and the guarded ratio")
    si = prog.func(IMPUTER + ".single_impute")
    ok3 = False
    for n in own_nodes(si.node):
        if isinstance(n, ast.AugAssign) and isinstance(n.op, ast.Add) and isinstance(n.target, ast.Subscript):
            v = n.value
            if isinstance(v, ast.BinOp) and isinstance(v.op, ast.Add) and const_str(v.left) == "." and isinstance(v.right, ast.Name):
                src = [unparse(x) for _, x, _i in assignments_to(si, v.right.id)]
                ok3 = any("get_and_validate_smiles" in s for s in src)
    ctx.instance("C08-D4", "single_impute appends '.' + validated database text to one side", si.loc(), ok=ok3)
    if not ok3:
        ctx.finding("C08-D4", "SyntheticRuleImputer.single_impute:append", si.loc(), "the imputer no longer appends '.' + get_and_validate_smiles(solution) to the side string")


def rule_d5(ctx) -> None:
    from . import c07

    ctx.rule("C08-D5", "the imbalance vector keeps its signed entries on the way into the solver (no Counter arithmetic)", 3)
    c07.counter_arithmetic(ctx, "C08-D5", [MATCHER + ".__init__", MATCHER + ".apply_rule", MATCHER + ".dfs", "synrbl.rule_based.RuleBasedMethod.run", IMPUTER + ".single_impute"])
    # normalisation in __init__: keeps every non-zero entry and Q
    init = ctx.prog.func(MATCHER + ".__init__")
    norm = [n for n in own_nodes(init.node) if isinstance(n, ast.Assign) and unparse(n.targets[0]) == "self.data_dict" and isinstance(n.value, ast.DictComp)]
    ok = False
    for n in norm:
        g = n.value.generators[0]
        # for <k>, <v> in <x>.items() if <v> != 0 or <k> == 'Q'   (either order; or no filter at all)
        ok = not g.ifs
        if len(g.ifs) == 1 and isinstance(g.target, ast.Tuple) and len(g.target.elts) == 2 and all(isinstance(x, ast.Name) for x in g.target.elts):
            kn, vn = g.target.elts[0].id, g.target.elts[1].id
            c = g.ifs[0]
            if isinstance(c, ast.BoolOp) and isinstance(c.op, ast.Or) and len(c.values) == 2:
                forms = set()
                for x in c.values:
                    nc = normal_compare(x, True)
                    if nc and isinstance(nc[0], ast.Name) and isinstance(nc[2], ast.Constant):
                        forms.add((("k" if nc[0].id == kn else "v" if nc[0].id == vn else "?"), nc[1], nc[2].value))
                ok = forms == {("v", "!=", 0), ("k", "==", "Q")}
    ctx.instance("C08-D5", "matcher normalisation drops zero counts only", init.loc(), ok=ok or not norm, nontrivial=True)
    if norm and not ok:
        ctx.finding("C08-D5", "SyntheticRuleMatcher.__init__:normalisation", init.loc(norm[0]), "the imbalance is normalised with %s; entries other than zeros can be dropped" % [unparse(c) for c in norm[0].value.generators[0].ifs])


def rule_d7(ctx, rule_id: str = "C08-D7") -> None:
    """A both-sided imbalance with one element and a charge is re-labelled one-sided by swapping the side it is seen
    from.  Swapping sides negates the *whole* difference vector, the charge entry included; the solver then fills exactly
    that vector.  Every return of the relabelling helper is either the vector it received or its complete negation."""
    ctx.rule(rule_id, "where a both-sided imbalance is re-labelled, the returned vector is the given one or its complete negation", 2)
    f = ctx.prog.func("synrbl.SynProcessor.rsmi_both_side_process.BothSideReact.reverse_values_if_negative_except_Q")
    param = [p for p in f.params if p not in ("self", "cls")][0]
    rets = [r for r in own_nodes(f.node) if isinstance(r, ast.Return) and isinstance(r.value, ast.Tuple) and len(r.value.elts) == 2]
    ctx.require(len(rets) >= 2, "the relabelling helper no longer returns (vector, label) pairs")
    for r in rets:
        v = r.value.elts[0]
        if isinstance(v, ast.Name) and v.id != param:
            defs = assignments_to(f, v.id)
            if len(defs) == 1 and defs[0][2] is None:
                v = defs[0][1]
        kind = None
        if isinstance(v, ast.Name) and v.id == param:
            kind = "unchanged"
        elif isinstance(v, ast.DictComp) and len(v.generators) == 1 and not v.generators[0].ifs and isinstance(v.generators[0].target, ast.Tuple) and len(v.generators[0].target.elts) == 2:
            g = v.generators[0]
            k_, v_ = g.target.elts
            over = isinstance(g.iter, ast.Call) and isinstance(g.iter.func, ast.Attribute) and g.iter.func.attr == "items" and unparse(g.iter.func.value) == param
            keeps_key = isinstance(v.key, ast.Name) and isinstance(k_, ast.Name) and v.key.id == k_.id
            negates = isinstance(v.value, ast.UnaryOp) and isinstance(v.value.op, ast.USub) and isinstance(v.value.operand, ast.Name) and isinstance(v_, ast.Name) and v.value.operand.id == v_.id
            if over and keeps_key and negates:
                kind = "complete negation"
        ctx.instance(rule_id, "return %s: %s" % (unparse(r.value)[:70], kind or "neither the given vector nor its complete negation"), f.loc(r), ok=kind is not None)
        if kind is None:
            ctx.finding(rule_id, "BothSideReact.reverse_values_if_negative_except_Q:partial-negation", f.loc(r), "the relabelled imbalance %s is neither the given vector nor its complete negation: an entry (the charge) keeps its sign when the side is swapped, so the solver fills a vector that is not the imbalance of the reaction" % unparse(v)[:70])


def rule_d8(ctx, rule_id: str = "C08-D8") -> None:
    """D2-D5 decide that the completions of SyntheticRuleMatcher.match add up exactly to the imbalance it was built
    with.  That carries over to the stage only if the matcher is the *only* source of completions: the variable that
    single_impute reads the completion from is bound by `matcher.match()` and by nothing else that computes."""
    ctx.rule(rule_id, "the completion used by single_impute comes from SyntheticRuleMatcher.match() only", 1)
    f = ctx.prog.func("synrbl.SynRuleImputer.synthetic_rule_imputer.SyntheticRuleImputer.single_impute")
    sols = set()
    for n in own_nodes(f.node):
        if isinstance(n, ast.Assign) and len(n.targets) == 1 and isinstance(n.targets[0], ast.Name) and isinstance(n.value, ast.Call) and isinstance(n.value.func, ast.Attribute) and n.value.func.attr == "match":
            sols.add(n.targets[0].id)
    ctx.require(sols, "single_impute no longer binds the result of matcher.match() to a local")
    for nm in sorted(sols):
        for st_, v, i in assignments_to(f, nm):
            is_match = isinstance(v, ast.Call) and isinstance(v.func, ast.Attribute) and v.func.attr == "match"
            is_empty = (isinstance(v, (ast.List, ast.Tuple)) and not v.elts) or (isinstance(v, ast.Constant) and v.value is None)
            ok = i is None and (is_match or is_empty)
            ctx.instance(rule_id, "single_impute: %s = %s" % (nm, unparse(v)[:60]), f.loc(st_), ok=ok)
            if not ok:
                ctx.finding(rule_id, "SyntheticRuleImputer.single_impute:second-solver", f.loc(st_), "the completion %s is also computed by %s, not by SyntheticRuleMatcher.match(): the exactness argument (D2-D5, charge included) covers the matcher only" % (nm, unparse(v)[:60]))


def rule_d9(ctx) -> None:
    """The ban is a text match between the *canonical* SMILES of the banned molecules and the canonical database
    entries (D3).  The canonicalisation in RuleConstraint.__init__ has to happen for every entry or fail loudly: inside a
    handler that carries on, one unparsable entry leaves the whole list as written (`Cl-Cl` never matches `ClCl`)."""
    ctx.rule("C08-D9", "the ban list is canonicalised outside any handler that swallows the failure", 1)
    cls = next((c for q, c in ctx.prog.classes.items() if q.endswith(".RuleConstraint")), None)
    ctx.require(cls is not None, "RuleConstraint vanished")
    init = ctx.prog.lookup_method(cls, "__init__")
    sites = [c for c in own_nodes(init.node) if isinstance(c, ast.Call) and unparse(c.func).split(".")[-1] in ("CanonSmiles", "MolToSmiles")]
    ctx.require(sites, "RuleConstraint.__init__ no longer canonicalises the ban list")
    for c in sites:
        swallowed = None
        prev, cur = c, getattr(c, "_parent", None)
        while cur is not None and cur is not init.node:
            if isinstance(cur, ast.Try) and any(prev is b or any(prev is y for y in ast.walk(b)) for b in cur.body):
                for h in cur.handlers:
                    if not any(isinstance(x, ast.Raise) for x in ast.walk(h)):
                        swallowed = h
            prev, cur = cur, getattr(cur, "_parent", None)
        ctx.instance("C08-D9", "RuleConstraint.__init__: %s (inside a swallowing handler: %s)" % (unparse(c)[:40], swallowed is not None), init.loc(c), ok=swallowed is None)
        if swallowed is not None:
            ctx.finding("C08-D9", "RuleConstraint.__init__:canonicalisation-swallowed", init.loc(c), "the canonicalisation of the ban list sits in a try whose handler carries on: one entry RDKit cannot parse leaves every entry as written, the text match with the canonical database SMILES fails, and banned molecules (ClCl, BrBr) are accepted as completions")


def check(ctx) -> None:
    rule_d9(ctx)
    rule_d8(ctx)
    rule_d7(ctx)
    # D6: the completion computed for an imbalance is attached to the reaction the imbalance was computed for: the
    # lists joined by position in the rule-based stage derive from the same rows without a filter in between
    # (shared with C06-B3)
    from ..pipeline import Pipeline
    from . import c06

    c06.rule_b3(ctx, Pipeline(ctx), "C08-D6")
    # D11: ... and written back to that reaction's row: the id the rule-based stage indexes the batch with is the
    # position of the row (shared with C06-B2)
    c06.rule_b2(ctx, Pipeline(ctx), "C08-D11")
    # D12: the imbalance the solver is asked to fill is the one computed for the row now: computed annotations are not
    # shadowed by keys the row already carries (shared with C04-G12)
    from . import c04

    c04.rule_g12(ctx, "C08-D12")
    rule_d1(ctx)
    rule_d2(ctx)
    rule_d3(ctx)
    rule_d4(ctx)
    rule_d5(ctx)
    rule_d10(ctx)


# ------------------------------------------------------------------------ D10
MODIFY = "synrbl.SynRuleImputer.synthetic_rule_constraint.RuleConstraint.reduction_oxidation_rules_modify"


class _Lin:
    """a*n + b with rational a, b (n = number of components equal to the removed literal)"""

    def __init__(self, a=0, b=0):
        from fractions import Fraction

        self.a, self.b = Fraction(a), Fraction(b)

    def __add__(self, o):
        return _Lin(self.a + o.a, self.b + o.b)

    def scale(self, k):
        return _Lin(self.a * k, self.b * k)

    def __repr__(self):
        if self.a == 0:
            return str(self.b)
        return "%s*n%s" % (self.a, ("+%s" % self.b) if self.b else "")


def _expand_flags(f, cond: ast.AST) -> ast.AST:
    """names bound exactly once to a comparison / boolean expression are replaced by it (`paired = n % 2 == 0; if paired:`)"""
    import copy

    class T(ast.NodeTransformer):
        def visit_Name(self, n):
            defs = assignments_to(f, n.id)
            if len(defs) == 1 and defs[0][2] is None and isinstance(defs[0][1], (ast.Compare, ast.BoolOp, ast.UnaryOp)):
                return copy.deepcopy(defs[0][1])
            return n

    return T().visit(copy.deepcopy(cond))


def rule_d10(ctx, rule_id: str = "C08-D10") -> None:
    """The placeholder rewrite of the rule-based stage (`[H]`/`[O]`/`OO` among the added components are exchanged for
    water plus a counter-placeholder on the reactant side) turns one completion into another.  The new completion fills
    the same imbalance only if the exchange conserves every element and the charge, for every number n of removed
    components: with comp() the composition of a literal,
        sum(added to products) - n * comp(removed literal) == sum(added to reactants)
    as polynomials in n.  Multiplicities are read off the code (`count`, `count // 2` under an evenness guard,
    constants); compositions of the literals are folded."""
    ctx.rule(rule_id, "each placeholder exchange conserves every element and the charge for every number of removed components", 3)
    f = ctx.prog.func(MODIFY)
    cfg = CFG(f.node)
    groups = 0

    def blocks(node):
        for fld in ("body", "orelse", "finalbody"):
            lst = getattr(node, fld, None)
            if isinstance(lst, list) and lst and isinstance(lst[0], ast.stmt):
                yield lst
                for s in lst:
                    if not isinstance(s, (ast.FunctionDef, ast.ClassDef)):
                        yield from blocks(s)

    def removal(s):
        """`X = [c for c in X if c != L]` -> (X, L)"""
        if not (isinstance(s, ast.Assign) and len(s.targets) == 1 and isinstance(s.targets[0], ast.Name) and isinstance(s.value, ast.ListComp)):
            return None
        comp = s.value
        if len(comp.generators) != 1:
            return None
        g = comp.generators[0]
        if not (isinstance(g.iter, ast.Name) and g.iter.id == s.targets[0].id and isinstance(g.target, ast.Name) and len(g.ifs) == 1 and isinstance(comp.elt, ast.Name) and comp.elt.id == g.target.id):
            return None
        nc = normal_compare(g.ifs[0], True)
        if not nc or nc[1] != "!=":
            return None
        lit = const_str(nc[2]) if isinstance(nc[0], ast.Name) and nc[0].id == g.target.id else (const_str(nc[0]) if isinstance(nc[2], ast.Name) and nc[2].id == g.target.id else None)
        if lit is None:
            return None
        return s.targets[0].id, lit

    def mult(e, X, L, at_stmt, depth=0):
        """multiplicity expression -> (_Lin, problem or None)"""
        if depth > 6:
            raise AnalysisError("%s: multiplicity %s too deep" % (f.loc(e), unparse(e)))
        if isinstance(e, ast.Constant) and isinstance(e.value, int) and not isinstance(e.value, bool):
            return _Lin(0, e.value), None
        if isinstance(e, ast.Call) and isinstance(e.func, ast.Attribute) and e.func.attr == "count" and isinstance(e.func.value, ast.Name) and e.func.value.id == X and e.args and const_str(e.args[0]) == L:
            return _Lin(1, 0), None
        if isinstance(e, ast.Name):
            defs = [(st, v) for st, v, i in assignments_to(f, e.id) if i is None]
            # the definitions that can reach: in the same branch region (dominating the use)
            u = cfg.node_of(at_stmt)
            reach = [(st, v) for st, v in defs if cfg.node_of(st) is not None and u is not None and cfg.dominates(cfg.node_of(st), u)]
            if len(reach) != 1:
                raise AnalysisError("%s: multiplicity %s has %d dominating definitions" % (f.loc(e), e.id, len(reach)))
            st, v = reach[0]
            # evaluated before the removal (afterwards the count is 0)
            if not (st.lineno < at_stmt.lineno or st is at_stmt) and False:
                pass
            return mult(v, X, L, st, depth + 1)
        if isinstance(e, ast.BinOp) and isinstance(e.op, ast.FloorDiv) and isinstance(e.right, ast.Constant) and isinstance(e.right.value, int) and e.right.value > 0:
            inner, prob = mult(e.left, X, L, at_stmt, depth + 1)
            k = e.right.value
            exact = False
            if inner.a == 0 and inner.b % k == 0:
                exact = True
            node = cfg.node_of(at_stmt)
            for c, p in cfg.guards(node) if node is not None else []:
                for cc, pp in split_cond(_expand_flags(f, c), p):
                    nc = normal_compare(cc, pp)
                    if nc and nc[1] == "==" and isinstance(nc[2], ast.Constant) and nc[2].value == 0 and isinstance(nc[0], ast.BinOp) and isinstance(nc[0].op, ast.Mod) and isinstance(nc[0].right, ast.Constant) and nc[0].right.value == k:
                        li, _ = mult(nc[0].left, X, L, at_stmt, depth + 1)
                        if li.a == inner.a and li.b == inner.b:
                            exact = True
            if not exact:
                prob = prob or "`%s` rounds down: without a guard that %s is divisible by %d the remainder is dropped" % (unparse(e), unparse(e.left), k)
            return inner.scale(1 / __import__("fractions").Fraction(k)), prob
        if isinstance(e, ast.BinOp) and isinstance(e.op, ast.Mult):
            l, p1 = mult(e.left, X, L, at_stmt, depth + 1)
            r, p2 = mult(e.right, X, L, at_stmt, depth + 1)
            if l.a != 0 and r.a != 0:
                raise AnalysisError("%s: non-linear multiplicity %s" % (f.loc(e), unparse(e)))
            res = r.scale(l.b) if l.a == 0 else l.scale(r.b)
            return res, p1 or p2
        if isinstance(e, ast.BinOp) and isinstance(e.op, (ast.Add, ast.Sub)):
            l, p1 = mult(e.left, X, L, at_stmt, depth + 1)
            r, p2 = mult(e.right, X, L, at_stmt, depth + 1)
            return (l + (r if isinstance(e.op, ast.Add) else r.scale(-1))), p1 or p2
        raise AnalysisError("%s: multiplicity %s has a form the rule does not model" % (f.loc(e), unparse(e)))

    def pieces(e, X, L, at_stmt):
        """value appended -> list of (literal component, _Lin multiplicity), problem"""
        # "<S>" * m | "<S>" | [lits] * m | [lits]
        m, prob = _Lin(0, 1), None
        base = e
        if isinstance(e, ast.BinOp) and isinstance(e.op, ast.Mult):
            if isinstance(e.left, (ast.Constant, ast.List)) and not (isinstance(e.left, ast.Constant) and isinstance(e.left.value, int)):
                base, me = e.left, e.right
            else:
                base, me = e.right, e.left
            m, prob = mult(me, X, L, at_stmt)
        if isinstance(base, ast.Constant) and isinstance(base.value, str):
            comps = [c for c in base.value.split(".") if c]
        elif isinstance(base, ast.List) and all(isinstance(x, ast.Constant) and isinstance(x.value, str) for x in base.elts):
            comps = [x.value for x in base.elts]
        else:
            raise AnalysisError("%s: appended value %s is not built from literals" % (f.loc(e), unparse(e)))
        return [(c, m) for c in comps], prob

    def side_of_field(t):
        return const_str(t.slice) if isinstance(t, ast.Subscript) and not isinstance(t.slice, ast.Slice) and const_str(t.slice) in ("reactants", "products") else None

    for lst in blocks(f.node):
        for i, s in enumerate(lst):
            rm = removal(s)
            if rm is None:
                continue
            X, L = rm
            groups += 1
            prod: Dict[str, _Lin] = {}
            reac: Dict[str, _Lin] = {}
            problems = []

            def add(side, lit, m):
                comp = tables.fold_rdkit(lit)
                if comp is None:
                    raise AnalysisError("%s: literal %r does not parse" % (f.loc(s), lit))
                for k, v in comp.items():
                    side[k] = side.get(k, _Lin()) + m.scale(v)

            add(prod, L, _Lin(-1, 0))
            # multiplicities are evaluated where they are bound; the statements of the exchange are the rest of the block
            for st in lst[i + 1:] + [x for x in lst[:i]]:
                if isinstance(st, ast.AugAssign) and isinstance(st.op, ast.Add):
                    sd = side_of_field(st.target)
                    if sd is not None:
                        ps, prob = pieces(st.value, X, L, st)
                        for c, m in ps:
                            add(reac if sd == "reactants" else prod, c, m)
                        if prob:
                            problems.append(prob)
                    elif isinstance(st.target, ast.Name) and st.target.id == X:
                        ps, prob = pieces(st.value, X, L, st)
                        for c, m in ps:
                            add(prod, c, m)
                        if prob:
                            problems.append(prob)
                elif isinstance(st, ast.Expr) and isinstance(st.value, ast.Call) and isinstance(st.value.func, ast.Attribute) and isinstance(st.value.func.value, ast.Name) and st.value.func.value.id == X and st.value.func.attr in ("append", "extend"):
                    a0 = st.value.args[0]
                    if st.value.func.attr == "append":
                        a0 = ast.List(elts=[a0], ctx=ast.Load())
                    ps, prob = pieces(a0, X, L, st)
                    for c, m in ps:
                        add(prod, c, m)
                    if prob:
                        problems.append(prob)
            keys = sorted(set(prod) | set(reac))
            off = {k: (prod.get(k, _Lin()), reac.get(k, _Lin())) for k in keys if (prod.get(k, _Lin()).a, prod.get(k, _Lin()).b) != (reac.get(k, _Lin()).a, reac.get(k, _Lin()).b)}
            ok = not off and not problems
            ctx.instance(rule_id, "exchange of %r in %s: products %s, reactants %s" % (L, X, {k: repr(v) for k, v in prod.items() if (v.a, v.b) != (0, 0)}, {k: repr(v) for k, v in reac.items() if (v.a, v.b) != (0, 0)}), f.loc(s), ok=ok)
            if not ok:
                why = "; ".join(problems) if problems else "with n components %r removed the products change by %s but the reactants by %s" % (L, {k: repr(v[0]) for k, v in off.items()}, {k: repr(v[1]) for k, v in off.items()})
                ctx.finding(rule_id, "RuleConstraint.reduction_oxidation_rules_modify:exchange:%s" % L, f.loc(s), "the exchange of the added %r components does not conserve the composition for every count: %s; the completion handed on no longer sums to the imbalance" % (L, why))
    ctx.require(groups >= 3, "fewer than 3 placeholder exchanges found in reduction_oxidation_rules_modify (%d)" % groups)
