"""Normalisation by inlining of private helpers.

Extract-method refactorings move a block of an analysed function into a new
helper (``_store_results``, ``_is_newly_solved``, ``_count_atoms_of_side`` ...).
The rules of the checker are written against the *shape* of the anchored
functions, so before anything is analysed the program model is normalised:
calls of package functions that are **not anchors of a rule** are replaced by
the callee's body (parameters substituted, locals renamed).  The result is the
function as it would read with the helper expanded in place; it is never
executed, only analysed.

What is inlined (everything else is left as a call, which the interprocedural
parts of the engine follow as before):

* the call resolves to exactly one package function ``g`` that is not kept
  (``keep`` = functions / classes the rules name, computed by the caller), is
  not (mutually) recursive with the host, is not a generator / async, has no
  ``*args`` / ``**kwargs``, no nested ``def``, no ``global`` / ``nonlocal``;
* the receiver is the host's own ``self`` (same class, method not overridden
  in a subclass), the class name of a static / class method, or none (plain
  function, also a closure of the host);
* statement position - ``g(..)``, ``x = g(..)``, ``return g(..)`` - when every
  ``return`` of ``g`` is in *guard style* (at the end of the body or of a
  top-level ``if`` branch), which is rewritten into if/else;
* expression position (conditions, comprehension filters, arguments) when
  ``g`` is expression-bodied (``return <expr>`` only) and every parameter is
  used at most once or bound to a side-effect free argument;
* for a helper of another module every global name its body uses must resolve
  to the same object in the host module, or be free there (then the import is
  added to the host module's import table of the *model*).

Locations: inlined nodes keep their line numbers and carry ``_inl_file``
(file of the helper) so that reports point at the real source line.
"""

from __future__ import annotations

import ast
import builtins
import copy
from typing import Dict, List, Optional, Set, Tuple

from .model import Func, Program, Resolver, clone, own_nodes, set_parents, unparse

SIMPLE = (ast.Name, ast.Constant)


def _is_simple(e: ast.AST) -> bool:
    if isinstance(e, SIMPLE):
        return True
    if isinstance(e, ast.Attribute):
        return _is_simple(e.value)
    if isinstance(e, ast.Subscript) and isinstance(e.slice, ast.Constant):
        return _is_simple(e.value)
    if isinstance(e, (ast.Tuple, ast.List)) and len(e.elts) <= 8:
        return all(_is_simple(x) for x in e.elts)
    if isinstance(e, ast.UnaryOp) and isinstance(e.operand, ast.Constant):
        return True
    return False


def _docstring_stripped(body: List[ast.stmt]) -> List[ast.stmt]:
    if body and isinstance(body[0], ast.Expr) and isinstance(body[0].value, ast.Constant) and isinstance(body[0].value.value, str):
        return body[1:]
    return body


class _Subst(ast.NodeTransformer):
    def __init__(self, mapping: Dict[str, ast.AST], rename: Dict[str, str]):
        self.mapping = mapping
        self.rename = rename

    def visit_Name(self, node: ast.Name):
        if node.id in self.mapping and isinstance(node.ctx, ast.Load):
            new = clone(self.mapping[node.id])
            return ast.copy_location(new, node)
        if node.id in self.rename:
            node.id = self.rename[node.id]
        return node

    def visit_ExceptHandler(self, node: ast.ExceptHandler):
        if node.name in self.rename:
            node.name = self.rename[node.name]
        self.generic_visit(node)
        return node

    def visit_Lambda(self, node: ast.Lambda):
        # lambda parameters shadow: do not touch names bound by the lambda
        shadow = {a.arg for a in node.args.args + node.args.kwonlyargs}
        saved_m, saved_r = self.mapping, self.rename
        self.mapping = {k: v for k, v in saved_m.items() if k not in shadow}
        self.rename = {k: v for k, v in saved_r.items() if k not in shadow}
        self.generic_visit(node)
        self.mapping, self.rename = saved_m, saved_r
        return node


class Inliner:
    def __init__(self, prog: Program, keep: Set[str], max_rounds: int = 3, max_body: int = 60, candidates: Optional[Set[str]] = None):
        self.prog = prog
        self.keep = keep
        self.candidates = candidates
        # the stage sequence is expanded by pipeline.py itself (stages must stay calls)
        self.no_host = {"synrbl.balancing.Balancer.__run_pipeline"}
        self.cand_names = {q.rsplit(".", 1)[-1] for q in candidates} if candidates is not None else None
        self.max_rounds = max_rounds
        self.max_body = max_body
        self.counter = 0
        self.log: List[Tuple[str, str, int]] = []  # (host, helper, line)
        self.used_as_value: Set[str] = set()

    # ------------------------------------------------------------------ api
    def run(self) -> None:
        res = Resolver(self.prog)
        # helpers that are also passed around as values (delayed(f), apply_async(f, ..)) are job functions: keep them
        for f in self.prog.functions.values():
            if not f.qualname.startswith(self.prog.package + "."):
                continue
            for n in own_nodes(f.node):
                if isinstance(n, ast.Call):
                    for a in list(n.args) + [k.value for k in n.keywords]:
                        if isinstance(a, (ast.Name, ast.Attribute)) and (self.cand_names is None or (a.id if isinstance(a, ast.Name) else a.attr) in self.cand_names):
                            t = res.resolve_value(a, f) if hasattr(res, "resolve_value") else None
                            if t and t[0] == "func":
                                self.used_as_value.add(t[1])
        for _ in range(self.max_rounds):
            res = Resolver(self.prog)
            changed = False
            for q in sorted(self.prog.functions):
                f = self.prog.functions[q]
                if not q.startswith(self.prog.package + ".") or q in self.no_host:
                    continue
                if self._inline_in(f, res):
                    changed = True
            if not changed:
                break

    # ------------------------------------------------------------- helpers
    def _eligible(self, f: Func, call: ast.Call, res: Resolver) -> Optional[Tuple[Func, Optional[ast.AST]]]:
        """-> (callee, receiver expression bound to the callee's first parameter or None)"""
        if self.cand_names is not None:
            nm = call.func.id if isinstance(call.func, ast.Name) else (call.func.attr if isinstance(call.func, ast.Attribute) else None)
            if nm not in self.cand_names:
                return None
        tgt = res.resolve_callee(call, f)
        if not tgt or tgt[0] != "func" or tgt[1] not in self.prog.functions:
            return None
        g = self.prog.functions[tgt[1]]
        q = g.qualname
        if q == f.qualname or q in self.keep or q in self.used_as_value or not q.startswith(self.prog.package + "."):
            return None
        if g.name.startswith("__") and g.name.endswith("__"):
            return None
        node = g.node
        if not isinstance(node, ast.FunctionDef):
            return None
        a = node.args
        if a.vararg or a.posonlyargs:
            return None
        if a.kwarg:
            # **kwargs is supported when the body only forwards it (`f(.., **kwargs)`)
            kw = a.kwarg.arg
            for n in ast.walk(node):
                if isinstance(n, ast.Name) and n.id == kw:
                    par = getattr(n, "_parent", None)
                    if not (isinstance(par, ast.keyword) and par.arg is None):
                        return None
        if any(isinstance(k, ast.keyword) and k.arg is None for k in call.keywords) or any(isinstance(x, ast.Starred) for x in call.args):
            return None
        decos = set(g.decorators)
        if decos - {"staticmethod", "classmethod"}:
            return None
        body = _docstring_stripped(node.body)
        if len([n for n in ast.walk(node) if isinstance(n, ast.stmt)]) > self.max_body:
            return None
        for n in ast.walk(node):
            if n is node:
                continue
            if isinstance(n, (ast.Yield, ast.YieldFrom, ast.Await, ast.Global, ast.Nonlocal, ast.FunctionDef, ast.AsyncFunctionDef, ast.ClassDef)):
                return None
            if isinstance(n, ast.Call) and isinstance(n.func, ast.Name) and n.func.id in ("locals", "vars", "eval", "exec", "super"):
                return None
        # no recursion back into the host or itself
        for n in own_nodes(node):
            if isinstance(n, ast.Call):
                t2 = res.resolve_callee(n, g)
                if t2 and t2[0] == "func" and t2[1] in (q, f.qualname):
                    return None
        recv = None
        if g.cls is not None and not g.is_static:
            # bound call: self.m(..) from a method of the same class, or cls.m / ClassName.m for classmethods
            if not isinstance(call.func, ast.Attribute):
                return None
            r = call.func.value
            if g.is_classmethod:
                if not isinstance(r, ast.Name):
                    return None
                recv = r
            else:
                if not (isinstance(r, ast.Name) and f.cls is g.cls and f.params and not f.is_static and r.id == f.params[0]):
                    return None
                # not overridden in a subclass (the host's self may be a subclass instance)
                for c in self.prog.classes.values():
                    if c is not g.cls and g.name in c.methods and any(b is g.cls for b in self.prog.mro(c)[1:]):
                        return None
                recv = r
        elif g.cls is not None and g.is_static:
            if isinstance(call.func, ast.Attribute) and not isinstance(call.func.value, ast.Name):
                return None
        elif g.parent is not None and g.parent is not f:
            return None  # a closure of another function
        if not body:
            return None
        return g, recv

    def _bind(self, g: Func, call: ast.Call, recv: Optional[ast.AST]) -> Optional[Dict[str, ast.AST]]:
        params = [x.arg for x in g.node.args.args]
        kwonly = [x.arg for x in g.node.args.kwonlyargs]
        bound: Dict[str, ast.AST] = {}
        pos = list(params)
        if recv is not None:
            if not pos:
                return None
            bound[pos[0]] = recv
            pos = pos[1:]
        if len(call.args) > len(pos):
            return None
        for p, a in zip(pos, call.args):
            bound[p] = a
        extra: List[ast.keyword] = []
        for k in call.keywords:
            if k.arg in bound:
                return None
            if k.arg not in params + kwonly:
                if g.node.args.kwarg is None:
                    return None
                extra.append(k)
                continue
            bound[k.arg] = k.value
        self._extra_kw = (g.node.args.kwarg.arg if g.node.args.kwarg else None, extra)
        defaults = g.param_defaults()
        for p in params + kwonly:
            if p not in bound:
                if p not in defaults:
                    return None
                bound[p] = defaults[p]
        return bound

    def _globals_ok(self, f: Func, g: Func, body_nodes: List[ast.AST], local_names: Set[str]) -> bool:
        if g.module is f.module:
            return True
        needed = set()
        for n in body_nodes:
            for x in ast.walk(n):
                if isinstance(x, ast.Name) and isinstance(x.ctx, ast.Load) and x.id not in local_names and not hasattr(builtins, x.id):
                    needed.add(x.id)
        add = {}
        for name in sorted(needed):
            src = self.prog.resolve_dotted(g.module, name)
            if src is None:
                # module-level constant / function of g's module
                if name in g.module.assigns or name in g.module.functions or name in g.module.classes:
                    src = g.module.name + "." + name
                else:
                    return False
            here = self.prog.resolve_dotted(f.module, name)
            bound_here = name in f.module.imports or name in f.module.assigns or name in f.module.functions or name in f.module.classes
            if bound_here:
                if here != src:
                    return False
            else:
                add[name] = src
        for name, src in add.items():
            if name in g.module.assigns and src == g.module.name + "." + name:
                f.module.assigns.setdefault(name, g.module.assigns[name])
            f.module.imports.setdefault(name, src)
        return True

    @staticmethod
    def _guard_style(body: List[ast.stmt]) -> bool:
        """every Return is the last statement of the list or of an if-branch (recursively); none inside loops/try/with"""
        for i, s in enumerate(body):
            last = i == len(body) - 1
            if isinstance(s, ast.Return):
                if not last:
                    return False
            elif isinstance(s, ast.If):
                for br in (s.body, s.orelse):
                    if any(isinstance(x, ast.Return) for b in br for x in ast.walk(b)):
                        if not Inliner._guard_style(br):
                            return False
                        # a branch that returns must end in a return, or the rest of the list follows (fine either way)
            else:
                if any(isinstance(x, ast.Return) for x in ast.walk(s)):
                    return False
        return True

    def _returns_to(self, body: List[ast.stmt], make) -> List[ast.stmt]:
        """rewrite guard-style returns: `make(value)` builds the statement(s) that replace `return value`;
        statements after an if-branch that returned go to the other branch"""
        out: List[ast.stmt] = []
        for i, s in enumerate(body):
            if isinstance(s, ast.Return):
                out.extend(make(s.value, s))
                return out
            if isinstance(s, ast.If) and any(isinstance(x, ast.Return) for x in ast.walk(s)):
                rest = body[i + 1:]
                b_ret = bool(s.body) and self._always_returns(s.body)
                o_ret = bool(s.orelse) and self._always_returns(s.orelse)
                new_if = ast.If(test=s.test, body=[], orelse=[])
                ast.copy_location(new_if, s)
                if b_ret and not o_ret:
                    new_if.body = self._returns_to(s.body, make)
                    new_if.orelse = self._returns_to(list(s.orelse) + rest, make)
                elif o_ret and not b_ret:
                    new_if.body = self._returns_to(list(s.body) + rest, make)
                    new_if.orelse = self._returns_to(s.orelse, make)
                elif b_ret and o_ret:
                    new_if.body = self._returns_to(s.body, make)
                    new_if.orelse = self._returns_to(s.orelse, make)
                else:
                    # returns somewhere inside but neither branch always returns: duplicate the rest into both
                    new_if.body = self._returns_to(list(s.body) + clone(rest), make)
                    new_if.orelse = self._returns_to(list(s.orelse) + rest, make)
                if not new_if.body:
                    new_if.body = [ast.copy_location(ast.Pass(), s)]
                out.append(new_if)
                return out
            out.append(s)
        out.extend(make(None, body[-1] if body else None))
        return out

    @staticmethod
    def _always_returns(body: List[ast.stmt]) -> bool:
        if not body:
            return False
        last = body[-1]
        if isinstance(last, (ast.Return, ast.Raise)):
            return True
        if isinstance(last, ast.If) and last.orelse:
            return Inliner._always_returns(last.body) and Inliner._always_returns(last.orelse)
        return False

    # ------------------------------------------------------------ inlining
    def _expand(self, f: Func, g: Func, call: ast.Call, recv, position: str, target: Optional[ast.AST]) -> Optional[List[ast.stmt]]:
        bound = self._bind(g, call, recv)
        if bound is None:
            return None
        self.counter += 1
        tag = "__i%d" % self.counter
        body = clone(_docstring_stripped(g.node.body))
        params = set(bound)
        assigned = set()
        for n in body:
            for x in ast.walk(n):
                if isinstance(x, ast.Name) and isinstance(x.ctx, (ast.Store, ast.Del)):
                    assigned.add(x.id)
                elif isinstance(x, ast.ExceptHandler) and x.name:
                    assigned.add(x.name)
        if not self._globals_ok(f, g, body, params | assigned):
            return None
        # closures of the host: free variables are the host's own locals, nothing to rename there
        rename = {n: n + tag for n in assigned}
        mapping: Dict[str, ast.AST] = {}
        pre: List[ast.stmt] = []
        for p, a in bound.items():
            uses = sum(1 for n in body for x in ast.walk(n) if isinstance(x, ast.Name) and x.id == p and isinstance(x.ctx, ast.Load))
            if p in assigned or not (_is_simple(a) or uses <= 1 and position == "expr"):
                # evaluate once into a fresh local
                nm = p + tag
                st = ast.Assign(targets=[ast.Name(id=nm, ctx=ast.Store())], value=clone(a))
                ast.copy_location(st, call)
                ast.fix_missing_locations(st)
                pre.append(st)
                rename[p] = nm
                mapping.pop(p, None)
            else:
                mapping[p] = a
        sub = _Subst(mapping, rename)
        body = [sub.visit(n) for n in body]
        kwname, extra = getattr(self, "_extra_kw", (None, []))
        if kwname is not None:
            for n in body:
                for c in ast.walk(n):
                    if isinstance(c, ast.Call):
                        newkw = []
                        for k in c.keywords:
                            if k.arg is None and isinstance(k.value, ast.Name) and k.value.id in (kwname, rename.get(kwname, kwname)):
                                newkw.extend(clone(extra))
                            else:
                                newkw.append(k)
                        c.keywords = newkw
        for n in body:
            for x in ast.walk(n):
                x._inl_file = g.module.relpath  # type: ignore[attr-defined]
                x._inl_func = g.qualname  # type: ignore[attr-defined]

        def make(value, at):
            if position == "expr_stmt":
                if value is None or isinstance(value, (ast.Name, ast.Constant)):
                    return []
                st = ast.Expr(value=value)
            elif position == "assign":
                st = ast.Assign(targets=[clone(target)], value=value if value is not None else ast.Constant(value=None))
            else:  # return
                st = ast.Return(value=value)
            ast.copy_location(st, at if at is not None else call)
            ast.fix_missing_locations(st)
            return [st]

        new = self._returns_to(body, make)
        return pre + new

    def _expr_body(self, g: Func) -> Optional[ast.AST]:
        body = _docstring_stripped(g.node.body)
        if len(body) == 1 and isinstance(body[0], ast.Return) and body[0].value is not None:
            return body[0].value
        return None

    def _inline_in(self, f: Func, res: Resolver) -> bool:
        changed = False
        # ---- statement positions
        def process(stmts: List[ast.stmt]) -> List[ast.stmt]:
            nonlocal changed
            out: List[ast.stmt] = []
            stmts = self._hoist(f, list(stmts), res)
            for s in stmts:
                call, position, target = None, None, None
                if isinstance(s, ast.Expr) and isinstance(s.value, ast.Call):
                    call, position = s.value, "expr_stmt"
                elif isinstance(s, ast.Assign) and len(s.targets) == 1 and isinstance(s.value, ast.Call):
                    call, position, target = s.value, "assign", s.targets[0]
                elif isinstance(s, ast.Return) and isinstance(s.value, ast.Call):
                    call, position = s.value, "return"
                done = False
                if call is not None:
                    el = self._eligible(f, call, res)
                    if el is not None:
                        g, recv = el
                        gb = _docstring_stripped(g.node.body)
                        if self._guard_style(gb):
                            new = self._expand(f, g, call, recv, position, target)
                            if new is not None:
                                self.log.append((f.qualname, g.qualname, getattr(s, "lineno", 0)))
                                out.extend(new if new else [ast.copy_location(ast.Pass(), s)])
                                changed = True
                                done = True
                if done:
                    continue
                # recurse into compound statements
                for fld in ("body", "orelse", "finalbody"):
                    sub = getattr(s, fld, None)
                    if isinstance(sub, list) and sub and isinstance(sub[0], ast.stmt) and not isinstance(s, (ast.FunctionDef, ast.AsyncFunctionDef, ast.ClassDef)):
                        setattr(s, fld, process(sub))
                if isinstance(s, ast.Try):
                    for h in s.handlers:
                        h.body = process(h.body)
                out.append(s)
            return out

        f.node.body = process(f.node.body)
        # ---- expression positions (expression-bodied helpers)
        for n in list(own_nodes(f.node)):
            if not isinstance(n, ast.Call):
                continue
            par = getattr(n, "_parent", None)
            el = self._eligible(f, n, res)
            if el is None:
                continue
            g, recv = el
            e = self._expr_body(g)
            if e is None:
                continue
            bound = self._bind(g, n, recv)
            if bound is None:
                continue
            uses = {p: sum(1 for x in ast.walk(e) if isinstance(x, ast.Name) and x.id == p) for p in bound}
            if any(not _is_simple(a) and uses[p] > 1 for p, a in bound.items()):
                continue
            # names bound inside the expression (comprehension variables, lambda parameters)
            inner = {x.id for x in ast.walk(e) if isinstance(x, ast.Name) and isinstance(x.ctx, ast.Store)}
            if not self._globals_ok(f, g, [e], set(bound) | inner):
                continue
            self.counter += 1
            tag = "__i%d" % self.counter
            new = _Subst(dict(bound), {x: x + tag for x in inner}).visit(clone(e))
            for x in ast.walk(new):
                x._inl_file = g.module.relpath  # type: ignore[attr-defined]
                x._inl_func = g.qualname  # type: ignore[attr-defined]
                if not hasattr(x, "lineno") and isinstance(x, (ast.expr, ast.stmt)):
                    ast.copy_location(x, n)
            if self._replace_child(f.node, n, new):
                self.log.append((f.qualname, g.qualname, getattr(n, "lineno", 0)))
                changed = True
                set_parents(f.node)
        if changed:
            ast.fix_missing_locations(f.node)
            set_parents(f.node)
            self._simplify(f)
            ast.fix_missing_locations(f.node)
            set_parents(f.node)
        return changed

    # ------------------------------------------------------------ hoisting
    def _hoist(self, f: Func, stmts: List[ast.stmt], res: Resolver) -> List[ast.stmt]:
        """`x = g(a).field` / `y = h(g(a))` / `if g(a): ...` -> `t = g(a)` + the statement over `t`, when `g` is a
        statement-bodied candidate and everything evaluated before the call is side-effect free."""
        out: List[ast.stmt] = []
        for s in stmts:
            holder = None
            if isinstance(s, (ast.Assign, ast.AugAssign, ast.AnnAssign, ast.Return, ast.Expr)):
                holder = s.value
            elif isinstance(s, (ast.If, ast.While)):
                holder = s.test if isinstance(s, ast.If) else None
            if holder is None or (isinstance(holder, ast.Call) and isinstance(s, (ast.Assign, ast.Return, ast.Expr)) and not isinstance(s, ast.AugAssign) and (not isinstance(s, ast.Assign) or len(s.targets) == 1)):
                # statement-level call (or nothing to do) - but arguments may still hold candidate calls
                if holder is None or not isinstance(holder, ast.Call):
                    out.append(s)
                    continue
            cands = []
            for n in ast.walk(holder):
                if n is holder and isinstance(s, (ast.Assign, ast.Return, ast.Expr)) and isinstance(holder, ast.Call) and (not isinstance(s, ast.Assign) or len(s.targets) == 1):
                    continue  # handled at statement level
                if isinstance(n, ast.Call):
                    el = self._eligible(f, n, res)
                    if el is not None and self._expr_body(el[0]) is None and self._guard_style(_docstring_stripped(el[0].node.body)):
                        cands.append(n)
            if len(cands) != 1:
                out.append(s)
                continue
            c = cands[0]
            # everything else in the statement must be free of calls (so that the evaluation order cannot matter),
            # and the call must not sit inside a comprehension / lambda / conditional sub-expression
            ok = True
            # the outermost call of the statement runs after its arguments: a candidate that is one of its arguments
            # can be evaluated first when the callee expression itself is call-free
            outer_ok = isinstance(holder, ast.Call) and (any(a is c for a in holder.args) or any(k.value is c for k in holder.keywords)) and not any(isinstance(x, ast.Call) for x in ast.walk(holder.func))
            for n in ast.walk(holder):
                if n is holder and outer_ok:
                    continue
                if isinstance(n, ast.Call) and n is not c and not any(x is n for x in ast.walk(c)):
                    if not (isinstance(n.func, ast.Name) and n.func.id in ("len", "list", "tuple", "dict", "set", "str", "int", "float", "bool", "sorted", "enumerate", "zip")):
                        ok = False
                if isinstance(n, (ast.ListComp, ast.SetComp, ast.DictComp, ast.GeneratorExp, ast.Lambda, ast.IfExp, ast.BoolOp)) and any(x is c for x in ast.walk(n)):
                    ok = False
            if not ok:
                out.append(s)
                continue
            self.counter += 1
            tmp = "__t%d" % self.counter
            pre = ast.Assign(targets=[ast.Name(id=tmp, ctx=ast.Store())], value=c)
            ast.copy_location(pre, s)
            ref = ast.copy_location(ast.Name(id=tmp, ctx=ast.Load()), c)
            if not self._replace_child(s, c, ref):
                out.append(s)
                continue
            ast.fix_missing_locations(pre)
            out.append(pre)
            out.append(s)
        return out

    # -------------------------------------------------------- simplification
    def _namedtuple_fields(self, call: ast.Call, f: Func) -> Optional[List[str]]:
        d = unparse(call.func)
        q = self.prog.resolve_dotted(f.module, d)
        cls = self.prog.classes.get(q) if isinstance(q, str) else None
        if cls is None and d in f.module.classes:
            cls = f.module.classes[d]
        if cls is None:
            return None
        if not any(unparse(b).split(".")[-1] == "NamedTuple" for b in cls.node.bases):
            return None
        return [b.target.id for b in cls.node.body if isinstance(b, ast.AnnAssign) and isinstance(b.target, ast.Name)]

    def _simplify(self, f: Func) -> None:
        """local clean-up after expansion: NamedTuple constructors become tuples, temporaries that only carry a tuple
        are replaced by its elements, tuple assignments of simple values are split, copies of expansion locals are folded"""
        for _round in range(4):
            changed = False
            set_parents(f.node)
            # P1: NT(a, b, c) -> (a, b, c)
            for n in list(own_nodes(f.node)):
                if isinstance(n, ast.Call) and getattr(n, "_inl_file", None) is not None or isinstance(n, ast.Call):
                    fields = self._namedtuple_fields(n, f) if isinstance(n.func, (ast.Name, ast.Attribute)) else None
                    if fields and len(n.args) + len(n.keywords) == len(fields) and all(k.arg in fields for k in n.keywords):
                        vals = {fl: a for fl, a in zip(fields, n.args)}
                        vals.update({k.arg: k.value for k in n.keywords})
                        if set(vals) == set(fields):
                            tup = ast.copy_location(ast.Tuple(elts=[vals[fl] for fl in fields], ctx=ast.Load()), n)
                            tup._nt_fields = fields  # type: ignore[attr-defined]
                            if self._replace_child(f.node, n, tup):
                                changed = True
            set_parents(f.node)
            # P5: operator.eq(a, b) -> a == b  (a relation passed to an expanded helper)
            OPS = {"eq": ast.Eq, "ne": ast.NotEq, "lt": ast.Lt, "le": ast.LtE, "gt": ast.Gt, "ge": ast.GtE, "contains": None}
            for n in list(own_nodes(f.node)):
                if isinstance(n, ast.Call) and isinstance(n.func, ast.Attribute) and isinstance(n.func.value, ast.Name) and n.func.value.id == "operator" and n.func.attr in OPS and len(n.args) == 2 and not n.keywords and f.module.imports.get("operator", "operator") == "operator":
                    if n.func.attr == "contains":
                        new = ast.Compare(left=n.args[1], ops=[ast.In()], comparators=[n.args[0]])
                    else:
                        new = ast.Compare(left=n.args[0], ops=[OPS[n.func.attr]()], comparators=[n.args[1]])
                    ast.copy_location(new, n)
                    if self._replace_child(f.node, n, new):
                        changed = True
            set_parents(f.node)
            # P2: T = (a, b, c); uses T.field / T[i] only -> element
            assigns: Dict[str, List[ast.Assign]] = {}
            for n in own_nodes(f.node):
                if isinstance(n, ast.Assign) and len(n.targets) == 1 and isinstance(n.targets[0], ast.Name):
                    assigns.setdefault(n.targets[0].id, []).append(n)
            for name, defs in assigns.items():
                if len(defs) != 1 or not isinstance(defs[0].value, ast.Tuple) or not name.startswith("__t") and "__i" not in name:
                    continue
                tup = defs[0].value
                fields = getattr(tup, "_nt_fields", None)
                uses = [x for x in own_nodes(f.node) if isinstance(x, ast.Name) and x.id == name and isinstance(x.ctx, ast.Load)]
                ok = bool(uses) and all(_is_simple(e) for e in tup.elts)
                repl = []
                for u in uses:
                    par = getattr(u, "_parent", None)
                    if isinstance(par, ast.Attribute) and par.value is u and fields and par.attr in fields:
                        repl.append((par, tup.elts[fields.index(par.attr)]))
                    elif isinstance(par, ast.Subscript) and par.value is u and isinstance(par.slice, ast.Constant) and isinstance(par.slice.value, int) and -len(tup.elts) <= par.slice.value < len(tup.elts):
                        repl.append((par, tup.elts[par.slice.value]))
                    elif isinstance(par, ast.Assign) and par.value is u and len(par.targets) == 1 and isinstance(par.targets[0], (ast.Tuple, ast.List)):
                        repl.append((u, tup))
                    else:
                        ok = False
                if ok:
                    for old, new in repl:
                        self._replace_child(f.node, old, clone(new))
                    self._remove_stmt(f.node, defs[0])
                    changed = True
                    set_parents(f.node)
            # P3: a, b = (x, y) with simple, non-overlapping values -> a = x; b = y
            for n in list(own_nodes(f.node)):
                if isinstance(n, ast.Assign) and len(n.targets) == 1 and isinstance(n.targets[0], (ast.Tuple, ast.List)) and isinstance(n.value, ast.Tuple) and len(n.targets[0].elts) == len(n.value.elts):
                    tgts = n.targets[0].elts
                    if all(isinstance(t, ast.Name) for t in tgts) and all(_is_simple(v) for v in n.value.elts):
                        tn = {t.id for t in tgts}
                        if not any(isinstance(x, ast.Name) and x.id in tn for v in n.value.elts for x in ast.walk(v)):
                            new = []
                            for t, v in zip(tgts, n.value.elts):
                                a = ast.Assign(targets=[t], value=v)
                                ast.copy_location(a, n)
                                new.append(a)
                            if self._replace_stmt(f.node, n, new):
                                changed = True
                                set_parents(f.node)
            # P4: X = Y__iN where that is Y__iN's only use and both are assigned once -> rename Y__iN to X
            assigns = {}
            for n in own_nodes(f.node):
                if isinstance(n, ast.Name) and isinstance(n.ctx, ast.Store):
                    assigns.setdefault(n.id, []).append(n)
            for n in list(own_nodes(f.node)):
                if isinstance(n, ast.Assign) and len(n.targets) == 1 and isinstance(n.targets[0], ast.Name) and isinstance(n.value, ast.Name):
                    x, y = n.targets[0].id, n.value.id
                    if ("__i" in y or y.startswith("__t")) and len(assigns.get(y, [])) == 1 and len(assigns.get(x, [])) == 1:
                        if x not in f.params:
                            # both names are bound exactly once and denote the same object: one name is enough
                            for z in own_nodes(f.node):
                                if isinstance(z, ast.Name) and z.id == y:
                                    z.id = x
                            self._remove_stmt(f.node, n)
                            changed = True
                            set_parents(f.node)
                            assigns = {}
                            for m in own_nodes(f.node):
                                if isinstance(m, ast.Name) and isinstance(m.ctx, ast.Store):
                                    assigns.setdefault(m.id, []).append(m)
            if not changed:
                break

    @staticmethod
    def _stmt_lists(root: ast.AST):
        for parent in ast.walk(root):
            for fld in ("body", "orelse", "finalbody"):
                lst = getattr(parent, fld, None)
                if isinstance(lst, list) and lst and isinstance(lst[0], ast.stmt):
                    yield parent, fld, lst
            if isinstance(parent, ast.Try):
                for h in parent.handlers:
                    yield h, "body", h.body

    def _remove_stmt(self, root: ast.AST, stmt: ast.stmt) -> bool:
        return self._replace_stmt(root, stmt, [])

    def _replace_stmt(self, root: ast.AST, stmt: ast.stmt, new: List[ast.stmt]) -> bool:
        for parent, fld, lst in self._stmt_lists(root):
            for i, x in enumerate(lst):
                if x is stmt:
                    repl = new if (new or len(lst) > 1) else [ast.copy_location(ast.Pass(), stmt)]
                    lst[i:i + 1] = repl
                    return True
        return False

    @staticmethod
    def _replace_child(root: ast.AST, old: ast.AST, new: ast.AST) -> bool:
        for parent in ast.walk(root):
            for fld, val in ast.iter_fields(parent):
                if val is old:
                    setattr(parent, fld, new)
                    return True
                if isinstance(val, list):
                    for i, x in enumerate(val):
                        if x is old:
                            val[i] = new
                            return True
        return False


def destructure_namedtuples(prog: Program) -> List[Tuple[str, str]]:
    """`r = f(..)` where every return of `f` builds the same NamedTuple and `r` is only used as `r.<field>`:
    rewrite to `<field names> = f(..)` and plain names, the spelling the rules know from tuple-returning code."""
    res = Resolver(prog)
    out: List[Tuple[str, str]] = []

    def nt_fields(cls) -> Optional[List[str]]:
        if not any(unparse(b).split(".")[-1] == "NamedTuple" for b in cls.node.bases):
            return None
        return [b.target.id for b in cls.node.body if isinstance(b, ast.AnnAssign) and isinstance(b.target, ast.Name)]

    def result_fields(g: Func) -> Optional[List[str]]:
        rets = [r for r in own_nodes(g.node) if isinstance(r, ast.Return) and r.value is not None]
        fields = None
        for r in rets:
            v = r.value
            if not (isinstance(v, ast.Call) and isinstance(v.func, (ast.Name, ast.Attribute))):
                return None
            q = prog.resolve_dotted(g.module, unparse(v.func))
            cls = prog.classes.get(q) if isinstance(q, str) else None
            if cls is None:
                return None
            f_ = nt_fields(cls)
            if not f_ or (fields is not None and f_ != fields):
                return None
            fields = f_
        return fields

    for q, f in sorted(prog.functions.items()):
        if not q.startswith(prog.package + ".") or not isinstance(f.node, ast.FunctionDef):
            continue
        nodes = list(own_nodes(f.node))
        for d in [n for n in nodes if isinstance(n, ast.Assign) and len(n.targets) == 1 and isinstance(n.targets[0], ast.Name) and isinstance(n.value, ast.Call)]:
            name = d.targets[0].id
            if sum(1 for n in nodes if isinstance(n, ast.Name) and n.id == name and isinstance(n.ctx, ast.Store)) != 1:
                continue
            tgt = res.resolve_callee(d.value, f)
            if not (tgt and tgt[0] == "func" and tgt[1] in prog.functions):
                continue
            fields = result_fields(prog.functions[tgt[1]])
            if not fields:
                continue
            uses = [n for n in nodes if isinstance(n, ast.Name) and n.id == name and isinstance(n.ctx, ast.Load)]
            if not uses or not all(isinstance(getattr(u, "_parent", None), ast.Attribute) and u._parent.value is u and u._parent.attr in fields and isinstance(u._parent.ctx, ast.Load) for u in uses):
                continue
            taken = {n.id for n in nodes if isinstance(n, ast.Name)} | set(f.params)
            local = {}
            for fl in fields:
                nm = fl
                while nm in taken:
                    nm = nm + "_"
                local[fl] = nm
                taken.add(nm)
            for u in uses:
                a = u._parent
                new = ast.copy_location(ast.Name(id=local[a.attr], ctx=ast.Load()), a)
                Inliner._replace_child(f.node, a, new)
            d.targets = [ast.copy_location(ast.Tuple(elts=[ast.Name(id=local[fl], ctx=ast.Store()) for fl in fields], ctx=ast.Store()), d.targets[0])]
            ast.fix_missing_locations(f.node)
            set_parents(f.node)
            nodes = list(own_nodes(f.node))
            out.append((q, name))
    # callee side: when no caller holds the result object any more, the constructor call in the returns is the tuple
    # of its fields (the spelling of tuple-returning code)
    holders: Dict[str, int] = {}
    producers: Dict[str, List[str]] = {}
    for q, f in prog.functions.items():
        if not q.startswith(prog.package + ".") or not isinstance(f.node, ast.FunctionDef):
            continue
        fl = result_fields(f)
        if fl:
            producers[q] = fl
    if producers:
        for q, f in prog.functions.items():
            if not q.startswith(prog.package + "."):
                continue
            for n in own_nodes(f.node):
                if isinstance(n, ast.Call):
                    par = getattr(n, "_parent", None)
                    unpack = isinstance(par, ast.Assign) and par.value is n and len(par.targets) == 1 and isinstance(par.targets[0], (ast.Tuple, ast.List))
                    if unpack:
                        continue
                    tgt = res.resolve_callee(n, f)
                    if tgt and tgt[0] == "func" and tgt[1] in producers:
                        holders[tgt[1]] = holders.get(tgt[1], 0) + 1
        for q, fields in producers.items():
            if holders.get(q):
                continue
            g = prog.functions[q]
            done = False
            for r in [x for x in own_nodes(g.node) if isinstance(x, ast.Return) and isinstance(x.value, ast.Call)]:
                c = r.value
                vals = {}
                for i, a in enumerate(c.args):
                    if i < len(fields) and not isinstance(a, ast.Starred):
                        vals[fields[i]] = a
                for k in c.keywords:
                    if k.arg in fields:
                        vals[k.arg] = k.value
                if set(vals) != set(fields):
                    continue
                r.value = ast.copy_location(ast.Tuple(elts=[vals[x] for x in fields], ctx=ast.Load()), c)
                done = True
            if done:
                ast.fix_missing_locations(g.node)
                set_parents(g.node)
                out.append((q, "<returns>"))
    return out


def anchors_from_sources(paths: List[str]) -> Set[str]:
    """Dotted names starting with the package name that occur as string constants in the checker's own sources."""
    import re

    out: Set[str] = set()
    for p in paths:
        try:
            src = open(p, encoding="utf-8").read()
        except OSError:
            continue
        for m in re.finditer(r"[\"'](synrbl(?:\.[A-Za-z_<>][\w<>]*)+)", src):
            out.add(m.group(1))
    return out
