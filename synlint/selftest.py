"""Mutation self-test of the rules (DESIGN.md 2.4) - filled in per property."""


def run(prop: str, repo: str, seed: int) -> dict:
    from .mutants import run_variants

    return run_variants(prop, repo, seed)
