"""Statement CFG, dominators and guard sets (DESIGN.md 1.4).

Nodes are integer ids.  Every simple statement is one node; compound
statements contribute a *test* node (``If``/``While`` test, ``For`` header,
``Try`` entry, ``With`` entry) and their bodies.  Each branch edge carries a
synthetic node so that "dominated by the true edge of this test" is a plain
node-dominance question.  Every statement inside a ``try`` body has an
exceptional edge to each handler.
"""

from __future__ import annotations

import ast
from dataclasses import dataclass, field
from typing import Dict, List, Optional, Set, Tuple

from .model import unparse


@dataclass
class Node:
    id: int
    kind: str  # entry, exit, raise_exit, stmt, test, loop, edge, handler, try, with, finally
    ast: Optional[ast.AST] = None
    cond: Optional[ast.AST] = None  # for edge nodes: the test expression
    polarity: Optional[bool] = None  # for edge nodes
    succ: List[int] = field(default_factory=list)
    pred: List[int] = field(default_factory=list)

    @property
    def lineno(self) -> int:
        return getattr(self.ast, "lineno", 0) if self.ast is not None else 0


class CFG:
    def __init__(self, fn: ast.AST):
        self.fn = fn
        self.nodes: List[Node] = []
        self.entry = self._new("entry")
        self.exit = self._new("exit")  # normal return
        self.raise_exit = self._new("raise_exit")  # exception leaves the function
        self.stmt_node: Dict[int, int] = {}  # id(ast stmt) -> node id
        self._loop_stack: List[Tuple[int, int]] = []  # (continue target, break target)
        self._handler_stack: List[List[int]] = []  # innermost last: handler entry nodes
        self._finally_stack: List[int] = []
        last = self._block(fn.body, [self.entry])
        for n in last:
            self._edge(n, self.exit)
        self._dom: Optional[Dict[int, Set[int]]] = None
        self._pdom: Optional[Dict[int, Set[int]]] = None

    # ---------------------------------------------------------------- build
    def _new(self, kind: str, node: Optional[ast.AST] = None, **kw) -> int:
        n = Node(id=len(self.nodes), kind=kind, ast=node, **kw)
        self.nodes.append(n)
        return n.id

    def _edge(self, a: int, b: int) -> None:
        if b not in self.nodes[a].succ:
            self.nodes[a].succ.append(b)
            self.nodes[b].pred.append(a)

    def _link(self, preds: List[int], b: int) -> None:
        for p in preds:
            self._edge(p, b)

    def _exc_edges(self, n: int) -> None:
        """Statement ``n`` may raise: edge to the innermost handlers (or out)."""
        if self._handler_stack:
            for h in self._handler_stack[-1]:
                self._edge(n, h)
        else:
            pass  # implicit raise out of the function is not modelled per statement

    def _block(self, stmts: List[ast.stmt], preds: List[int]) -> List[int]:
        cur = preds
        for s in stmts:
            cur = self._stmt(s, cur)
        return cur

    def _branch(self, test_node: int, cond: ast.AST, polarity: bool) -> int:
        e = self._new("edge", cond, cond=cond, polarity=polarity)
        self._edge(test_node, e)
        return e

    def _stmt(self, s: ast.stmt, preds: List[int]) -> List[int]:
        if isinstance(s, ast.If):
            t = self._new("test", s)
            self.stmt_node[id(s)] = t
            self._link(preds, t)
            self._exc_edges(t)
            te = self._branch(t, s.test, True)
            fe = self._branch(t, s.test, False)
            out = self._block(s.body, [te])
            out2 = self._block(s.orelse, [fe]) if s.orelse else [fe]
            return out + out2
        if isinstance(s, (ast.For, ast.AsyncFor)):
            h = self._new("loop", s)
            self.stmt_node[id(s)] = h
            self._link(preds, h)
            self._exc_edges(h)
            body_e = self._new("edge", s, cond=s, polarity=True)  # "loop has another element"
            exit_e = self._new("edge", s, cond=s, polarity=False)
            self._edge(h, body_e)
            self._edge(h, exit_e)
            brk = self._new("join", s)
            self._loop_stack.append((h, brk))
            out = self._block(s.body, [body_e])
            self._loop_stack.pop()
            self._link(out, h)
            after = self._block(s.orelse, [exit_e]) if s.orelse else [exit_e]
            self._link(after, brk)
            return [brk]
        if isinstance(s, ast.While):
            t = self._new("test", s)
            self.stmt_node[id(s)] = t
            self._link(preds, t)
            self._exc_edges(t)
            te = self._branch(t, s.test, True)
            fe = self._branch(t, s.test, False)
            brk = self._new("join", s)
            self._loop_stack.append((t, brk))
            out = self._block(s.body, [te])
            self._loop_stack.pop()
            self._link(out, t)
            after = self._block(s.orelse, [fe]) if s.orelse else [fe]
            self._link(after, brk)
            return [brk]
        if isinstance(s, (ast.Try, getattr(ast, "TryStar", ast.Try))):
            t = self._new("try", s)
            self.stmt_node[id(s)] = t
            self._link(preds, t)
            handlers = [self._new("handler", h) for h in s.handlers]
            for h, hn in zip(s.handlers, handlers):
                self.stmt_node[id(h)] = hn
            fin_entry = None
            if s.finalbody:
                fin_entry = self._new("finally", s)
            # body: exceptional edges to handlers (or to finally / outer)
            targets = list(handlers)
            if not targets and fin_entry is not None:
                targets = [fin_entry]
            self._handler_stack.append(targets if targets else (self._handler_stack[-1] if self._handler_stack else []))
            for hn in targets:
                self._edge(t, hn)
            body_out = self._block(s.body, [t])
            self._handler_stack.pop()
            else_out = self._block(s.orelse, body_out) if s.orelse else body_out
            outs = list(else_out)
            for h, hn in zip(s.handlers, handlers):
                outs += self._block(h.body, [hn])
            if fin_entry is not None:
                self._link(outs, fin_entry)
                fin_out = self._block(s.finalbody, [fin_entry])
                # finally may also be left by re-raising
                return fin_out
            return outs
        if isinstance(s, (ast.With, ast.AsyncWith)):
            w = self._new("with", s)
            self.stmt_node[id(s)] = w
            self._link(preds, w)
            self._exc_edges(w)
            return self._block(s.body, [w])
        if isinstance(s, (ast.FunctionDef, ast.AsyncFunctionDef, ast.ClassDef)):
            n = self._new("stmt", s)
            self.stmt_node[id(s)] = n
            self._link(preds, n)
            return [n]
        if isinstance(s, ast.Match):  # pragma: no cover - not used in the repo
            n = self._new("test", s)
            self.stmt_node[id(s)] = n
            self._link(preds, n)
            outs = []
            for c in s.cases:
                outs += self._block(c.body, [n])
            return outs + [n]
        # simple statements
        n = self._new("stmt", s)
        self.stmt_node[id(s)] = n
        self._link(preds, n)
        if isinstance(s, ast.Return):
            self._exc_edges(n)
            self._edge(n, self.exit)
            return []
        if isinstance(s, ast.Raise):
            if self._handler_stack and self._handler_stack[-1]:
                for h in self._handler_stack[-1]:
                    self._edge(n, h)
            else:
                self._edge(n, self.raise_exit)
            return []
        if isinstance(s, ast.Break):
            if self._loop_stack:
                self._edge(n, self._loop_stack[-1][1])
            return []
        if isinstance(s, ast.Continue):
            if self._loop_stack:
                self._edge(n, self._loop_stack[-1][0])
            return []
        if isinstance(s, ast.Assert):
            # failing assert leaves (to handler or out); passing continues
            if self._handler_stack and self._handler_stack[-1]:
                for h in self._handler_stack[-1]:
                    self._edge(n, h)
            return [n]
        self._exc_edges(n)
        return [n]

    # ------------------------------------------------------------ dominance
    def _dominators(self, entry: int, forward: bool) -> Dict[int, Set[int]]:
        ids = [n.id for n in self.nodes]
        allset = set(ids)
        dom: Dict[int, Set[int]] = {i: set(allset) for i in ids}
        dom[entry] = {entry}
        # restrict to nodes reachable from entry
        reach, stack = set(), [entry]
        while stack:
            x = stack.pop()
            if x in reach:
                continue
            reach.add(x)
            stack.extend(self.nodes[x].succ if forward else self.nodes[x].pred)
        changed = True
        order = [i for i in ids if i in reach]
        while changed:
            changed = False
            for i in order:
                if i == entry:
                    continue
                ps = [p for p in (self.nodes[i].pred if forward else self.nodes[i].succ) if p in reach]
                if not ps:
                    continue
                new = set(allset)
                for p in ps:
                    new &= dom[p]
                new.add(i)
                if new != dom[i]:
                    dom[i] = new
                    changed = True
        for i in ids:
            if i not in reach:
                dom[i] = set()
        return dom

    @property
    def dom(self) -> Dict[int, Set[int]]:
        if self._dom is None:
            self._dom = self._dominators(self.entry, True)
        return self._dom

    @property
    def pdom(self) -> Dict[int, Set[int]]:
        """Post-dominators with respect to the *normal* exit."""
        if self._pdom is None:
            self._pdom = self._dominators(self.exit, False)
        return self._pdom

    def node_of(self, stmt: ast.AST) -> Optional[int]:
        """CFG node of a statement, or of the statement enclosing an
        expression."""
        cur = stmt
        while cur is not None:
            if id(cur) in self.stmt_node:
                return self.stmt_node[id(cur)]
            cur = getattr(cur, "_parent", None)
        return None

    def dominates(self, a: int, b: int) -> bool:
        return a in self.dom.get(b, ())

    def reachable_from(self, a: int, avoid: Set[int] = frozenset()) -> Set[int]:
        seen, stack = set(), [a]
        while stack:
            x = stack.pop()
            if x in seen or x in avoid:
                continue
            seen.add(x)
            stack.extend(self.nodes[x].succ)
        return seen

    def guards(self, node_id: int) -> List[Tuple[ast.AST, bool]]:
        """Branch conditions (test expr, polarity) whose edge dominates the
        node, split into atomic conjuncts."""
        out: List[Tuple[ast.AST, bool]] = []
        for d in sorted(self.dom.get(node_id, ())):
            n = self.nodes[d]
            if n.kind == "edge" and n.cond is not None and not isinstance(n.cond, (ast.For, ast.AsyncFor)):
                out.extend(split_cond(n.cond, bool(n.polarity)))
        # handler context
        return out

    def in_handler(self, node_id: int) -> List[ast.ExceptHandler]:
        out = []
        for d in self.dom.get(node_id, ()):
            n = self.nodes[d]
            if n.kind == "handler":
                out.append(n.ast)
        return out

    def every_path_to_exit_passes(self, start: int, predicate) -> Tuple[bool, Optional[int]]:
        """Does every path from ``start`` to the normal exit pass a node for
        which ``predicate(node)`` holds?  -> (ok, offending exit predecessor)"""
        seen, stack = set(), [start]
        while stack:
            x = stack.pop()
            if x in seen:
                continue
            seen.add(x)
            n = self.nodes[x]
            if predicate(n):
                continue
            if x == self.exit:
                return False, x
            stack.extend(n.succ)
        return True, None


# --------------------------------------------------------------------------
# condition normalisation
# --------------------------------------------------------------------------


def split_cond(cond: ast.AST, polarity: bool) -> List[Tuple[ast.AST, bool]]:
    """Atomic conjuncts implied by ``cond`` having truth value ``polarity``."""
    if isinstance(cond, ast.UnaryOp) and isinstance(cond.op, ast.Not):
        return split_cond(cond.operand, not polarity)
    if isinstance(cond, ast.BoolOp):
        if isinstance(cond.op, ast.And) and polarity:
            out = []
            for v in cond.values:
                out.extend(split_cond(v, True))
            return out
        if isinstance(cond.op, ast.Or) and not polarity:
            out = []
            for v in cond.values:
                out.extend(split_cond(v, False))
            return out
        return [(cond, polarity)]
    return [(cond, polarity)]


_FLIP = {ast.Lt: ast.Gt, ast.Gt: ast.Lt, ast.LtE: ast.GtE, ast.GtE: ast.LtE, ast.Eq: ast.Eq, ast.NotEq: ast.NotEq}
_NEG = {
    ast.Lt: ast.GtE,
    ast.GtE: ast.Lt,
    ast.Gt: ast.LtE,
    ast.LtE: ast.Gt,
    ast.Eq: ast.NotEq,
    ast.NotEq: ast.Eq,
    ast.In: ast.NotIn,
    ast.NotIn: ast.In,
    ast.Is: ast.IsNot,
    ast.IsNot: ast.Is,
}
_OPNAME = {
    ast.Lt: "<",
    ast.Gt: ">",
    ast.LtE: "<=",
    ast.GtE: ">=",
    ast.Eq: "==",
    ast.NotEq: "!=",
    ast.In: "in",
    ast.NotIn: "not in",
    ast.Is: "is",
    ast.IsNot: "is not",
}


def normal_compare(cond: ast.AST, polarity: bool) -> Optional[Tuple[ast.AST, str, ast.AST]]:
    """(left, op, right) of a single comparison with the polarity folded
    into the operator; ``None`` when ``cond`` is not a simple comparison."""
    if isinstance(cond, ast.UnaryOp) and isinstance(cond.op, ast.Not):
        return normal_compare(cond.operand, not polarity)
    if isinstance(cond, ast.Compare) and len(cond.ops) == 1:
        op = type(cond.ops[0])
        if not polarity:
            op = _NEG.get(op)
            if op is None:
                return None
        return cond.left, _OPNAME[op], cond.comparators[0]
    return None


def flip(op: str) -> str:
    return {"<": ">", ">": "<", "<=": ">=", ">=": "<=", "==": "==", "!=": "!="}.get(op, op)


def guard_text(guards: List[Tuple[ast.AST, bool]]) -> List[str]:
    out = []
    for c, p in guards:
        t = unparse(c)
        out.append(t if p else "not (%s)" % t)
    return out
