"""Constant folding of side-effect free expressions over literals.

Used where a table that a rule inspects (a ban list, a label list) is no longer
written as a display but *computed* from literals at import time.  The folder
is a compile-time evaluator of a closed sub-language: it never imports or runs
repository code, it interprets the syntax tree of

  constants, list / tuple / set displays, ``+`` on str / list / tuple, ``*`` with
  an int constant, ``%`` formatting, names bound once at module level (or in the
  enclosing function) to a foldable expression, comprehensions over foldable
  iterables with foldable conditions, f-strings, ``str.format`` / ``str.join`` /
  ``str.upper|lower|strip``, ``list|tuple|sorted|set|reversed|range|len|str|zip|
  enumerate`` and ``itertools.combinations|combinations_with_replacement|
  permutations|product|chain``.

Anything else raises ``Unfoldable`` (the caller turns that into an analysis
refusal, never into a verdict).
"""

from __future__ import annotations

import ast
import itertools
from typing import Dict, Optional

from .model import Func, Module, own_nodes, unparse


class Unfoldable(Exception):
    pass


_ITER = {
    "combinations": itertools.combinations,
    "combinations_with_replacement": itertools.combinations_with_replacement,
    "permutations": itertools.permutations,
    "product": itertools.product,
    "chain": itertools.chain,
}
_BUILTIN = {
    "list": list,
    "tuple": tuple,
    "sorted": sorted,
    "set": set,
    "reversed": lambda x: list(reversed(x)),
    "range": range,
    "len": len,
    "str": str,
    "zip": lambda *a: list(zip(*a)),
    "enumerate": lambda x, start=0: list(enumerate(x, start)),
    "frozenset": frozenset,
    "dict": dict,
}
_STR_METHODS = {"format", "join", "upper", "lower", "strip", "replace", "split", "capitalize", "title"}


class Folder:
    def __init__(self, module: Module, func: Optional[Func] = None, budget: int = 20000):
        self.module = module
        self.func = func
        self.budget = budget
        self._busy = set()

    def fold(self, e: ast.AST, env: Optional[Dict[str, object]] = None):
        self.budget -= 1
        if self.budget < 0:
            raise Unfoldable("folding budget exhausted")
        env = env or {}
        if isinstance(e, ast.Constant):
            return e.value
        if isinstance(e, ast.List):
            return [x for el in e.elts for x in self._elts(el, env)]
        if isinstance(e, ast.Tuple):
            return tuple(x for el in e.elts for x in self._elts(el, env))
        if isinstance(e, ast.Set):
            return set(x for el in e.elts for x in self._elts(el, env))
        if isinstance(e, ast.Dict):
            if any(k is None for k in e.keys):
                raise Unfoldable("dict unpacking")
            return {self.fold(k, env): self.fold(v, env) for k, v in zip(e.keys, e.values)}
        if isinstance(e, ast.Name):
            if e.id in env:
                return env[e.id]
            return self._name(e.id)
        if isinstance(e, ast.BinOp):
            l, r = self.fold(e.left, env), self.fold(e.right, env)
            if isinstance(e.op, ast.Add) and type(l) is type(r) and isinstance(l, (str, list, tuple)):
                return l + r
            if isinstance(e.op, ast.Mult) and ((isinstance(l, (str, list, tuple)) and isinstance(r, int)) or (isinstance(r, (str, list, tuple)) and isinstance(l, int))):
                return l * r
            if isinstance(e.op, ast.Mod) and isinstance(l, str):
                return l % r
            if isinstance(e.op, (ast.Add, ast.Sub, ast.Mult)) and isinstance(l, int) and isinstance(r, int):
                return {ast.Add: l + r, ast.Sub: l - r, ast.Mult: l * r}[type(e.op)]
            raise Unfoldable("operator %s on %s/%s" % (type(e.op).__name__, type(l).__name__, type(r).__name__))
        if isinstance(e, ast.JoinedStr):
            out = ""
            for v in e.values:
                if isinstance(v, ast.Constant):
                    out += str(v.value)
                elif isinstance(v, ast.FormattedValue) and v.format_spec is None and v.conversion in (-1, 115):
                    out += str(self.fold(v.value, env))
                else:
                    raise Unfoldable("f-string with format spec")
            return out
        if isinstance(e, (ast.ListComp, ast.SetComp, ast.GeneratorExp)):
            res = list(self._comp(e.generators, 0, env, lambda en: self.fold(e.elt, en)))
            return set(res) if isinstance(e, ast.SetComp) else res
        if isinstance(e, ast.Compare) and len(e.ops) == 1:
            l, r = self.fold(e.left, env), self.fold(e.comparators[0], env)
            op = e.ops[0]
            table = {ast.Eq: lambda: l == r, ast.NotEq: lambda: l != r, ast.Lt: lambda: l < r, ast.LtE: lambda: l <= r, ast.Gt: lambda: l > r, ast.GtE: lambda: l >= r, ast.In: lambda: l in r, ast.NotIn: lambda: l not in r}
            if type(op) in table:
                return table[type(op)]()
            raise Unfoldable("comparison %s" % type(op).__name__)
        if isinstance(e, ast.BoolOp):
            # Python semantics: the operand that decides is the value
            val = None
            for v in e.values:
                val = self.fold(v, env)
                if isinstance(e.op, ast.Or) and val:
                    return val
                if isinstance(e.op, ast.And) and not val:
                    return val
            return val
        if isinstance(e, ast.UnaryOp) and isinstance(e.op, ast.Not):
            return not self.fold(e.operand, env)
        if isinstance(e, ast.Subscript) and isinstance(e.slice, ast.Slice):
            v = self.fold(e.value, env)
            lo = self.fold(e.slice.lower, env) if e.slice.lower is not None else None
            hi = self.fold(e.slice.upper, env) if e.slice.upper is not None else None
            st = self.fold(e.slice.step, env) if e.slice.step is not None else None
            try:
                return v[lo:hi:st]
            except Exception as ex:  # pragma: no cover
                raise Unfoldable("slice: %s" % ex)
        if isinstance(e, ast.Subscript) and not isinstance(e.slice, ast.Slice):
            v, i = self.fold(e.value, env), self.fold(e.slice, env)
            try:
                return v[i]
            except Exception as ex:  # pragma: no cover
                raise Unfoldable("subscript: %s" % ex)
        if isinstance(e, ast.IfExp):
            return self.fold(e.body, env) if self.fold(e.test, env) else self.fold(e.orelse, env)
        if isinstance(e, ast.Call):
            return self._call(e, env)
        raise Unfoldable("expression form %s (%s)" % (type(e).__name__, unparse(e)[:40]))

    def _elts(self, el, env):
        if isinstance(el, ast.Starred):
            return list(self.fold(el.value, env))
        return [self.fold(el, env)]

    def _comp(self, gens, i, env, leaf):
        if i == len(gens):
            yield leaf(env)
            return
        g = gens[i]
        if g.is_async:
            raise Unfoldable("async comprehension")
        for item in self.fold(g.iter, env):
            en = dict(env)
            self._bind(g.target, item, en)
            if all(self.fold(c, en) for c in g.ifs):
                yield from self._comp(gens, i + 1, en, leaf)

    def _bind(self, target, value, env):
        if isinstance(target, ast.Name):
            env[target.id] = value
        elif isinstance(target, (ast.Tuple, ast.List)):
            vals = list(value)
            if len(vals) != len(target.elts):
                raise Unfoldable("unpacking arity")
            for t, v in zip(target.elts, vals):
                self._bind(t, v, env)
        else:
            raise Unfoldable("comprehension target")

    def _name(self, name: str):
        key = name
        if key in self._busy:
            raise Unfoldable("cyclic definition of %s" % name)
        self._busy.add(key)
        try:
            if self.func is not None:
                asg = [n for n in own_nodes(self.func.node) if isinstance(n, ast.Assign) and any(isinstance(t, ast.Name) and t.id == name for t in n.targets)]
                if len(asg) == 1:
                    return self.fold(asg[0].value)
                if len(asg) > 1:
                    raise Unfoldable("%s is assigned more than once" % name)
            # module level: exactly one binding, and no in-place mutation of it at module level
            binds = [n for n in self.module.tree.body if (isinstance(n, ast.Assign) and any(isinstance(t, ast.Name) and t.id == name for t in n.targets)) or (isinstance(n, ast.AnnAssign) and isinstance(n.target, ast.Name) and n.target.id == name and n.value is not None)]
            if len(binds) != 1:
                # imported from another module of the program?
                imp = getattr(self.module, "imports", {}).get(name)
                prog = getattr(self, "prog", None)
                if not binds and imp and prog is not None:
                    r = prog.resolve_symbol(imp)
                    if r and "." in r:
                        mod, attr = r.rsplit(".", 1)
                        if mod in prog.modules:
                            sub = Folder(prog.modules[mod], None, self.budget)
                            sub.prog = prog
                            return sub.fold(ast.Name(id=attr, ctx=ast.Load()))
                raise Unfoldable("%s has %d module-level bindings" % (name, len(binds)))
            for n in ast.walk(self.module.tree):
                if isinstance(n, ast.Call) and isinstance(n.func, ast.Attribute) and isinstance(n.func.value, ast.Name) and n.func.value.id == name and n.func.attr in ("append", "extend", "insert", "remove", "pop", "clear", "sort", "reverse", "update", "add"):
                    raise Unfoldable("%s is mutated in place (%s)" % (name, n.func.attr))
                if isinstance(n, ast.AugAssign) and isinstance(n.target, ast.Name) and n.target.id == name:
                    raise Unfoldable("%s is augmented in place" % name)
            return self.fold(binds[0].value)
        finally:
            self._busy.discard(key)

    def _call(self, e: ast.Call, env):
        if any(k.arg is None for k in e.keywords):
            raise Unfoldable("** in call")
        args = [x for a in e.args for x in self._elts(a, env)]
        kwargs = {k.arg: self.fold(k.value, env) for k in e.keywords}
        fn = e.func
        if isinstance(fn, ast.Name) and fn.id in _BUILTIN:
            return self._wrap(_BUILTIN[fn.id], args, kwargs)
        d = unparse(fn)
        tail = d.split(".")[-1]
        if tail in _ITER and (isinstance(fn, ast.Name) or d.split(".")[0] in ("itertools", "it")):
            if tail == "chain" and kwargs:
                raise Unfoldable("chain kwargs")
            return list(_ITER[tail](*args, **kwargs))
        if isinstance(fn, ast.Attribute) and fn.attr in _STR_METHODS:
            recv = self.fold(fn.value, env)
            if isinstance(recv, str):
                return self._wrap(getattr(recv, fn.attr), args, kwargs)
        raise Unfoldable("call of %s" % d[:40])

    @staticmethod
    def _wrap(f, args, kwargs):
        try:
            r = f(*args, **kwargs)
        except Exception as ex:
            raise Unfoldable("evaluation failed: %s" % ex)
        if isinstance(r, (range, itertools.chain)) or hasattr(r, "__next__"):
            r = list(r)
        return r


def fold_in(func: Func, e: ast.AST, prog=None):
    """Fold ``e`` as it appears inside ``func`` (locals bound once, then module level, then imported constants)."""
    fo = Folder(func.module, func)
    fo.prog = prog
    return fo.fold(e)
