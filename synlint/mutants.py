"""placeholder until the variant corpus is written"""


def run_variants(prop, repo, seed):
    return {"armed_ok": 0, "benign_ok": 0, "failures": [], "variants": []}
