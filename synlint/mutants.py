"""Mutation self-test of the rules (DESIGN.md 2.4).

A *variant* is one edit of a scratch copy of the repository (outside /repo
and /verif).  ``armed`` variants must make the property's check report a new
finding of the named rule; ``benign`` variants (behaviour-preserving
refactorings) must leave the set of findings unchanged.  Edits are
anchored on normalised source snippets; a variant whose anchor is not present
in the current tree (because /repo was edited) is *skipped*, not failed -
but at least MIN_APPLICABLE of a property's variants must apply.

Variants live in ``synlint/variants/<id>.py`` as a list ``VARIANTS`` of
dicts: name, kind ('armed'|'benign'), file, old, new, [count], [expect_rule],
[expect_construct].
"""

from __future__ import annotations

import importlib
import json
import os
import random
import shutil
import subprocess
import sys
import tempfile
from concurrent.futures import ProcessPoolExecutor
from typing import Dict, List

COPY = ["synrbl", "Data/Rules", "Scripts", "Pipeline", "per_dataset_benchmark.py"]
MIN_APPLICABLE_FRACTION = 0.6


def _ignore(d, names):
    return [n for n in names if n == "__pycache__" or n.endswith(".dump") or n.endswith(".pyc")]


def make_scratch(repo: str) -> str:
    base = os.environ.get("TMPDIR", "/tmp")
    d = tempfile.mkdtemp(prefix="synlint-scratch-", dir=base)
    for c in COPY:
        src = os.path.join(repo, c)
        dst = os.path.join(d, c)
        if os.path.isdir(src):
            shutil.copytree(src, dst, ignore=_ignore)
        elif os.path.isfile(src):
            os.makedirs(os.path.dirname(dst), exist_ok=True)
            shutil.copy2(src, dst)
    return d


def _global_reformat(root: str) -> None:
    import ast as _ast

    for d, _, files in os.walk(os.path.join(root, "synrbl")):
        for f in files:
            if f.endswith(".py"):
                p = os.path.join(d, f)
                with open(p) as fh:
                    src = fh.read()
                with open(p, "w") as fh:
                    fh.write(_ast.unparse(_ast.parse(src)) + "\n")


def _global_shuffle(root: str) -> None:
    """behaviour-preserving: methods of every class in random order, a no-op
    statement at the top of every function, everything re-serialised"""
    import ast as _ast

    rnd = random.Random(7)

    class T(_ast.NodeTransformer):
        def visit_ClassDef(self, node):
            self.generic_visit(node)
            funcs = [b for b in node.body if isinstance(b, (_ast.FunctionDef, _ast.AsyncFunctionDef))]
            other = [b for b in node.body if not isinstance(b, (_ast.FunctionDef, _ast.AsyncFunctionDef))]
            rnd.shuffle(funcs)
            node.body = other + funcs
            return node

        def visit_FunctionDef(self, node):
            self.generic_visit(node)
            i = 1 if (node.body and isinstance(node.body[0], _ast.Expr) and isinstance(getattr(node.body[0], "value", None), _ast.Constant) and isinstance(node.body[0].value.value, str)) else 0
            node.body.insert(i, _ast.Pass())
            return node

    for d, _, files in os.walk(os.path.join(root, "synrbl")):
        for f in files:
            if f.endswith(".py") and f != "rules.py":
                p = os.path.join(d, f)
                with open(p) as fh:
                    tree = T().visit(_ast.parse(fh.read()))
                _ast.fix_missing_locations(tree)
                with open(p, "w") as fh:
                    fh.write(_ast.unparse(tree) + "\n")


def _global_rename_locals(root: str) -> None:
    """behaviour-preserving: every local variable of every top-level function / method (assigned names, loop and
    comprehension variables, `except ... as` names) gets the suffix `_v`.  Parameters, globals, attributes, keyword
    names and anything that is also a parameter name somewhere inside the function are left alone."""
    import ast as _ast
    import builtins as _b

    def rename_function(fn):
        params, stores, banned = set(), set(), set()
        for n in _ast.walk(fn):
            if isinstance(n, (_ast.FunctionDef, _ast.AsyncFunctionDef, _ast.Lambda)):
                a = n.args
                for x in a.posonlyargs + a.args + a.kwonlyargs + ([a.vararg] if a.vararg else []) + ([a.kwarg] if a.kwarg else []):
                    params.add(x.arg)
                if n is not fn and not isinstance(n, _ast.Lambda):
                    banned.add(n.name)
            elif isinstance(n, (_ast.Global, _ast.Nonlocal)):
                banned.update(n.names)
            elif isinstance(n, _ast.ClassDef):
                banned.add(n.name)
                for b in n.body:
                    for x in _ast.walk(b):
                        if isinstance(x, _ast.Name):
                            banned.add(x.id)
            elif isinstance(n, (_ast.Import, _ast.ImportFrom)):
                for al in n.names:
                    banned.add((al.asname or al.name).split(".")[0])
            elif isinstance(n, _ast.Name) and isinstance(n.ctx, (_ast.Store, _ast.Del)):
                stores.add(n.id)
            elif isinstance(n, _ast.ExceptHandler) and n.name:
                stores.add(n.name)
        names = {x for x in stores if x not in params and x not in banned and not x.startswith("__") and not hasattr(_b, x)}
        for n in _ast.walk(fn):
            if isinstance(n, _ast.Name) and n.id in names:
                n.id = n.id + "_v"
            elif isinstance(n, _ast.ExceptHandler) and n.name in names:
                n.name = n.name + "_v"

    for d, _, files in os.walk(os.path.join(root, "synrbl")):
        for f in files:
            if f.endswith(".py"):
                p = os.path.join(d, f)
                with open(p) as fh:
                    tree = _ast.parse(fh.read())
                for node in tree.body:
                    if isinstance(node, (_ast.FunctionDef, _ast.AsyncFunctionDef)):
                        rename_function(node)
                    elif isinstance(node, _ast.ClassDef):
                        for b in node.body:
                            if isinstance(b, (_ast.FunctionDef, _ast.AsyncFunctionDef)):
                                rename_function(b)
                with open(p, "w") as fh:
                    fh.write(_ast.unparse(tree) + "\n")


def _global_swap_if_else(root: str) -> None:
    """behaviour-preserving: every `if c: A else: B` (with a non-empty else that is not an elif chain) becomes
    `if not c: B else: A`; conditional expressions likewise"""
    import ast as _ast

    class T(_ast.NodeTransformer):
        def visit_If(self, node):
            self.generic_visit(node)
            if node.orelse and not (len(node.orelse) == 1 and isinstance(node.orelse[0], _ast.If)):
                node.test = _ast.UnaryOp(op=_ast.Not(), operand=node.test)
                node.body, node.orelse = node.orelse, node.body
            return node

        def visit_IfExp(self, node):
            self.generic_visit(node)
            node.test = _ast.UnaryOp(op=_ast.Not(), operand=node.test)
            node.body, node.orelse = node.orelse, node.body
            return node

    for d, _, files in os.walk(os.path.join(root, "synrbl")):
        for f in files:
            if f.endswith(".py"):
                p = os.path.join(d, f)
                with open(p) as fh:
                    tree = T().visit(_ast.parse(fh.read()))
                _ast.fix_missing_locations(tree)
                with open(p, "w") as fh:
                    fh.write(_ast.unparse(tree) + "\n")


def _global_continue_to_nesting(root: str) -> None:
    """behaviour-preserving: inside loop bodies `if c: continue` followed by the rest of the body becomes
    `if not c: <rest>`"""
    import ast as _ast

    def rewrite(body):
        out = []
        for i, st in enumerate(body):
            if isinstance(st, _ast.If) and not st.orelse and len(st.body) == 1 and isinstance(st.body[0], _ast.Continue) and i < len(body) - 1:
                rest = rewrite(body[i + 1:])
                new = _ast.If(test=_ast.UnaryOp(op=_ast.Not(), operand=st.test), body=rest, orelse=[])
                out.append(_ast.copy_location(new, st))
                return out
            out.append(st)
        return out

    class T(_ast.NodeTransformer):
        def visit_For(self, node):
            self.generic_visit(node)
            node.body = rewrite(node.body)
            return node

        visit_While = visit_For

    for d, _, files in os.walk(os.path.join(root, "synrbl")):
        for f in files:
            if f.endswith(".py"):
                p = os.path.join(d, f)
                with open(p) as fh:
                    tree = T().visit(_ast.parse(fh.read()))
                _ast.fix_missing_locations(tree)
                with open(p, "w") as fh:
                    fh.write(_ast.unparse(tree) + "\n")


_STAGE_ATTRS = {"solved_col", "solved_by_col", "issue_col", "reaction_col", "carbon_balance_col", "unbalance_col", "mcs_data_col", "confidence_col", "input_reaction_col", "solved_method_col", "solved_by_method", "mcs_col"}


def _global_rename_stage_attrs(root: str) -> None:
    """consistent rename of the stage objects' column attributes (`self.solved_col` -> `self.solved_col_name`, every
    access in the package): behaviour-preserving, and none of the rules may depend on these spellings"""
    import ast as _ast

    for dp, _dn, fn in os.walk(os.path.join(root, "synrbl")):
        for f in fn:
            if not f.endswith(".py"):
                continue
            path = os.path.join(dp, f)
            with open(path, encoding="utf-8") as fh:
                src = fh.read()
            try:
                tree = _ast.parse(src)
            except SyntaxError:
                continue
            edits = [(n.end_lineno, n.end_col_offset, n.attr) for n in _ast.walk(tree) if isinstance(n, _ast.Attribute) and n.attr in _STAGE_ATTRS]
            if not edits:
                continue
            lines = src.split("\n")
            for el, ec, attr in sorted(edits, reverse=True):
                line = lines[el - 1]
                if not line.isascii():
                    ec = len(line.encode("utf-8")[:ec].decode("utf-8"))
                start = ec - len(attr)
                if line[start:ec] == attr:
                    lines[el - 1] = line[:start] + attr + "_name" + line[ec:]
            with open(path, "w", encoding="utf-8") as fh:
                fh.write("\n".join(lines))


def _global_hoist_compared_strings(root: str) -> None:
    """string literals that a module compares with (`x == "Balance"`, `k != "input-balanced"`) become module-level
    constants `_STR_<n>`: a common clean-up that no rule may trip over (labels are folded, not matched as literals)"""
    import ast as _ast

    for dp, _dn, fn in os.walk(os.path.join(root, "synrbl")):
        for f in fn:
            if not f.endswith(".py"):
                continue
            path = os.path.join(dp, f)
            with open(path, encoding="utf-8") as fh:
                src = fh.read()
            if not src.isascii():
                continue
            try:
                tree = _ast.parse(src)
            except SyntaxError:
                continue
            consts = []
            for n in _ast.walk(tree):
                if isinstance(n, _ast.Compare) and len(n.ops) == 1 and isinstance(n.ops[0], (_ast.Eq, _ast.NotEq)):
                    for c in (n.left, n.comparators[0]):
                        if isinstance(c, _ast.Constant) and isinstance(c.value, str) and c.value and c.lineno == c.end_lineno:
                            consts.append(c)
            if not consts:
                continue
            names = {}
            lines = src.split("\n")
            for c in sorted(consts, key=lambda c: (c.lineno, c.col_offset), reverse=True):
                nm = names.setdefault(c.value, "_STR_%d" % len(names))
                line = lines[c.lineno - 1]
                lines[c.lineno - 1] = line[: c.col_offset] + nm + line[c.end_col_offset :]
            # definitions after the imports / docstring
            body = tree.body
            at = 0
            for i, st in enumerate(body):
                if isinstance(st, (_ast.Import, _ast.ImportFrom)) or (i == 0 and isinstance(st, _ast.Expr) and isinstance(getattr(st, "value", None), _ast.Constant)):
                    at = st.end_lineno
            defs = ["%s = %r" % (nm, val) for val, nm in names.items()]
            lines[at:at] = [""] + defs + [""]
            new = "\n".join(lines)
            try:
                _ast.parse(new)
            except SyntaxError:
                continue
            with open(path, "w", encoding="utf-8") as fh:
                fh.write(new)


def _global_hoist_all_strings(root: str) -> None:
    """every single-line string literal used as a value inside a function body (compared, returned, assigned, used as a
    key or passed as an argument) becomes a module-level constant `_S_<n>`; docstrings and f-string parts stay"""
    import ast as _ast

    for dp, _dn, fn in os.walk(os.path.join(root, "synrbl")):
        for f in fn:
            if not f.endswith(".py"):
                continue
            path = os.path.join(dp, f)
            with open(path, encoding="utf-8") as fh:
                src = fh.read()
            if not src.isascii():
                continue
            try:
                tree = _ast.parse(src)
            except SyntaxError:
                continue
            for n in _ast.walk(tree):
                for ch in _ast.iter_child_nodes(n):
                    ch._p = n
            consts = []
            for fn_ in [x for x in _ast.walk(tree) if isinstance(x, (_ast.FunctionDef, _ast.AsyncFunctionDef))]:
                skip = set()
                for d in fn_.decorator_list + fn_.args.defaults + [x for x in fn_.args.kw_defaults if x is not None]:
                    skip |= {id(y) for y in _ast.walk(d)}
                for st in fn_.body:
                    for c in _ast.walk(st):
                        if not (isinstance(c, _ast.Constant) and isinstance(c.value, str) and c.value and c.lineno == c.end_lineno) or id(c) in skip:
                            continue
                        par = getattr(c, "_p", None)
                        if isinstance(par, _ast.Expr) or isinstance(par, (_ast.JoinedStr, _ast.FormattedValue)):
                            continue  # docstring / f-string part
                        if isinstance(par, _ast.BinOp) or isinstance(par, _ast.Attribute):
                            continue  # implicit concatenations and "fmt".format(..) receivers keep their shape
                        consts.append(c)
            seen_pos = set()
            uniq = []
            for c in consts:
                k = (c.lineno, c.col_offset)
                if k not in seen_pos:
                    seen_pos.add(k)
                    uniq.append(c)
            if not uniq:
                continue
            names = {}
            lines = src.split("\n")
            for c in sorted(uniq, key=lambda c: (c.lineno, c.col_offset), reverse=True):
                line = lines[c.lineno - 1]
                seg = line[c.col_offset : c.end_col_offset]
                if not seg or seg[0] not in "\"'" or seg[:1] != seg[-1:]:
                    continue  # prefixed (r"", b"") or adjacent-literal concatenation
                try:
                    if _ast.literal_eval(seg) != c.value:
                        continue
                except Exception:
                    continue
                nm = names.setdefault(c.value, "_S_%d" % len(names))
                lines[c.lineno - 1] = line[: c.col_offset] + nm + line[c.end_col_offset :]
            if not names:
                continue
            at = 0
            for i, st in enumerate(tree.body):
                if isinstance(st, (_ast.Import, _ast.ImportFrom)) or (i == 0 and isinstance(st, _ast.Expr) and isinstance(getattr(st, "value", None), _ast.Constant)):
                    at = st.end_lineno
            defs = ["%s = %r" % (nm, val) for val, nm in names.items()]
            lines[at:at] = [""] + defs + [""]
            new = "\n".join(lines)
            try:
                _ast.parse(new)
            except SyntaxError:
                continue
            with open(path, "w", encoding="utf-8") as fh:
                fh.write(new)


GLOBAL_VARIANTS = {
    "global-benign-hoist-all-strings": _global_hoist_all_strings,
    "global-benign-hoist-compared-strings": _global_hoist_compared_strings,
    "global-benign-rename-stage-attributes": _global_rename_stage_attrs,
    "global-benign-reformat": _global_reformat,
    "global-benign-shuffle-methods-noop": _global_shuffle,
    "global-benign-rename-locals": _global_rename_locals,
    "global-benign-swap-if-else": _global_swap_if_else,
    "global-benign-continue-to-nesting": _global_continue_to_nesting,
}


def apply_edit(root: str, v: dict) -> bool:
    if v.get("name") in GLOBAL_VARIANTS:
        GLOBAL_VARIANTS[v["name"]](root)
        return True
    if v.get("patch"):
        # a unified diff kept under /verif (the seeded changes), applied with git apply
        here = os.path.dirname(os.path.dirname(os.path.abspath(__file__)))
        pth = os.path.join(here, v["patch"])
        if not os.path.exists(pth):
            return False
        r = subprocess.run(["git", "apply", "--whitespace=nowarn", pth], cwd=root, capture_output=True, text=True)
        return r.returncode == 0
    edits = v.get("edits") or [v]
    for e in edits:
        path = os.path.join(root, e["file"])
        if not os.path.exists(path):
            return False
        with open(path, "rb") as fh:
            raw = fh.read()
        gz = raw[:2] == b"\x1f\x8b"
        if gz:
            import gzip

            raw = gzip.decompress(raw)
        src = raw.decode("utf-8")
        if "fn" in e:
            new = e["fn"](src)
            if new is None or new == src:
                return False
        else:
            if e["old"] not in src:
                return False
            cnt = e.get("count", 1)
            new = src.replace(e["old"], e["new"], cnt)
        data = new.encode("utf-8")
        if gz:
            import gzip

            data = gzip.compress(data)
        with open(path, "wb") as fh:
            fh.write(data)
    return True


def _findings(prop: str, repo: str) -> List[dict]:
    """Run the property's check in a fresh interpreter on ``repo``."""
    here = os.path.dirname(os.path.dirname(os.path.abspath(__file__)))
    tmp_ev = tempfile.mkdtemp(prefix="synlint-ev-", dir=os.environ.get("TMPDIR", "/tmp"))
    try:
        p = subprocess.run(
            [sys.executable, "-B", "-m", "synlint.cli", prop, "--repo", repo, "--no-known", "--json", "--evidence-dir", tmp_ev],
            cwd=here,
            capture_output=True,
            text=True,
            timeout=300,
        )
        out = p.stdout.strip().splitlines()
        for line in reversed(out):
            if line.startswith("{"):
                return json.loads(line)["findings"], p.returncode, p.stdout[-2000:]
        return None, p.returncode, (p.stdout + p.stderr)[-2000:]
    finally:
        shutil.rmtree(tmp_ev, ignore_errors=True)


def _run_one(args):
    prop, repo, v, baseline_keys = args
    v = dict(v)
    d = make_scratch(repo)
    try:
        if not apply_edit(d, _load_variant(prop, v["name"])):
            return {"name": v["name"], "kind": v["kind"], "status": "skipped", "detail": "anchor not present in the current tree"}
        # the variant must still be valid Python
        lv = _load_variant(prop, v["name"])
        files = [e["file"] for e in (lv.get("edits") or [lv]) if "file" in e]
        if lv.get("patch"):
            here = os.path.dirname(os.path.dirname(os.path.abspath(__file__)))
            with open(os.path.join(here, lv["patch"])) as fh:
                files = [ln[6:].strip() for ln in fh if ln.startswith("+++ b/")]
        for e in [{"file": x} for x in files]:
            if e["file"].endswith(".py"):
                import ast as _ast

                with open(os.path.join(d, e["file"])) as fh:
                    try:
                        _ast.parse(fh.read())
                    except SyntaxError as ex:
                        return {"name": v["name"], "kind": v["kind"], "status": "broken-variant", "detail": "does not parse: %s" % ex}
        fnd, rc, tail = _findings(prop, d)
        if fnd is None:
            if v["kind"] == "armed" and v.get("expect_error") and rc == 2:
                return {"name": v["name"], "kind": v["kind"], "status": "ok", "detail": "analysis refuses the tree (exit 2) as expected"}
            return {"name": v["name"], "kind": v["kind"], "status": "fail", "detail": "check produced no verdict (rc=%s): %s" % (rc, tail[-300:])}
        keys = {(f["rule"], f["construct"]) for f in fnd}
        new = keys - baseline_keys
        gone = baseline_keys - keys
        if v["kind"] == "armed":
            want_rule = v.get("expect_rule", "")
            want_c = v.get("expect_construct", "")
            hit = [k for k in new if k[0].startswith(want_rule) and want_c in k[1]]
            if hit:
                return {"name": v["name"], "kind": "armed", "status": "ok", "detail": "%s %s" % hit[0]}
            return {"name": v["name"], "kind": "armed", "status": "fail", "detail": "expected new finding %s/%s, got new=%s" % (want_rule, want_c, sorted(new))}
        else:
            if not new and (not gone or v.get("may_remove")):
                return {"name": v["name"], "kind": "benign", "status": "ok", "detail": ""}
            return {"name": v["name"], "kind": "benign", "status": "fail", "detail": "findings changed: new=%s gone=%s" % (sorted(new), sorted(gone))}
    finally:
        shutil.rmtree(d, ignore_errors=True)


def _load_variant(prop: str, name: str) -> dict:
    if name in GLOBAL_VARIANTS:
        return {"name": name, "kind": "benign", "file": "synrbl/__init__.py", "edits": [{"file": "synrbl/__init__.py"}]}
    mod = importlib.import_module("synlint.variants.%s" % prop.lower())
    for v in mod.VARIANTS:
        if v["name"] == name:
            return v
    from .variants import common

    for v in common.COMMON:
        if v["name"] == name:
            return v
    raise KeyError(name)


def run_variants(prop: str, repo: str, seed: int, jobs: int = 16) -> dict:
    try:
        mod = importlib.import_module("synlint.variants.%s" % prop.lower())
    except ModuleNotFoundError:
        return {"armed_ok": 0, "benign_ok": 0, "failures": ["no variant corpus for %s" % prop], "variants": []}
    from .variants import common

    variants = list(mod.VARIANTS) + [{"name": n, "kind": "benign", "file": "synrbl/__init__.py"} for n in GLOBAL_VARIANTS] + list(common.COMMON)
    rnd = random.Random(seed)
    rnd.shuffle(variants)
    base, rc, tail = _findings(prop, repo)
    if base is None:
        return {"armed_ok": 0, "benign_ok": 0, "failures": ["baseline run gave no verdict: %s" % tail[-300:]], "variants": []}
    baseline_keys = {(f["rule"], f["construct"]) for f in base}
    light = [{"name": v["name"], "kind": v["kind"], "file": (v.get("edits") or [v])[0].get("file", v.get("patch", "")), "expect_rule": v.get("expect_rule", ""), "expect_construct": v.get("expect_construct", ""), "may_remove": v.get("may_remove", False), "expect_error": v.get("expect_error", False)} for v in variants]
    with ProcessPoolExecutor(max_workers=min(jobs, max(1, len(light)))) as ex:
        results = list(ex.map(_run_one, [(prop, repo, v, baseline_keys) for v in light]))
    failures = ["%s (%s): %s" % (r["name"], r["kind"], r["detail"]) for r in results if r["status"] in ("fail", "broken-variant")]
    skipped = [r for r in results if r["status"] == "skipped"]
    applicable = len(results) - len(skipped)
    if results and applicable < MIN_APPLICABLE_FRACTION * len(results):
        failures.append("only %d of %d variants apply to the current tree" % (applicable, len(results)))
    return {
        "armed_ok": sum(1 for r in results if r["status"] == "ok" and r["kind"] == "armed"),
        "benign_ok": sum(1 for r in results if r["status"] == "ok" and r["kind"] == "benign"),
        "skipped": [r["name"] for r in skipped],
        "failures": failures,
        "variants": sorted(results, key=lambda r: r["name"]),
        "seed": seed,
    }


if __name__ == "__main__":
    prop = sys.argv[1]
    repo = sys.argv[2] if len(sys.argv) > 2 else "/repo"
    res = run_variants(prop, repo, int(os.environ.get("VERIF_SEED", "0") or 0))
    for r in res["variants"]:
        print("%-8s %-6s %-50s %s" % (r["status"], r["kind"], r["name"], r["detail"][:150]))
    print("armed_ok=%d benign_ok=%d skipped=%d failures=%d" % (res["armed_ok"], res["benign_ok"], len(res.get("skipped", [])), len(res["failures"])))
    sys.exit(1 if res["failures"] else 0)
