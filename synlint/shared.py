"""Shared-container alias analysis (used by C06-B4).

Module-level containers (rule tables, template databases) are shared by every
reaction, batch and worker of a process.  This analysis finds the expressions
that *may denote (a part of) such a container* and the statements that mutate
them in place:

  roots     module-level names bound to a container (display, ``dict()``,
            ``load_database(..)`` ...) read inside a function of that module;
            parameters whose default is such a name; ``self.X`` assigned from a
            shared expression in ``__init__``; parameters that receive a shared
            expression at a resolved call site (fixpoint over the package)
  aliases   locals bound to ``root[..]``, ``root.get(..)``, ``root.attr``,
            tuple-unpackings of those, loop variables over ``root`` /
            ``root.values()`` / ``root.items()``
  copies    ``list(x)``, ``dict(x)``, ``x.copy()``, ``deepcopy(x)``, ``x[:]``,
            ``sorted(x)``, ``x + y``, comprehensions: a fresh object, not shared

A mutation is a mutating method call, a subscript store / delete, or an
augmented assignment whose target is (rooted in) a shared expression.  For an
augmented assignment to a bare alias name (``alias *= n``) the alias must also
be used as a sequence somewhere in the function (``join``, iteration, ``len``,
concatenation feeding one of those): ``n = table['count']; n += 1`` rebinding an
int is not a mutation.
"""

from __future__ import annotations

import ast
from typing import Dict, List, Optional, Set, Tuple

from .model import Func, own_nodes, unparse

FRESH = "[*]"  # a fresh list whose *elements* are shared
MUT = {"append", "extend", "update", "add", "insert", "pop", "remove", "clear", "setdefault", "sort", "reverse", "popitem", "discard"}
COPY_CALLS = {"list", "dict", "set", "tuple", "sorted", "deepcopy", "copy", "frozenset", "str", "int", "float", "len", "join", "format"}
CONTAINER_CTORS = {"dict", "list", "set", "defaultdict", "OrderedDict", "load_database", "load", "loads"}


def _is_container_value(v: ast.AST) -> bool:
    if isinstance(v, (ast.Dict, ast.List, ast.Set, ast.ListComp, ast.DictComp, ast.SetComp)):
        return True
    if isinstance(v, ast.Call):
        name = unparse(v.func).split(".")[-1]
        return name in CONTAINER_CTORS
    return False


def _short(d):
    return d if d is None or len(d) <= 200 else d[:200]


class SharedFlow:
    def __init__(self, ctx, scope: Set[str], long_lived=()):
        self.long_lived = {c.qualname for c in long_lived}
        self.ctx = ctx
        self.prog = ctx.prog
        self.scope = scope
        self.shared_params: Dict[str, Set[str]] = {}  # func qualname -> param names
        self.shared_attrs: Dict[str, Set[str]] = {}  # class qualname -> attrs
        self.origin: Dict[Tuple[str, str], str] = {}
        self.shared_returns: Dict[str, object] = {}  # qualname -> desc | tuple of (desc|None)
        self.memoised: Dict[str, str] = {}
        self._find_memoised()
        self._solve()

    # ------------------------------------------------------------------
    def module_roots(self, f: Func) -> Set[str]:
        m = f.module
        return {k for k, v in m.assigns.items() if _is_container_value(v)}

    def locals_of(self, f: Func) -> Set[str]:
        out = set(f.params + f.kwonly)
        for n in own_nodes(f.node):
            if isinstance(n, ast.Name) and isinstance(n.ctx, ast.Store):
                out.add(n.id)
        return out

    def aliases(self, f: Func) -> Dict[str, str]:
        """local name -> description of the shared thing it may denote"""
        roots: Dict[str, str] = {}
        loc = self.locals_of(f)
        declared_global = {x for n in own_nodes(f.node) if isinstance(n, ast.Global) for x in n.names}
        for r in self.module_roots(f):
            if r not in loc or r in declared_global:
                roots[r] = "module-level %s" % r
        for p in self.shared_params.get(f.qualname, ()):  # parameters
            roots[p] = self.origin.get((f.qualname, p), "shared parameter %s" % p)
        # rebinding of a parameter to a copy at the top kills it (handled by order-insensitive approximation: if every
        # assignment to the name is a copy and one dominates all uses we cannot tell without a CFG; keep it simple:
        # a parameter that is re-assigned anywhere to a non-shared value is dropped)
        changed = True
        al: Dict[str, str] = dict(roots)
        for p in list(al):
            if p in f.params + f.kwonly:
                for n in own_nodes(f.node):
                    if isinstance(n, ast.Assign) and any(isinstance(t, ast.Name) and t.id == p for t in n.targets) and self.rooted(f, n.value, al, exclude=p) is None:
                        al.pop(p, None)
                        break
        rounds = 0
        while changed and rounds < 6:
            changed = False
            rounds += 1
            for n in own_nodes(f.node):
                pairs: List[Tuple[ast.AST, ast.AST]] = []
                if isinstance(n, ast.Assign):
                    for t in n.targets:
                        if isinstance(t, (ast.Tuple, ast.List)) and isinstance(n.value, (ast.Tuple, ast.List)) and len(t.elts) == len(n.value.elts):
                            pairs.extend(zip(t.elts, n.value.elts))
                        else:
                            pairs.append((t, n.value))
                elif isinstance(n, (ast.For, ast.comprehension)):
                    it = n.iter
                    src = it
                    if isinstance(it, ast.Call) and isinstance(it.func, ast.Attribute) and it.func.attr in ("values", "items") and not it.args:
                        src = it.func.value
                    # enumerate(X) / zip(A, B): the loop variables at the matching positions are elements of X / A / B
                    if isinstance(it, ast.Call) and isinstance(it.func, ast.Name) and it.func.id in ("enumerate", "zip") and isinstance(n.target, (ast.Tuple, ast.List)):
                        srcs = ([None] + list(it.args[:1])) if it.func.id == "enumerate" else list(it.args)
                        for tv, sv in zip(n.target.elts, srcs):
                            if sv is None:
                                continue
                            if isinstance(sv, ast.Call) and isinstance(sv.func, ast.Name) and sv.func.id in ("list", "reversed", "sorted", "tuple") and sv.args:
                                sv = sv.args[0]
                            dd = self.rooted(f, sv, al)
                            if dd is not None:
                                for x in ast.walk(tv):
                                    if isinstance(x, ast.Name) and x.id not in al:
                                        al[x.id] = dd[len(FRESH):] if dd.startswith(FRESH) else "element of " + dd
                                        changed = True
                        continue
                    if isinstance(src, ast.Call) and isinstance(src.func, ast.Name) and src.func.id in ("list", "reversed", "sorted", "tuple") and src.args:
                        src = src.args[0]
                    d = self.rooted(f, src, al)
                    if d is not None:
                        for x in ast.walk(n.target):
                            if isinstance(x, ast.Name) and x.id not in al:
                                al[x.id] = d[len(FRESH):] if d.startswith(FRESH) else "element of " + d
                                changed = True
                    continue
                for t, v in list(pairs):
                    if isinstance(t, (ast.Tuple, ast.List)) and isinstance(v, ast.Call):
                        tgt = self.ctx.res.resolve_callee(v, f)
                        r = self.shared_returns.get(tgt[1]) if tgt and tgt[0] == "func" else None
                        if isinstance(r, tuple) and len(r) == len(t.elts):
                            for x, d in zip(t.elts, r):
                                if isinstance(x, ast.Name) and d is not None and x.id not in al:
                                    al[x.id] = d
                                    changed = True
                for t, v in pairs:
                    if isinstance(t, ast.Name) and t.id not in al:
                        d = self.rooted(f, v, al)
                        if d is not None:
                            al[t.id] = d
                            changed = True
        return al

    def rooted(self, f: Func, e: ast.AST, al: Dict[str, str], exclude: Optional[str] = None) -> Optional[str]:
        """Description of the shared object ``e`` may denote (a part of), or None."""
        if isinstance(e, ast.Name):
            if e.id == exclude:
                return None
            return al.get(e.id)
        if isinstance(e, ast.Subscript):
            if isinstance(e.slice, ast.Slice):
                return None  # a slice is a copy
            d = self.rooted(f, e.value, al, exclude)
            if d is not None and d.startswith(FRESH):
                return d[len(FRESH):]
            return None if d is None else d + "[..]"
        if isinstance(e, ast.Attribute):
            if isinstance(e.value, ast.Name) and f.cls is not None and f.params and e.value.id == f.params[0] and not f.is_static:
                if e.attr in self.shared_attrs.get(f.cls.qualname, ()):  # self.X
                    return self.origin.get((f.cls.qualname, e.attr), "self.%s" % e.attr)
                return None
            # obj.X where obj is an instance of a package class whose X holds a shared object (self.stage.X)
            try:
                t = self.ctx.res.expr_type(e.value, f, self.ctx.res.local_types(f))
            except Exception:
                t = None
            if t and e.attr in self.shared_attrs.get(t, ()):
                return self.origin.get((t, e.attr), "%s.%s" % (t.rsplit(".", 1)[-1], e.attr))
            return None
        if isinstance(e, ast.Call) and isinstance(e.func, ast.Attribute) and e.func.attr == "get" and e.args:
            d = self.rooted(f, e.func.value, al, exclude)
            return None if d is None else d + ".get(..)"
        if isinstance(e, ast.IfExp):
            return self.rooted(f, e.body, al, exclude) or self.rooted(f, e.orelse, al, exclude)
        if isinstance(e, (ast.List, ast.Tuple)):
            for x in e.elts:
                d = self.rooted(f, x, al, exclude)
                if d is not None:
                    return FRESH + d
            return None
        if isinstance(e, ast.ListComp):
            # the comprehension variables are bound by aliases(); the element decides
            d = self.rooted(f, e.elt, al, exclude)
            return None if d is None else FRESH + d
        if isinstance(e, ast.Call):
            tgt = self.ctx.res.resolve_callee(e, f)
            if tgt and tgt[0] == "func":
                if tgt[1] in self.memoised:
                    return self.memoised[tgt[1]]
                r = self.shared_returns.get(tgt[1])
                if isinstance(r, str):
                    return r
        return None

    def _find_memoised(self) -> None:
        for q, g in self.prog.functions.items():
            if not q.startswith("synrbl."):
                continue
            decos = [unparse(d.func if isinstance(d, ast.Call) else d).split(".")[-1] for d in g.node.decorator_list]
            if not any(d in ("lru_cache", "cache", "cached", "memoize", "memoized") for d in decos):
                continue
            mutable = False
            for r in [n for n in own_nodes(g.node) if isinstance(n, ast.Return) and n.value is not None]:
                v = r.value
                if _is_container_value(v):
                    mutable = True
                if isinstance(v, ast.Name):
                    for n in own_nodes(g.node):
                        if isinstance(n, ast.Assign) and any(isinstance(t, ast.Name) and t.id == v.id for t in n.targets) and _is_container_value(n.value):
                            mutable = True
            if mutable:
                self.memoised[q] = "the memoised result of %s() (one object for all callers)" % g.name

    # ------------------------------------------------------------------
    def _solve(self) -> None:
        prog = self.prog
        funcs = [prog.functions[q] for q in sorted(self.scope) if q in prog.functions and q.startswith("synrbl.")]
        # parameters defaulting to a module-level container
        for f in funcs:
            roots = self.module_roots(f)
            for p, d in f.param_defaults().items():
                if isinstance(d, ast.Name) and d.id in roots:
                    self.shared_params.setdefault(f.qualname, set()).add(p)
                    self.origin[(f.qualname, p)] = "module-level %s (default of parameter %s)" % (d.id, p)
                elif _is_container_value(d):
                    # a container display as default is built once, when the function is defined
                    self.shared_params.setdefault(f.qualname, set()).add(p)
                    self.origin[(f.qualname, p)] = "the default value of parameter %s of %s (one object for every call)" % (p, f.name)
        # containers built in the constructor of an object that lives across batches
        for f in funcs:
            if f.cls is not None and f.cls.qualname in self.long_lived and f.name == "__init__" and f.params:
                sn = f.params[0]
                for n in own_nodes(f.node):
                    if isinstance(n, ast.Assign) and _is_container_value(n.value):
                        for t in n.targets:
                            if isinstance(t, ast.Attribute) and isinstance(t.value, ast.Name) and t.value.id == sn:
                                self.shared_attrs.setdefault(f.cls.qualname, set()).add(t.attr)
                                self.origin[(f.cls.qualname, t.attr)] = "%s.%s (built once in __init__, lives across batches)" % (f.cls.name, t.attr)
        for _ in range(6):
            changed = False
            for f in funcs:
                al = self.aliases(f)
                # self.X = shared in any method (normally __init__)
                if f.cls is not None and f.params and not f.is_static:
                    sn = f.params[0]
                    for n in own_nodes(f.node):
                        if isinstance(n, ast.Assign):
                            for t in n.targets:
                                if isinstance(t, ast.Attribute) and isinstance(t.value, ast.Name) and t.value.id == sn:
                                    d = self.rooted(f, n.value, al)
                                    if d is not None and t.attr not in self.shared_attrs.get(f.cls.qualname, set()):
                                        self.shared_attrs.setdefault(f.cls.qualname, set()).add(t.attr)
                                        self.origin[(f.cls.qualname, t.attr)] = _short(d)
                                        changed = True
                # returns
                for r in [n for n in own_nodes(f.node) if isinstance(n, ast.Return) and n.value is not None]:
                    if isinstance(r.value, ast.Tuple):
                        ds = tuple(self.rooted(f, x, al) for x in r.value.elts)
                        if any(ds) and self.shared_returns.get(f.qualname) != ds and not isinstance(self.shared_returns.get(f.qualname), tuple):
                            self.shared_returns[f.qualname] = tuple(_short(d) for d in ds)
                            changed = True
                    else:
                        d = self.rooted(f, r.value, al)
                        if d is not None and f.qualname not in self.shared_returns:
                            self.shared_returns[f.qualname] = _short(d)
                            changed = True
                # calls
                for c in [n for n in own_nodes(f.node) if isinstance(n, ast.Call)]:
                    shared_args = []
                    for i, a in enumerate(c.args):
                        d = self.rooted(f, a, al)
                        if d is not None:
                            shared_args.append((i, d))
                    for k in c.keywords:
                        if k.arg:
                            d = self.rooted(f, k.value, al)
                            if d is not None:
                                shared_args.append((k.arg, d))
                    if not shared_args:
                        continue
                    tgt = self.ctx.res.resolve_callee(c, f)
                    g = None
                    skip = 0
                    if tgt and tgt[0] == "func" and tgt[1] in prog.functions:
                        g = prog.functions[tgt[1]]
                        if g.cls is not None and not g.is_static and isinstance(c.func, ast.Attribute):
                            skip = 1
                    elif tgt and tgt[0] == "class" and tgt[1] in prog.classes:
                        g = prog.lookup_method(prog.classes[tgt[1]], "__init__")
                        skip = 1
                    if g is None:
                        continue
                    names = g.params[skip:]
                    for key, d in shared_args:
                        pname = names[key] if isinstance(key, int) and key < len(names) else (key if isinstance(key, str) and key in g.params + g.kwonly else None)
                        if pname and pname not in self.shared_params.get(g.qualname, set()):
                            self.shared_params.setdefault(g.qualname, set()).add(pname)
                            self.origin[(g.qualname, pname)] = _short(d)
                            changed = True
            if not changed:
                break

    # ------------------------------------------------------------------
    def mutations(self, f: Func) -> List[Tuple[ast.AST, str]]:
        al = self.aliases(f)
        out: List[Tuple[ast.AST, str]] = []
        if not al and not self.shared_attrs.get(f.cls.qualname if f.cls else "", None):
            return out
        for n in own_nodes(f.node):
            if isinstance(n, ast.Call) and isinstance(n.func, ast.Attribute) and n.func.attr in MUT:
                d = self.rooted(f, n.func.value, al)
                if d is not None and not d.startswith(FRESH):
                    out.append((n, "%s() on %s" % (n.func.attr, d)))
            if isinstance(n, (ast.Assign, ast.AugAssign, ast.Delete)):
                tg = n.targets if isinstance(n, (ast.Assign, ast.Delete)) else [n.target]
                for t in tg:
                    if isinstance(t, ast.Subscript):
                        d = self.rooted(f, t.value, al)
                        if d is not None and not d.startswith(FRESH):
                            out.append((n, "store into %s" % d))
                    elif isinstance(n, ast.AugAssign) and isinstance(t, ast.Name) and isinstance(n.op, (ast.Add, ast.Mult)):
                        d = al.get(t.id)
                        if d is not None and not d.startswith(FRESH) and ("[..]" in d or ".get(" in d or d.startswith("element of") or "memoised" in d):
                            if self._used_as_sequence(f, t.id):
                                out.append((n, "in-place %s= on %s" % ("+" if isinstance(n.op, ast.Add) else "*", d)))
        return out

    def _used_as_sequence(self, f: Func, name: str) -> bool:
        def in_seq_ctx(node: ast.AST) -> bool:
            par = getattr(node, "_parent", None)
            if isinstance(par, ast.BinOp) and isinstance(par.op, ast.Add):
                other = par.right if par.left is node else par.left
                if isinstance(other, (ast.List, ast.Tuple, ast.ListComp)):
                    return True
                return in_seq_ctx(par)
            if isinstance(par, ast.Call):
                fn = unparse(par.func).split(".")[-1]
                if node in par.args and fn in ("join", "extend", "len", "list", "sorted", "set", "tuple", "enumerate", "zip"):
                    return True
            if isinstance(par, (ast.For, ast.comprehension)) and par.iter is node:
                return True
            if isinstance(par, ast.Subscript) and par.value is node and isinstance(getattr(par, "slice", None), (ast.Slice,)):
                return True
            return False

        for n in own_nodes(f.node):
            if isinstance(n, ast.Name) and n.id == name and isinstance(n.ctx, ast.Load) and in_seq_ctx(n):
                return True
        return False


# ---------------------------------------------------------------------------
# memo idiom
# ---------------------------------------------------------------------------


def memo_complete(f: Func, container_text: str) -> Tuple[bool, str]:
    """``container_text`` (e.g. ``_CACHE`` or ``self._cache``) is used in ``f`` as a
    memo table - looked up by a key and filled with ``D[key] = value`` (evictions by
    clear/pop allowed) - and the key is built from *every* parameter of ``f`` that
    the function uses.  Such a table cannot make a result depend on earlier calls.
    -> (ok, reason)"""
    from .util import assignments_to

    stores, other = [], []
    for n in own_nodes(f.node):
        if isinstance(n, ast.Assign):
            for t in n.targets:
                if isinstance(t, ast.Subscript) and unparse(t.value) == container_text:
                    stores.append((n, t.slice))
        if isinstance(n, ast.AugAssign) and isinstance(n.target, ast.Subscript) and unparse(n.target.value) == container_text:
            other.append(n)
        if isinstance(n, ast.Call) and isinstance(n.func, ast.Attribute) and unparse(n.func.value) == container_text:
            if n.func.attr in ("clear", "pop", "popitem", "get", "keys", "values", "items", "__contains__"):
                continue
            if n.func.attr == "setdefault" and n.args:
                stores.append((n, n.args[0]))
                continue
            other.append(n)
    if other:
        return False, "%s is also changed by %s" % (container_text, unparse(other[0])[:40])
    if not stores:
        return False, "no keyed store"
    lookups = [n for n in own_nodes(f.node) if (isinstance(n, ast.Compare) and len(n.ops) == 1 and isinstance(n.ops[0], (ast.In, ast.NotIn)) and unparse(n.comparators[0]) == container_text) or (isinstance(n, ast.Call) and isinstance(n.func, ast.Attribute) and n.func.attr == "get" and unparse(n.func.value) == container_text)]
    if not lookups:
        return False, "stored but never looked up by key in the same function"

    def closure(e, depth=0):
        names = set()
        for x in ast.walk(e):
            if isinstance(x, ast.Name):
                names.add(x.id)
                if depth < 3:
                    for _, v, _i in assignments_to(f, x.id):
                        names |= closure(v, depth + 1)
        return names

    # a key part that is *computed* from a parameter (`MolToSmiles(mol)`, `tuple(sorted(x))`) is a projection: two
    # arguments with the same projection can differ in what the other key parts or the function itself refer to (the
    # atom order behind an index), so such a table is not accepted as keyed by its inputs
    pset = set(f.params) | set(f.kwonly)

    def projection(e, depth=0):
        for x in ast.walk(e):
            if isinstance(x, ast.Call) and not (isinstance(x.func, ast.Name) and x.func.id in ("int", "str", "float", "bool", "tuple", "frozenset", "id", "repr")):
                if any(isinstance(y, ast.Name) and y.id in pset for a_ in list(x.args) + [k_.value for k_ in x.keywords] for y in ast.walk(a_)) or (isinstance(x.func, ast.Attribute) and any(isinstance(y, ast.Name) and y.id in pset for y in ast.walk(x.func.value))):
                    return x
            if isinstance(x, ast.Name) and depth < 3 and x.id not in pset:
                for _s, v_, _i in assignments_to(f, x.id):
                    got = projection(v_, depth + 1)
                    if got is not None:
                        return got
        return None

    for _, k in stores:
        pr = projection(k)
        if pr is not None:
            return False, "the key contains %s, a value computed from a parameter rather than the parameter itself" % unparse(pr)[:50]
    key_names = set()
    for _, k in stores:
        key_names |= closure(k)
    params = [p_ for p_ in f.params + f.kwonly if p_ not in ("self", "cls")]
    if f.cls is not None and not f.is_static and f.params:
        params = [p_ for p_ in params if p_ != f.params[0]]
    used = {n.id for n in own_nodes(f.node) if isinstance(n, ast.Name) and isinstance(n.ctx, ast.Load)}
    missing = [p_ for p_ in params if p_ in used and p_ not in key_names]
    if missing:
        return False, "the key leaves out %s, which the function uses" % missing
    return True, "memo keyed by every parameter the function uses (%s)" % sorted(set(params) & key_names)
