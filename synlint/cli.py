"""./check <ID> [--tier quick|thorough] [--repo DIR] [--replay FILE]

exit 0  property held on everything analysed (known findings are printed)
exit 1  VIOLATION property=<ID> replay=<path>
exit 2  ANALYSIS-ERROR (anchor vanished, engine failure, self-test failure)
"""

from __future__ import annotations

import argparse
import importlib
import json
import os
import sys
import time
import traceback

from .model import AnalysisError
from .report import VERIF, Ctx, load_known, split_known, write_evidence

CLAIMED = [
    "C01", "C02", "C03", "C04", "C05", "C06", "C07", "C08", "C09", "C10",
    "C11", "C12", "C13", "C14", "C15", "C17", "C18", "C19", "C20",
]


def run_property(prop: str, repo: str, tier: str, seed: int, evidence_dir=None, use_known=True, quiet=False, only=None):
    mod = importlib.import_module("synlint.props.%s" % prop.lower())
    ctx = Ctx(repo, prop, tier=tier, seed=seed)
    ctx.only = only
    refused = None
    try:
        mod.check(ctx)
    except AnalysisError as e:
        # rules that ran before the refusal may already have reported a specific construct: that verdict stands, the
        # refusal of the remaining rules is recorded with it.  Without a finding the refusal is the outcome (exit 2).
        known0 = load_known() if use_known else []
        if not split_known(ctx.findings, known0)[1]:
            raise
        refused = str(e)
        ctx.note("the remaining rules of %s could not be analysed on this tree (%s); the findings above were established before that point" % (prop, refused))
    if getattr(ctx, "inlined", None):
        seen = []
        for h, g, _l in ctx.inlined:
            t = "%s <- %s" % (h.split("synrbl.", 1)[-1], g.split("synrbl.", 1)[-1])
            if t not in seen:
                seen.append(t)
        ctx.note("helpers that do not exist on the reference tree were expanded in place before analysis: " + "; ".join(seen[:12]) + (" ..." if len(seen) > 12 else ""))
    # make sure call statistics are available for the evidence
    _ = ctx.graph
    if refused is None:
        try:
            ctx.check_vacuity()
        except AnalysisError as e:
            known0 = load_known() if use_known else []
            if not split_known(ctx.findings, known0)[1]:
                raise
            ctx.note("instance counts fell below the confirmed minimum (%s); the findings above stand" % e)
    known = load_known() if use_known else []
    listed, fresh = split_known(ctx.findings, known)
    out = []
    out.append(
        "synlint %s tier=%s repo=%s: %d modules, %d functions, %d call sites (%d in-package, %d external, %d by-name, %d unresolved)"
        % (
            prop, tier, ctx.repo, len(ctx.prog.modules), len(ctx.prog.functions),
            ctx.res.stats.get("calls", 0), ctx.res.stats.get("resolved", 0), ctx.res.stats.get("external", 0),
            ctx.res.stats.get("by_name", 0), ctx.res.stats.get("unresolved", 0),
        )
    )
    for rs in ctx.rules.values():
        out.append("  rule %-8s %3d instance(s) (min %d)  %s" % (rs.rule, len(rs.instances), rs.min_instances, rs.template))
    for n in ctx.notes:
        out.append("  note: %s" % n)
    for f, k in listed:
        out.append("KNOWN-FINDING: property=%s %s %s -- %s" % (prop, f.rule, f.construct, k.get("what", f.message)))
    for f in fresh:
        out.append("FINDING " + f.line())
    if not quiet:
        print("\n".join(out))
    return ctx, listed, fresh, mod


def main(argv=None) -> int:
    ap = argparse.ArgumentParser(prog="check")
    ap.add_argument("prop")
    ap.add_argument("--tier", default=os.environ.get("VERIF_TIER", "quick"), choices=["quick", "thorough"])
    ap.add_argument("--repo", default=os.environ.get("SYNLINT_REPO", "/repo"))
    ap.add_argument("--replay", default=None)
    ap.add_argument("--evidence-dir", default=None)
    ap.add_argument("--no-known", action="store_true")
    ap.add_argument("--json", action="store_true", help="print findings as JSON (used by the self-test)")
    args = ap.parse_args(argv)
    prop = args.prop.upper()
    try:
        seed = int(os.environ.get("VERIF_SEED", "0") or 0)
    except ValueError:
        seed = 0
    t0 = time.time()
    try:
        if prop not in CLAIMED:
            print("ANALYSIS-ERROR property %s is not claimed (see MANIFEST.not_applicable)" % prop)
            return 2
        only = None
        if args.replay:
            with open(args.replay) as fh:
                rp = json.load(fh)
            only = {(x["rule"], x["construct"]) for x in rp.get("findings", [])}
        ctx, listed, fresh, mod = run_property(prop, args.repo, args.tier, seed, args.evidence_dir, not args.no_known, quiet=args.json, only=only)
        if only is not None:
            fresh = [f for f in fresh if (f.rule, f.construct) in only]
        extra = {}
        if args.tier == "thorough" and not args.replay:
            from . import selftest

            st = selftest.run(prop, args.repo, seed)
            extra["selftest"] = st
            print(
                "  self-test: %d armed variant(s) fired as expected, %d benign variant(s) silent, %d failure(s)"
                % (st["armed_ok"], st["benign_ok"], len(st["failures"]))
            )
            if st["failures"]:
                for x in st["failures"]:
                    print("  self-test failure: %s" % x)
                raise AnalysisError("checker self-test failed for %s (the checker, not the repository, is broken)" % prop)
            if hasattr(mod, "thorough"):
                pass
        if args.json:
            print(json.dumps({"findings": [{"rule": f.rule, "construct": f.construct, "where": f.where, "message": f.message} for f in ctx.findings]}))
        write_evidence(ctx, mod.EXPLANATION, mod.ASSUMPTIONS, len(fresh), extra=extra, evidence_dir=args.evidence_dir)
        if fresh:
            outdir = os.path.join(VERIF, "out") if not args.evidence_dir else args.evidence_dir
            os.makedirs(outdir, exist_ok=True)
            rpath = os.path.join(outdir, "%s.violation.json" % prop)
            with open(rpath, "w") as fh:
                json.dump(
                    {
                        "property": prop,
                        "repo": ctx.repo,
                        "findings": [
                            {"rule": f.rule, "construct": f.construct, "where": f.where, "message": f.message, "path": f.path}
                            for f in fresh
                        ],
                    },
                    fh,
                    indent=1,
                )
            if not args.json:
                print("VIOLATION property=%s replay=%s" % (prop, rpath))
            return 1
        if not args.json:
            print("OK property=%s (%.2fs)" % (prop, time.time() - t0))
        return 0
    except AnalysisError as e:
        print("ANALYSIS-ERROR %s: %s" % (prop, e))
        return 2
    except Exception as e:  # a traceback must never look like a violation
        traceback.print_exc()
        print("ANALYSIS-ERROR %s: engine raised %s: %s" % (prop, type(e).__name__, e))
        return 2


if __name__ == "__main__":
    sys.exit(main())
