"""Classification of the reaction-column writers of the pipeline (shared by
C01-R3, C03-V1, C04-G2).

Every store to the reaction column reached from ``Balancer.__run_pipeline``
gets one class, derived from its guard atoms, its backward slice and its
def-use relation to other stages:

  atom-map-removal            preprocess, before any verdict exists
  revert-unsolved             ``not solved => reaction := input_reaction``
  unsolved-only               guarded by ``not row[solved]``
  unsolved-only(mcs-key)      guarded by presence of the MCS key (only set under not solved)
  fresh-unbalanced[(slice)]   guarded by a side-comparison label of the current text != Balance
  solved-not-input-balanced   rows selected by ``solved_by`` present and != 'input-balanced'
  restore-saved(k)            restores the text saved right before stage k overwrote it, on fresh labels
  unguarded                   none of the above
"""

from __future__ import annotations

import ast
from dataclasses import dataclass
from typing import Dict, List, Optional, Set, Tuple

from .cfg import CFG, normal_compare, split_cond
from .model import own_nodes, unparse
from .pipeline import Pipeline, Stage
from .rows import RowStore
from .util import assignments_to, const_str, enclosing_stmt, same_block_before
from .values import Val, texts

VALIDATOR_CHECK = "synrbl.postprocess.Validator.check"


@dataclass
class Writer:
    stage: Stage
    store: RowStore
    klass: str
    detail: str = ""

    @property
    def where(self) -> str:
        return self.store.where()

    @property
    def construct(self) -> str:
        q = self.store.func.qualname.split("synrbl.", 1)[-1].replace("balancing.", "")
        return "%s->reaction" % q


def label_lists(ctx, f):
    from .props import c07

    return c07._label_lists(ctx, f)


def str_consts(e, f=None):
    from .props import c07

    return c07._str_consts(e, f)


def classify(ctx, pl: Pipeline) -> List[Writer]:
    bal = ctx.balancer
    reaction = pl.reaction_col
    solved = pl.solved_col.text
    solved_by = pl.solved_by_col.text
    mcs_key = texts(bal.get("__mcs_data_col"))
    unb_keys = texts(bal.get("__unbalance_col"))
    carbon_keys = texts(bal.get("__carbon_balance_col"))
    first_val = next((s.index for s in pl.stages if s.callee.qualname == VALIDATOR_CHECK), None)
    ctx.require(first_val is not None, "no Validator.check stage in __run_pipeline")
    restores: Dict[int, int] = {}
    for st_w in pl.stages:
        for w in st_w.stores:
            if reaction.text not in w.keytexts:
                continue
            for st_r in pl.stages:
                if st_r.index <= st_w.index:
                    continue
                for r in st_r.stores:
                    if reaction.text in r.keytexts and _reverts_on_fresh_labels(ctx, r, unb_keys, carbon_keys) and _restores_saved_text(ctx, pl, st_w, w, st_r, r):
                        restores[id(r.node)] = st_w.index
    out: List[Writer] = []
    for st in pl.stages:
        for s in st.stores:
            if reaction.text not in s.keytexts:
                continue
            out.append(Writer(st, s, *_class_of(ctx, pl, st, s, first_val, restores, mcs_key, solved, solved_by)))
    return out


def _class_of(ctx, pl, st, s, first_val, restores, mcs_key, solved, solved_by) -> Tuple[str, str]:
    if st.index < first_val:
        return "atom-map-removal" if st.callee.name == "preprocess" else "before-first-verdict", ""
    not_solved = any(a.kind == "truth" and a.op == "not" and solved in a.keys for a in s.atoms)
    if not_solved and s.value is not None:
        # reaction := row[input column]
        v = s.value
        if isinstance(v, ast.Subscript) and pl.input_col.text in texts(ctx.ev.eval(v.slice, s.env)) and s.target is not None and unparse(v.value) == unparse(s.target.value):
            return "revert-unsolved", ""
    if not_solved:
        return "unsolved-only", ""
    if any(a.kind == "haskey" and a.op == "in" and a.keys & mcs_key for a in s.atoms):
        return "unsolved-only(mcs-key)", ""
    labels = label_lists(ctx, s.func)
    for c, p in s.raw_guards:
        for cc, pp in split_cond(c, p):
            nc = normal_compare(cc, pp)
            if nc is None:
                continue
            l, op, r = nc
            for a, b in ((l, r), (r, l)):
                if isinstance(a, ast.Subscript) and isinstance(a.value, ast.Name) and a.value.id in labels:
                    lit = const_str(b)
                    if op == "==" and lit is not None and lit != "Balance":
                        return "fresh-unbalanced", "label == %r" % lit
    if _slice_excludes_balance(ctx, s):
        return "fresh-unbalanced(slice)", "rows drawn from filter_data(unbalance_values without 'Balance')"
    if id(s.node) in restores:
        return "restore-saved(%d)" % restores[id(s.node)], ""
    atoms = list(s.atoms) + s.slice_atoms()
    if any(a.kind == "cmp" and solved_by in a.keys and a.op == "!=" and a.value == "input-balanced" for a in atoms):
        return "solved-not-input-balanced", ""
    return "unguarded", ""


def mcs_key_only_on_unsolved(ctx, pl: Pipeline) -> List[Tuple[RowStore, bool, str]]:
    mcs_key = texts(ctx.balancer.get("__mcs_data_col"))
    out = []
    for st in pl.stages:
        for s in st.stores:
            if s.keytexts & mcs_key and s.kind == "assign":
                unsolved = any(a.kind == "truth" and a.op == "not" and pl.solved_col.text in a.keys for a in s.atoms)
                by_map = _index_from_unsolved_map(ctx, s, pl)
                out.append((s, unsolved or by_map, "not solved" if unsolved else ("id-map of unsolved rows" if by_map else "?")))
    return out


def _slice_excludes_balance(ctx, s: RowStore) -> bool:
    """The rows written are drawn (through local def-use) from a
    ``filter_data(..., unbalance_values=[..])`` selection without 'Balance'
    computed from labels of this very call."""
    f = s.func
    # find the loop whose variable provides the id / element
    loop = None
    cur = getattr(s.node, "_parent", None)
    while cur is not None and cur is not f.node:
        if isinstance(cur, ast.For):
            loop = cur
            break
        cur = getattr(cur, "_parent", None)
    if loop is None or not isinstance(loop.iter, ast.Name):
        return False
    seen, work = set(), [loop.iter.id]
    found_filter = False
    while work:
        name = work.pop()
        if name in seen:
            continue
        seen.add(name)
        for stmt, v, idx in assignments_to(f, name):
            for c in ast.walk(v):
                if isinstance(c, ast.Call):
                    for k in c.keywords:
                        if k.arg == "unbalance_values":
                            lits = str_consts(k.value, f)
                            if lits is not None and "Balance" not in lits:
                                found_filter = True
                            else:
                                return False
            for nm in ast.walk(v):
                if isinstance(nm, ast.Name):
                    work.append(nm.id)
                elif isinstance(nm, ast.Attribute) and isinstance(nm.value, ast.Name):
                    work.append(nm.value.id)
        if found_filter:
            # the selection must be the only source: no union with unfiltered rows on the way
            return True
    return False




def _index_from_unsolved_map(ctx, s: RowStore, pl: Pipeline) -> bool:
    """reactions[_idx][...] where _idx = M[...] and M is filled only under ``not solved``"""
    e = s.elem_expr
    if not (isinstance(e, ast.Subscript) and isinstance(e.slice, ast.Name)):
        return False
    f = s.func
    for _, v, _i in assignments_to(f, e.slice.id):
        if isinstance(v, ast.Subscript) and isinstance(v.value, ast.Name):
            mname = v.value.id
            cfg = CFG(f.node)
            fills = [n for n in own_nodes(f.node) if isinstance(n, ast.Assign) and any(isinstance(t, ast.Subscript) and isinstance(t.value, ast.Name) and t.value.id == mname for t in n.targets)]
            if not fills:
                return False
            okall = True
            for n in fills:
                g = cfg.guards(cfg.node_of(n))
                txt = [unparse(c) for c, p in g if not p] + ["not " + unparse(c.operand) for c, p in g if p and isinstance(c, ast.UnaryOp)]
                if not any("solved" in t for t in txt):
                    okall = False
            return okall
    return False




def _reverts_on_fresh_labels(ctx, ss: RowStore, unb_keys, carbon_keys) -> bool:
    """Guard of the store == not (label == 'Balance' and carbon == 'balanced'),
    decided by a truth table over the two literals (other atoms must be absent)."""
    f = ss.func
    flow_elem = set()
    if isinstance(ss.elem_expr, ast.Name):
        flow_elem.add(ss.elem_expr.id)

    def lit(e: ast.AST) -> Optional[Tuple[str, bool]]:
        """('L1'|'L2', positive?) if e is a comparison of the row's label with its balanced value"""
        nc = normal_compare(e, True)
        if nc is None:
            return None
        l, op, r = nc
        for a, b in ((l, r), (r, l)):
            if isinstance(a, ast.Subscript) and const_str(b) is not None:
                keys = texts(ctx.ev.eval(a.slice, ss.env))
                if keys & unb_keys and const_str(b) == "Balance" and op in ("==", "!="):
                    return "L1", op == "=="
                if keys & carbon_keys and const_str(b) == "balanced" and op in ("==", "!="):
                    return "L2", op == "=="
        return None

    def ev(e: ast.AST, env: Dict[str, bool]) -> Optional[bool]:
        if isinstance(e, ast.BoolOp):
            vals = [ev(x, env) for x in e.values]
            if any(v is None for v in vals):
                return None
            return all(vals) if isinstance(e.op, ast.And) else any(vals)
        if isinstance(e, ast.UnaryOp) and isinstance(e.op, ast.Not):
            v = ev(e.operand, env)
            return None if v is None else (not v)
        l = lit(e)
        if l is None:
            return None
        name, pos = l
        return env[name] if pos else (not env[name])

    if not ss.raw_guards:
        return False
    for L1 in (True, False):
        for L2 in (True, False):
            env = {"L1": L1, "L2": L2}
            g = True
            for c, p in ss.raw_guards:
                v = ev(c, env)
                if v is None:
                    return False
                g = g and (v if p else (not v))
            if g != (not (L1 and L2)):
                return False
    return True




def _restores_saved_text(ctx, pl: Pipeline, st_w: Stage, w: RowStore, st_r: Stage, r: RowStore) -> bool:
    """The value restored by ``r`` was read from the reaction column right
    before ``w`` overwrote it, and travels W -> R through the pipeline."""
    fw = w.func
    wstmt = enclosing_stmt(w.node)
    saved_name = None
    # save statement: D[idx] = <same element>[reaction_col], same block, before the store
    for n in own_nodes(fw.node):
        if isinstance(n, ast.Assign) and len(n.targets) == 1 and isinstance(n.targets[0], ast.Subscript) and isinstance(n.targets[0].value, ast.Name):
            v = n.value
            if isinstance(v, ast.Subscript) and w.target is not None and unparse(v.value) == unparse(w.target.value):
                keys = texts(ctx.ev.eval(v.slice, w.env))
                if pl.reaction_col.text in keys and same_block_before(n, wstmt):
                    saved_name = n.targets[0].value.id
    if saved_name is None:
        return False
    # W returns the save container
    rets = [x for x in own_nodes(fw.node) if isinstance(x, ast.Return)]
    if not rets or not all(isinstance(x.value, ast.Name) and x.value.id == saved_name for x in rets):
        return False
    # pipeline: name bound from W's call is passed to R
    if not isinstance(st_w.stmt, ast.Assign) or not isinstance(st_w.stmt.targets[0], ast.Name):
        return False
    passed = st_w.stmt.targets[0].id
    if not any(isinstance(a, ast.Name) and a.id == passed for a in list(st_r.call.args) + [k.value for k in st_r.call.keywords]):
        return False
    # R stores the saved value: its value is the loop variable iterating that parameter's items
    fr = r.func
    params = fr.params[1:] if (fr.cls is not None and not fr.is_static) else fr.params
    pidx = [i for i, a in enumerate(st_r.call.args) if isinstance(a, ast.Name) and a.id == passed]
    if not pidx or pidx[0] >= len(params):
        return False
    pname = params[pidx[0]]
    # `for idx, saved in P.items(): row[col] = saved`   or   `for idx in P: row[col] = P[idx]`
    if isinstance(r.value, ast.Subscript) and isinstance(r.value.value, ast.Name) and r.value.value.id == pname and isinstance(r.value.slice, ast.Name):
        key = r.value.slice.id
        for n in own_nodes(fr.node):
            if isinstance(n, ast.For) and isinstance(n.target, ast.Name) and n.target.id == key:
                it = n.iter
                if isinstance(it, ast.Call) and isinstance(it.func, ast.Attribute) and it.func.attr == "keys":
                    it = it.func.value
                if isinstance(it, ast.Name) and it.id == pname and any(x is r.node for x in ast.walk(n)):
                    return True
        return False
    if not isinstance(r.value, ast.Name):
        return False
    for n in own_nodes(fr.node):
        if isinstance(n, ast.For) and pname in {x.id for x in ast.walk(n.iter) if isinstance(x, ast.Name)}:
            if r.value.id in {x.id for x in ast.walk(n.target) if isinstance(x, ast.Name)}:
                return True
    return False


