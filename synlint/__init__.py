"""synlint - repository-specific static checkers for SynRBL (see /verif/DESIGN.md).

Everything in this package decides properties from the *text* of /repo:
Python sources through ``ast``, regular expressions through ``re._parser``,
shipped JSON / .json.gz tables through ``json``.  No SynRBL code is imported
or executed.  RDKit is used only as a constant folder for SMILES literals
found in tables (see DESIGN.md 0.3).
"""

__all__ = ["model", "values", "cfg", "report"]
