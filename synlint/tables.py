"""Loaders for the JSON / .json.gz tables addressed by the code and helpers to
fold SMILES literals (DESIGN.md 1.7, 0.3).

Paths are taken from the ``importlib.resources.files(<pkg>).joinpath("<file>")``
calls in the sources, not hard-coded.  RDKit is used as a *constant folder*
on literals only; a second, independent fold (a small SMILES formula counter
for the organic-subset / bracket forms that occur in the tables) cross-checks
it in the thorough tier.
"""

from __future__ import annotations

import ast
import gzip
import json
import os
import re
from typing import Dict, List, Optional, Tuple

from .model import AnalysisError, Program, dotted, own_nodes


def load_json(path: str):
    with open(path, "rb") as fh:
        raw = fh.read()
    if raw[:2] == b"\x1f\x8b":
        raw = gzip.decompress(raw)
    return json.loads(raw.decode("utf-8"))


def resource_sites(prog: Program) -> List[Tuple[str, str, str, int]]:
    """(module name, package dir (repo relative), file name, line) of every
    ``importlib.resources.files(P).joinpath("name")`` in the package."""
    out = []
    for m in prog.modules.values():
        if not m.name.startswith(prog.package):
            continue
        for n in ast.walk(m.tree):
            if isinstance(n, ast.Call) and isinstance(n.func, ast.Attribute) and n.func.attr == "joinpath" and n.args:
                fname = n.args[0].value if isinstance(n.args[0], ast.Constant) else None
                base = n.func.value
                if fname and isinstance(base, ast.Call) and (dotted(base.func) or "").endswith("files") and base.args:
                    pkg = dotted(base.args[0])
                    if pkg:
                        out.append((m.name, pkg.replace(".", "/"), fname, n.lineno))
    return out


def resource_path(prog: Program, fname: str) -> str:
    for mod, pkgdir, f, line in resource_sites(prog):
        if f == fname:
            p = os.path.join(prog.repo, pkgdir, f)
            if not os.path.exists(p):
                raise AnalysisError("table %s addressed at %s:%d does not exist" % (p, mod, line))
            return p
    raise AnalysisError("no importlib.resources...joinpath(%r) site found in the package" % fname)


# --------------------------------------------------------------------------
# folding SMILES literals
# --------------------------------------------------------------------------

_RDKIT = None


def rdkit_chem():
    global _RDKIT
    if _RDKIT is None:
        try:
            from rdkit import Chem, RDLogger

            RDLogger.DisableLog("rdApp.*")
            _RDKIT = Chem
        except Exception as e:  # pragma: no cover
            raise AnalysisError("RDKit (constant folder for SMILES literals) is not importable: %s" % e)
    return _RDKIT


def fold_rdkit(smiles: str) -> Optional[Dict[str, int]]:
    """Composition (all H explicit, net charge under 'Q', always present) of
    a SMILES literal, or None if it does not parse."""
    Chem = rdkit_chem()
    mol = Chem.MolFromSmiles(smiles)
    if mol is None:
        return None
    mol = Chem.AddHs(mol)
    comp: Dict[str, int] = {}
    for a in mol.GetAtoms():
        comp[a.GetSymbol()] = comp.get(a.GetSymbol(), 0) + 1
    comp["Q"] = Chem.GetFormalCharge(mol)
    return comp


def canon(smiles: str) -> Optional[str]:
    Chem = rdkit_chem()
    try:
        return Chem.CanonSmiles(smiles)
    except Exception:
        return None


def heavy_atoms(smiles: str) -> Optional[List[Tuple[str, int]]]:
    """[(symbol, formal charge)] of the heavy atoms, or None."""
    Chem = rdkit_chem()
    mol = Chem.MolFromSmiles(smiles)
    if mol is None:
        return None
    return [(a.GetSymbol(), a.GetFormalCharge()) for a in mol.GetAtoms()]


# ---- second, independent fold ---------------------------------------------

_ORGANIC_VALENCES = {"B": (3,), "C": (4,), "N": (3, 5), "O": (2,), "P": (3, 5), "S": (2, 4, 6), "F": (1,), "Cl": (1,), "Br": (1,), "I": (1,)}
_TOKEN = re.compile(r"\[[^\]]+\]|Br|Cl|[BCNOPSFI]|[bcnops]|[=#\-:/\\]|\(|\)|%\d\d|\d|\.|\*")
_BRACKET = re.compile(r"\[(?P<iso>\d+)?(?P<sym>[A-Z][a-z]?|[a-z]{1,2})(?P<chir>@+)?(?:H(?P<h>\d?))?(?P<chg>(?:\+\+?|--?|\+\d|-\d)?)(?::(?P<map>\d+))?\]$")


def fold_simple(smiles: str) -> Optional[Dict[str, int]]:
    """Independent composition counter for non-aromatic SMILES made of
    organic-subset atoms and bracket atoms (enough for every literal in the
    shipped tables).  Returns None for forms it does not cover."""
    pos = 0
    toks = []
    while pos < len(smiles):
        m = _TOKEN.match(smiles, pos)
        if not m:
            return None
        toks.append(m.group(0))
        pos = m.end()
    atoms = []  # dict(sym, bracket, h, chg, bonds)
    stack = []
    prev = None
    bond = 1
    rings: Dict[str, Tuple[int, int]] = {}
    for t in toks:
        if t == "(":
            stack.append(prev)
        elif t == ")":
            if not stack:
                return None
            prev = stack.pop()
        elif t == ".":
            prev = None
            bond = 1
        elif t in ("-", "/", "\\"):
            bond = 1
        elif t == "=":
            bond = 2
        elif t == "#":
            bond = 3
        elif t == ":":
            return None
        elif t.isdigit() or t.startswith("%"):
            if prev is None:
                return None
            if t in rings:
                other, b = rings.pop(t)
                order = max(b, bond)
                atoms[other]["bonds"] += order
                atoms[prev]["bonds"] += order
            else:
                rings[t] = (prev, bond)
            bond = 1
        elif t == "*":
            return None
        else:
            if t.startswith("["):
                parsed = _parse_bracket(t)
                if parsed is None:
                    return None
                sym, hcount, q = parsed
                atoms.append({"sym": sym, "bracket": True, "h": hcount, "chg": q, "bonds": 0})
            else:
                if t.islower():
                    return None
                atoms.append({"sym": t, "bracket": False, "h": None, "chg": 0, "bonds": 0})
            idx = len(atoms) - 1
            if prev is not None:
                atoms[prev]["bonds"] += bond
                atoms[idx]["bonds"] += bond
            prev = idx
            bond = 1
    if rings or stack:
        return None
    comp: Dict[str, int] = {}
    q = 0
    for a in atoms:
        comp[a["sym"]] = comp.get(a["sym"], 0) + 1
        if a["bracket"]:
            nh = a["h"]
        else:
            vals = _ORGANIC_VALENCES.get(a["sym"])
            if vals is None:
                return None
            nh = 0
            for v in vals:
                if v >= a["bonds"]:
                    nh = v - a["bonds"]
                    break
        if nh:
            comp["H"] = comp.get("H", 0) + nh
        q += a["chg"]
    comp["Q"] = q
    return comp


def _parse_bracket(t: str):
    """'[..]' -> (symbol, explicit H count, charge) or None (aromatic / unknown)."""
    from .props.c07 import SYMBOLS

    body = t[1:-1]
    i = 0
    while i < len(body) and body[i].isdigit():
        i += 1
    if i >= len(body):
        return None
    if body[i].islower():
        return None
    sym = body[i : i + 2] if body[i : i + 2] in SYMBOLS else body[i : i + 1]
    if sym not in SYMBOLS:
        return None
    i += len(sym)
    while i < len(body) and body[i] == "@":
        i += 1
    h = 0
    if i < len(body) and body[i] == "H":
        i += 1
        h = 1
        if i < len(body) and body[i].isdigit():
            h = int(body[i])
            i += 1
    q = 0
    if i < len(body) and body[i] in "+-":
        sign = 1 if body[i] == "+" else -1
        j = i
        while j < len(body) and body[j] == body[i]:
            j += 1
        n = j - i
        i = j
        if i < len(body) and body[i].isdigit():
            k = i
            while k < len(body) and body[k].isdigit():
                k += 1
            n = int(body[i:k])
            i = k
        q = sign * n
    if i < len(body) and body[i] == ":":
        i += 1
        while i < len(body) and body[i].isdigit():
            i += 1
    if i != len(body):
        return None
    return sym, h, q


def strip_zero(comp: Dict[str, int]) -> Dict[str, int]:
    return {k: v for k, v in comp.items() if v != 0 or k == "Q"}
