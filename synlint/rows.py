"""Row-flow: which names denote the pipeline's row list / a row dict, which
statements store into a row, under which guards (DESIGN.md 1.5).

Rows are dicts in a list that is threaded through the stages.  Inside a
function we track, flow-insensitively,

* *containers*: names bound to the row list or to a list of the same dict
  objects (filtered comprehension, slice, ``list(...)``, ``append`` of a row),
* *elements*: names bound to a row dict (loop variable over a container,
  positional partner in ``zip``/``enumerate``, ``container[i]``).

Copies (``copy.deepcopy``, ``dict.copy``, ``pd.DataFrame(...).to_dict``,
fresh dict displays) are *not* aliases.  Stores ``elem[key] = v`` /
``container[i][key] = v`` are reported with the resolved key set, the value
expression and normalised guard atoms.
"""

from __future__ import annotations

import ast
from dataclasses import dataclass, field
from typing import Dict, List, Optional, Set, Tuple

from .cfg import CFG, normal_compare, split_cond
from .model import Func, own_nodes, unparse
from .values import Env, Evaluator, ValSet, texts


@dataclass
class Atom:
    """Normalised guard atom about the current row.

    kind: 'cmp'     row[key] <op> const
          'truth'   row[key] is truthy (op '' ) / falsy (op 'not')
          'haskey'  key in row (op 'in' / 'not in')
          'var'     <name> <op> const      (name is a local, e.g. zip partner)
          'param'   truthiness of a parameter / attribute flag
          'raw'     anything else (text)
    """

    kind: str
    keys: frozenset = frozenset()
    op: str = ""
    value: object = None
    text: str = ""
    name: str = ""

    def __repr__(self) -> str:
        if self.kind == "cmp":
            return "row[%s] %s %r" % ("|".join(sorted(map(str, self.keys))), self.op, self.value)
        if self.kind == "truth":
            return "%srow[%s]" % ("not " if self.op == "not" else "", "|".join(sorted(map(str, self.keys))))
        if self.kind == "haskey":
            return "%s %s row" % ("|".join(sorted(map(str, self.keys))), self.op)
        if self.kind == "var":
            return "%s %s %r" % (self.name, self.op, self.value)
        return self.text


@dataclass
class RowStore:
    func: Func
    node: ast.AST  # the Assign / AugAssign / Delete statement
    target: ast.Subscript
    keys: ValSet
    value: Optional[ast.AST]
    kind: str  # 'assign' | 'aug' | 'del'
    atoms: List[Atom] = field(default_factory=list)
    raw_guards: List[Tuple[ast.AST, bool]] = field(default_factory=list)
    handlers: List[ast.ExceptHandler] = field(default_factory=list)
    elem_expr: Optional[ast.AST] = None
    via: List[str] = field(default_factory=list)  # call chain from the stage entry
    env: Optional[Env] = None
    flow: Optional["RowFlow"] = None

    def slice_atoms(self) -> List[Atom]:
        return self.flow.slice_atoms(self) if self.flow is not None else []

    @property
    def keytexts(self) -> set:
        return texts(self.keys)

    def where(self) -> str:
        return self.func.loc(self.node)


class RowFlow:
    def __init__(self, ev: Evaluator, func: Func, env: Env, containers: Set[str], elements: Set[str] = frozenset()):
        self.ev = ev
        self.func = func
        self.env = env
        self.containers: Set[str] = set(containers)
        self.elements: Set[str] = set(elements)
        # filter conditions attached to derived containers: name -> [(cond, loopvar)]
        self.filters: Dict[str, List[Tuple[ast.AST, str]]] = {}
        # element name -> container it iterates
        self.elem_of: Dict[str, str] = {}
        self.cfg = CFG(func.node)
        self._fixpoint()

    # ------------------------------------------------------------ aliasing
    def is_container(self, e: ast.AST) -> Optional[str]:
        """Name of the container this expression aliases (or '<expr>')."""
        if isinstance(e, ast.Name) and e.id in self.containers:
            return e.id
        if isinstance(e, ast.Subscript) and isinstance(e.slice, ast.Slice):
            return self.is_container(e.value)
        if isinstance(e, ast.Call) and isinstance(e.func, ast.Name) and e.func.id in ("list", "sorted", "reversed", "tuple") and e.args:
            return self.is_container(e.args[0])
        if isinstance(e, ast.ListComp) and len(e.generators) >= 1:
            g = e.generators[0]
            src = self._iter_source(g.iter, g.target)
            if src:
                # element must be the loop variable itself (or container[idx])
                for name, cont in src.items():
                    if (isinstance(e.elt, ast.Name) and e.elt.id == name) or self._is_elem_sub(e.elt, cont):
                        return cont
        return None

    def _is_elem_sub(self, e: ast.AST, cont: str) -> bool:
        return (
            isinstance(e, ast.Subscript)
            and not isinstance(e.slice, ast.Slice)
            and isinstance(e.value, ast.Name)
            and e.value.id == cont
        )

    def is_element(self, e: ast.AST) -> bool:
        if isinstance(e, ast.Name) and e.id in self.elements:
            return True
        if isinstance(e, ast.Subscript) and not isinstance(e.slice, ast.Slice):
            c = self.is_container(e.value)
            if c is not None:
                # container[int-ish]; a string-constant key means it is a dict, not our list
                if isinstance(e.slice, ast.Constant) and isinstance(e.slice.value, str):
                    return False
                return True
        return False

    def _iter_source(self, it: ast.AST, target: ast.AST) -> Dict[str, str]:
        """loop variable name -> container it walks, for ``for target in it``."""
        out: Dict[str, str] = {}
        c = self.is_container(it)
        if c is not None and isinstance(target, ast.Name):
            out[target.id] = c
            return out
        if isinstance(it, ast.Call) and isinstance(it.func, ast.Name):
            if it.func.id == "enumerate" and it.args and isinstance(target, ast.Tuple) and len(target.elts) == 2:
                c = self.is_container(it.args[0])
                if c is not None and isinstance(target.elts[1], ast.Name):
                    out[target.elts[1].id] = c
            elif it.func.id == "zip" and isinstance(target, ast.Tuple):
                for a, t in zip(it.args, target.elts):
                    c = self.is_container(a)
                    if c is not None and isinstance(t, ast.Name):
                        out[t.id] = c
        return out

    def _fixpoint(self) -> None:
        changed = True
        rounds = 0
        while changed and rounds < 6:
            changed = False
            rounds += 1
            for n in own_nodes(self.func.node):
                if isinstance(n, ast.Assign) and len(n.targets) == 1 and isinstance(n.targets[0], ast.Name):
                    name = n.targets[0].id
                    c = self.is_container(n.value)
                    if c is not None and name not in self.containers:
                        self.containers.add(name)
                        changed = True
                    if c is not None and isinstance(n.value, ast.ListComp):
                        conds = []
                        for g in n.value.generators:
                            lv = g.target.id if isinstance(g.target, ast.Name) else ""
                            for cond in g.ifs:
                                conds.append((cond, lv))
                        inherited = list(self.filters.get(c, [])) if c != name else []
                        new = inherited + conds
                        if new and self.filters.get(name) != new:
                            self.filters[name] = new
                            changed = True
                    elif c is not None and c != name and self.filters.get(c) and self.filters.get(name) != self.filters.get(c):
                        self.filters[name] = list(self.filters[c])
                        changed = True
                    if self.is_element(n.value) and name not in self.elements:
                        self.elements.add(name)
                        changed = True
                elif isinstance(n, (ast.For, ast.comprehension)):
                    src = self._iter_source(n.iter, n.target)
                    for name, cont in src.items():
                        if name not in self.elements:
                            self.elements.add(name)
                            changed = True
                        self.elem_of[name] = cont
                elif isinstance(n, ast.Call) and isinstance(n.func, ast.Attribute) and isinstance(n.func.value, ast.Name):
                    if n.func.attr == "append" and n.args and self.is_element(n.args[0]):
                        if n.func.value.id not in self.containers:
                            self.containers.add(n.func.value.id)
                            changed = True
                        # guards of the append become filters of the new container
                        nid = self.cfg.node_of(n)
                        if nid is not None and isinstance(n.args[0], ast.Name):
                            g = [(c, n.args[0].id) if p else (ast.UnaryOp(op=ast.Not(), operand=c), n.args[0].id) for c, p in self.cfg.guards(nid)]
                            if g and not self.filters.get(n.func.value.id):
                                self.filters[n.func.value.id] = g
                                changed = True
                    elif n.func.attr == "extend" and n.args and self.is_container(n.args[0]) is not None:
                        if n.func.value.id not in self.containers:
                            self.containers.add(n.func.value.id)
                            changed = True

    # -------------------------------------------------------------- guards
    def atoms_for(self, guards: List[Tuple[ast.AST, bool]], elem_names: Set[str]) -> List[Atom]:
        out: List[Atom] = []
        work = [(c, p, 0) for cond, pol in guards for c, p in split_cond(cond, pol)]
        while work:
            c, p, d = work.pop(0)
            # a local boolean that names a condition: look through it
            if isinstance(c, ast.Name) and d < 3:
                defs = [n for n in own_nodes(self.func.node) if isinstance(n, ast.Assign) and len(n.targets) == 1 and isinstance(n.targets[0], ast.Name) and n.targets[0].id == c.id]
                if len(defs) == 1 and isinstance(defs[0].value, (ast.BoolOp, ast.Compare, ast.UnaryOp)):
                    work = [(c2, p2, d + 1) for c2, p2 in split_cond(defs[0].value, p)] + work
                    continue
            at = self._atom(c, p, elem_names)
            out.append(at)
            if at.kind == "cmp" and at.op in ("is not", "!=") and at.value is None and "None" in at.text:
                # row.get(k) is not None / row[k] is not None: the key is present as well
                out.append(Atom("haskey", at.keys, "in", None, at.text + " (implies the key is present)"))
        return out

    def _row_key(self, e: ast.AST, elem_names: Set[str]) -> Optional[ValSet]:
        """keys if ``e`` is ``elem[key]`` / ``elem.get(key)`` else None"""
        if isinstance(e, ast.Subscript) and not isinstance(e.slice, ast.Slice):
            if self._is_elem_expr(e.value, elem_names):
                return self.ev.eval(e.slice, self.env)
        if (
            isinstance(e, ast.Call)
            and isinstance(e.func, ast.Attribute)
            and e.func.attr == "get"
            and e.args
            and self._is_elem_expr(e.func.value, elem_names)
        ):
            return self.ev.eval(e.args[0], self.env)
        return None

    def _is_elem_expr(self, e: ast.AST, elem_names: Set[str]) -> bool:
        if isinstance(e, ast.Name):
            return e.id in elem_names or e.id in self.elements
        return self.is_element(e)

    def _atom(self, c: ast.AST, p: bool, elem_names: Set[str]) -> Atom:
        txt = unparse(c) if p else "not (%s)" % unparse(c)
        k = self._row_key(c, elem_names)
        if k is not None:
            return Atom("truth", frozenset(texts(k)), "" if p else "not", None, txt)
        nc = normal_compare(c, p)
        if nc is not None:
            l, op, r = nc
            # key in row.keys() / key in row
            if op in ("in", "not in"):
                tgt = r
                if isinstance(tgt, ast.Call) and isinstance(tgt.func, ast.Attribute) and tgt.func.attr == "keys":
                    tgt = tgt.func.value
                if self._is_elem_expr(tgt, elem_names):
                    return Atom("haskey", frozenset(texts(self.ev.eval(l, self.env))), op, None, txt)
                kl = self._row_key(l, elem_names)
                if kl is not None:
                    rv = self.ev.eval(r, self.env)
                    vals = None
                    if len(rv) == 1 and next(iter(rv)).kind == "list":
                        vals = tuple(x.text for x in next(iter(rv)).value)
                    return Atom("cmp", frozenset(texts(kl)), op, vals, txt)
            for a, b, o in ((l, r, op), (r, l, _flip(op))):
                ka = self._row_key(a, elem_names)
                if ka is not None:
                    bv = self.ev.eval(b, self.env)
                    val = None
                    if len(bv) == 1:
                        x = next(iter(bv))
                        val = x.text if x.kind in ("const", "sym") else None
                        if x.kind == "const" and x.value is None:
                            val = None
                    return Atom("cmp", frozenset(texts(ka)), o, val, txt)
                if isinstance(a, ast.Name):
                    bv = self.ev.eval(b, self.env)
                    if len(bv) == 1 and next(iter(bv)).kind == "const":
                        return Atom("var", frozenset(), o, next(iter(bv)).value, txt, name=a.id)
        if isinstance(c, ast.Name):
            return Atom("param", frozenset(), "" if p else "not", None, txt, name=c.id)
        if isinstance(c, ast.Attribute):
            return Atom("param", frozenset(), "" if p else "not", None, txt, name=unparse(c))
        return Atom("raw", text=txt)

    # -------------------------------------------------------------- stores
    def stores(self) -> List[RowStore]:
        out: List[RowStore] = []
        for n in own_nodes(self.func.node):
            targets: List[Tuple[ast.AST, Optional[ast.AST], str]] = []
            if isinstance(n, ast.Assign):
                for t in n.targets:
                    targets.append((t, n.value, "assign"))
            elif isinstance(n, ast.AugAssign):
                targets.append((n.target, n.value, "aug"))
            elif isinstance(n, ast.Delete):
                for t in n.targets:
                    targets.append((t, None, "del"))
            elif isinstance(n, ast.Call) and isinstance(n.func, ast.Attribute) and n.func.attr in ("update", "pop", "setdefault", "clear") and self.is_element(n.func.value):
                # dict-mutating method on a row
                nid = self.cfg.node_of(n)
                keys = self.ev.eval(n.args[0], self.env) if n.args and n.func.attr in ("pop", "setdefault") else frozenset()
                rs = RowStore(self.func, n, None, keys, None, "method:" + n.func.attr, elem_expr=n.func.value, env=self.env, flow=self)
                self._fill_guards(rs, nid, n.func.value)
                out.append(rs)
                continue
            for t, v, kind in targets:
                if isinstance(t, ast.Subscript) and not isinstance(t.slice, ast.Slice) and self.is_element(t.value):
                    keys = self.ev.eval(t.slice, self.env)
                    nid = self.cfg.node_of(n)
                    rs = RowStore(self.func, n, t, keys, v, kind, elem_expr=t.value, env=self.env, flow=self)
                    self._fill_guards(rs, nid, t.value)
                    src = self._element_source(n, t.value)
                    if src is not None:
                        rs.elem_expr = src  # `row = rows[idx]` right before: the store goes to rows[idx]
                    out.append(rs)
        out.sort(key=lambda r: (r.node.lineno, r.node.col_offset))
        return out

    def _element_source(self, stmt: ast.AST, elem: ast.AST) -> Optional[ast.Subscript]:
        """``elem`` is a name bound by the nearest preceding statement of an enclosing block to ``<container>[idx]``"""
        if not isinstance(elem, ast.Name):
            return None
        cur = stmt
        while cur is not None and cur is not self.func.node:
            par = getattr(cur, "_parent", None)
            if par is None:
                break
            for fld in ("body", "orelse", "finalbody"):
                lst = getattr(par, fld, None)
                if isinstance(lst, list) and cur in lst:
                    for prev in reversed(lst[: lst.index(cur)]):
                        if isinstance(prev, ast.Assign) and len(prev.targets) == 1 and isinstance(prev.targets[0], ast.Name) and prev.targets[0].id == elem.id:
                            v = prev.value
                            if isinstance(v, ast.Subscript) and not isinstance(v.slice, ast.Slice) and self.is_container(v.value) is not None:
                                return v
                            return None
                        if any(isinstance(x, ast.Name) and x.id == elem.id and isinstance(x.ctx, ast.Store) for x in ast.walk(prev)):
                            return None
            if isinstance(par, (ast.For, ast.While)) and any(isinstance(x, ast.Name) and x.id == elem.id for x in ast.walk(getattr(par, "target", ast.Pass()))):
                return None
            cur = par
        return None

    def _fill_guards(self, rs: RowStore, nid: Optional[int], elem_expr: ast.AST) -> None:
        guards = self.cfg.guards(nid) if nid is not None else []
        rs.raw_guards = list(guards)
        rs.handlers = self.cfg.in_handler(nid) if nid is not None else []
        elem_names: Set[str] = set()
        cont = None
        if isinstance(elem_expr, ast.Name):
            elem_names.add(elem_expr.id)
            cont = self.elem_of.get(elem_expr.id)
        else:
            sub = elem_expr
            if isinstance(sub, ast.Subscript):
                cont = self.is_container(sub.value)
        rs.atoms = self.atoms_for(guards, elem_names)
        # filters of the container the element was drawn from
        seen = set()
        while cont is not None and cont not in seen:
            seen.add(cont)
            for cond, lv in self.filters.get(cont, []):
                rs.atoms.extend(self.atoms_for([(cond, True)], {lv} if lv else set()))
            break

    def slice_atoms(self, rs: "RowStore") -> List[Atom]:
        """Filters of the row containers that the written row set is drawn
        from through local def-use (backward slice from the enclosing loops
        and from the element expression): e.g. ``for x in g(sel): rows[m[x.id]][k] = ..``
        with ``sel = [r for r in rows if cond(r)]`` yields the atoms of cond."""
        from .util import assignments_to

        start: Set[str] = set()
        cur = getattr(rs.node, "_parent", None)
        while cur is not None and cur is not self.func.node:
            if isinstance(cur, (ast.For, ast.comprehension)):
                start |= {n.id for n in ast.walk(cur.iter) if isinstance(n, ast.Name)}
            cur = getattr(cur, "_parent", None)
        out: List[Atom] = []
        seen: Set[str] = set()
        work = [(n, 0) for n in start]
        while work:
            name, d = work.pop()
            if name in seen or d > 5:
                continue
            seen.add(name)
            if name in self.containers and self.filters.get(name):
                for cond, lv in self.filters[name]:
                    out.extend(self.atoms_for([(cond, True)], {lv} if lv else set()))
                continue  # the selection is the source
            for _, v, _i in assignments_to(self.func, name):
                for nm in ast.walk(v):
                    if isinstance(nm, ast.Name):
                        work.append((nm.id, d + 1))
        return out

    def row_calls(self, resolver) -> List[Tuple[ast.Call, tuple, Dict[str, str]]]:
        """Calls to package functions that receive a container or an
        element: (call, target, {callee param -> 'container'|'element'})."""
        out = []
        for n in own_nodes(self.func.node):
            if not isinstance(n, ast.Call):
                continue
            roles = {}
            for i, a in enumerate(n.args):
                if self.is_container(a) is not None:
                    roles[i] = "container"
                elif self.is_element(a):
                    roles[i] = "element"
            for k in n.keywords:
                if k.arg and self.is_container(k.value) is not None:
                    roles[k.arg] = "container"
                elif k.arg and self.is_element(k.value):
                    roles[k.arg] = "element"
            if not roles:
                continue
            tgt = resolver.resolve_callee(n, self.func)
            out.append((n, tgt, roles))
        return out


def _flip(op: str) -> str:
    return {"<": ">", ">": "<", "<=": ">=", ">=": "<=", "==": "==", "!=": "!=", "in": "in", "not in": "not in"}.get(op, op)


# ---------------------------------------------------------------------------
# interprocedural collection
# ---------------------------------------------------------------------------


def collect_row_stores(ctx, func: Func, env: Env, containers: Set[str], elements: Set[str] = frozenset(), depth: int = 3, via: Optional[List[str]] = None, _seen=None) -> List[RowStore]:
    """Row stores of ``func`` and of the package callees that receive the
    rows (parameter binding through ``Evaluator.bind_call``)."""
    via = via or [func.qualname]
    _seen = _seen if _seen is not None else set()
    key = (func.qualname, tuple(sorted(containers)), tuple(sorted(elements)))
    if key in _seen:
        return []
    _seen.add(key)
    flow = RowFlow(ctx.ev, func, env, containers, elements)
    out = flow.stores()
    for s in out:
        s.via = list(via)
    if depth <= 0:
        return out
    for call, tgt, roles in flow.row_calls(ctx.res):
        callee: Optional[Func] = None
        inst = None
        skip_self = False
        if tgt and tgt[0] == "func" and tgt[1] in ctx.prog.functions:
            callee = ctx.prog.functions[tgt[1]]
            if callee.cls is not None and not callee.is_static and isinstance(call.func, ast.Attribute):
                skip_self = True
                inst = _receiver_instance(ctx, call.func.value, env, func)
        elif tgt and tgt[0] == "class":
            # constructor receiving rows: follow methods called on the object later
            cls = ctx.prog.classes[tgt[1]]
            callee = ctx.prog.lookup_method(cls, "__init__")
            skip_self = True
            continue_ctor = True
            # rows stored on the instance are followed by the rules that need it (C01-R2)
            callee = None
        if callee is None:
            continue
        params = ctx.ev.bind_call(callee, call, env, skip_self=skip_self)
        cenv = Env(func=callee, params=params, inst=inst)
        names = list(callee.params)
        if skip_self and names:
            names = names[1:]
        ccont, celem = set(), set()
        for k, role in roles.items():
            pname = names[k] if isinstance(k, int) and k < len(names) else (k if isinstance(k, str) else None)
            if pname is None:
                continue
            (ccont if role == "container" else celem).add(pname)
        sub = collect_row_stores(ctx, callee, cenv, ccont, celem, depth - 1, via + [callee.qualname], _seen)
        # a row handed to a helper stays under the guards of the call site
        elem_args = [a for a in list(call.args) + [k.value for k in call.keywords] if flow.is_element(a)]
        if elem_args and celem:
            inherited: List[Atom] = []
            nid = flow.cfg.node_of(call)
            for a in elem_args:
                probe = RowStore(func, call, None, frozenset(), None, "call", elem_expr=a, env=env, flow=flow)
                flow._fill_guards(probe, nid, a)
                inherited.extend(probe.atoms)
            for s_ in sub:
                if isinstance(s_.elem_expr, ast.Name) and s_.elem_expr.id in celem or s_.func is not callee:
                    s_.atoms = list(s_.atoms) + [a for a in inherited if repr(a) not in {repr(x) for x in s_.atoms}]
        out.extend(sub)
    return out


def _receiver_instance(ctx, recv: ast.AST, env: Env, func: Func):
    """Instance environment of ``self.<attr>`` receivers."""
    if isinstance(recv, ast.Attribute) and isinstance(recv.value, ast.Name) and env.inst is not None:
        if func.params and recv.value.id == func.params[0]:
            key = env.inst.cls.mangle(recv.attr)
            return env.inst.attr_inst.get(key)
    if isinstance(recv, ast.Name) and env.inst is not None and func.params and recv.id == func.params[0]:
        return env.inst
    # local ``x = Ctor(...)``
    if isinstance(recv, ast.Name):
        for n in own_nodes(func.node):
            if isinstance(n, ast.Assign) and len(n.targets) == 1 and isinstance(n.targets[0], ast.Name) and n.targets[0].id == recv.id:
                sub = ctx.ev._ctor_of(n.value, func)
                if sub is not None:
                    return ctx.ev.instantiate(sub[0], sub[1], env, origin=recv.id)
    return None


# ---------------------------------------------------------------------------
# package-wide subscript stores (default environments)
# ---------------------------------------------------------------------------


@dataclass
class KeyStore:
    func: Func
    node: ast.AST
    target: ast.Subscript
    keys: ValSet
    value: Optional[ast.AST]
    kind: str

    @property
    def keytexts(self) -> set:
        return texts(self.keys)

    def where(self) -> str:
        return self.func.loc(self.node)


def package_stores(ctx) -> List[KeyStore]:
    """Every ``X[key] = v`` / ``X[key] op= v`` / ``del X[key]`` of the package
    with the key evaluated under the *default* environment of the enclosing
    class (constructor defaults) -- used for who-may-write rules."""
    cached = getattr(ctx, "_package_stores", None)
    if cached is not None:
        return cached
    out: List[KeyStore] = []
    inst_cache: Dict[str, object] = {}
    for f in ctx.prog.package_functions():
        inst = None
        root = f
        while root.parent is not None:
            root = root.parent
        if root.cls is not None and not root.is_static:
            q = root.cls.qualname
            if q not in inst_cache:
                try:
                    inst_cache[q] = ctx.ev.instantiate(root.cls, None, None, origin=q)
                except RecursionError:  # pragma: no cover
                    inst_cache[q] = None
            inst = inst_cache[q]
        env = Env(func=f, params={}, inst=inst)
        # parameters: defaults
        denv = Env(func=f)
        for name, d in f.param_defaults().items():
            env.params[name] = ctx.ev.eval(d, denv)
        for n in own_nodes(f.node):
            tv = []
            if isinstance(n, ast.Assign):
                tv = [(t, n.value, "assign") for t in n.targets]
            elif isinstance(n, ast.AugAssign):
                tv = [(n.target, n.value, "aug")]
            elif isinstance(n, ast.Delete):
                tv = [(t, None, "del") for t in n.targets]
            for t, v, kind in tv:
                if isinstance(t, ast.Subscript) and not isinstance(t.slice, ast.Slice):
                    keys = ctx.ev.eval(t.slice, env)
                    out.append(KeyStore(f, n, t, keys, v, kind))
    ctx._package_stores = out
    return out
