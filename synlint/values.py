"""Constant / column-key propagation (DESIGN.md 1.3).

Rows are plain dicts whose schema lives in string constants threaded through
constructors.  ``Evaluator`` evaluates an expression to the set of values it
may denote:

* ``Val("const", v)``   a Python constant,
* ``Val("sym", name)``  a caller supplied value (constructor / function
  parameter of an entry point), with its default when it has one,
* ``Val("list", (..))`` a list/tuple display of such values,
* ``UNKNOWN``           anything else.

An *instance environment* (``Instance``) binds the attributes of a stage
object from the constructor call that created it, so that ``self.solved_col``
inside ``Validator.check`` evaluates to the constant the ``Balancer`` passed.
"""

from __future__ import annotations

import ast
from dataclasses import dataclass, field
from typing import Dict, FrozenSet, List, Optional

from .model import Class, Func, Program, Resolver, own_nodes


@dataclass(frozen=True)
class Val:
    kind: str
    value: object = None
    default: object = None

    def __repr__(self) -> str:
        if self.kind == "const":
            return repr(self.value)
        if self.kind == "sym":
            return "<%s=%r>" % (self.value, self.default)
        if self.kind == "list":
            return "[" + ", ".join(map(repr, self.value)) + "]"
        return "?"

    @property
    def text(self):
        """The string this value denotes under default configuration."""
        if self.kind == "const":
            return self.value
        if self.kind == "sym":
            return self.default
        return None


UNKNOWN = Val("unknown")
ValSet = FrozenSet[Val]


def vs(*vals: Val) -> ValSet:
    return frozenset(vals)


U = vs(UNKNOWN)


@dataclass
class Instance:
    """A stage object: its class and the values of its attributes."""

    cls: Class
    attrs: Dict[str, ValSet] = field(default_factory=dict)
    attr_inst: Dict[str, "Instance"] = field(default_factory=dict)
    ctor_call: Optional[ast.Call] = None
    origin: str = ""

    def get(self, attr: str) -> ValSet:
        m = self.cls.mangle(attr)
        if m in self.attrs:
            return self.attrs[m]
        if attr in self.attrs:
            return self.attrs[attr]
        # the attribute may have been renamed: the option is still the constructor parameter of that name, stored by
        # `self.<x> = <parameter>` in __init__
        for a in self._stored_param(attr):
            if a in self.attrs:
                return self.attrs[a]
        return U

    def _stored_param(self, pname: str):
        import ast as _ast

        out = []
        cls = self.cls
        init = cls.methods.get("__init__") if hasattr(cls, "methods") else None
        if init is None or pname not in init.params + init.kwonly:
            return out
        for n in _ast.walk(init.node):
            if isinstance(n, _ast.Assign) and isinstance(n.value, _ast.Name) and n.value.id == pname:
                for t in n.targets:
                    if isinstance(t, _ast.Attribute) and isinstance(t.value, _ast.Name) and t.value.id == init.params[0]:
                        out.append(cls.mangle(t.attr))
                        out.append(t.attr)
        return out


@dataclass
class Env:
    func: Func
    params: Dict[str, ValSet] = field(default_factory=dict)
    inst: Optional[Instance] = None
    _busy: set = field(default_factory=set)


class Evaluator:
    def __init__(self, prog: Program, resolver: Resolver):
        self.prog = prog
        self.res = resolver

    # ------------------------------------------------------------- binding
    def bind_call(self, callee: Func, call: ast.Call, caller_env: Optional[Env], skip_self: bool) -> Dict[str, ValSet]:
        """Parameter environment of ``callee`` for this call site."""
        params = list(callee.params)
        if skip_self and params:
            params = params[1:]
        out: Dict[str, ValSet] = {}
        defaults = callee.param_defaults()
        denv = Env(func=callee)
        for name in params + callee.kwonly:
            if name in defaults:
                out[name] = self.eval(defaults[name], denv)
            else:
                out[name] = U
        has_star = any(isinstance(a, ast.Starred) for a in call.args)
        if not has_star:
            for name, a in zip(params, call.args):
                out[name] = self.eval(a, caller_env) if caller_env is not None else U
        else:
            for name in params:
                out[name] = U
        if any(k.arg is None for k in call.keywords):
            # **kwargs: everything not bound positionally may be overridden
            bound = [p for p, _ in zip(params, call.args)]
            for name in list(out):
                if name not in bound:
                    out[name] = U
        for k in call.keywords:
            if k.arg is None:
                continue
            if k.arg in out:
                out[k.arg] = self.eval(k.value, caller_env) if caller_env is not None else U
        return out

    def instantiate(self, cls: Class, call: Optional[ast.Call], caller_env: Optional[Env], origin: str = "", sym_params: bool = False) -> Instance:
        inst = Instance(cls=cls, ctor_call=call, origin=origin)
        init = self.prog.lookup_method(cls, "__init__")
        if init is None:
            return inst
        if call is not None:
            params = self.bind_call(init, call, caller_env, skip_self=True)
        else:
            params = {}
            defaults = init.param_defaults()
            denv = Env(func=init)
            for name in init.params[1:] + init.kwonly:
                if sym_params:
                    d = None
                    if name in defaults:
                        dv = self.eval(defaults[name], denv)
                        if len(dv) == 1:
                            d = next(iter(dv)).text
                    params[name] = vs(Val("sym", "%s.%s" % (cls.name, name), d))
                elif name in defaults:
                    params[name] = self.eval(defaults[name], denv)
                else:
                    params[name] = U
        env = Env(func=init, params=params, inst=inst)
        selfname = init.params[0] if init.params else "self"
        # straight-line evaluation in source order; assignments on several
        # branches are joined
        nodes = [n for n in own_nodes(init.node) if isinstance(n, (ast.Assign, ast.AnnAssign))]
        nodes.sort(key=lambda n: (n.lineno, n.col_offset))
        seen_attr = set()
        for n in nodes:
            targets = n.targets if isinstance(n, ast.Assign) else [n.target]
            value = n.value
            if value is None:
                continue
            for t in targets:
                if isinstance(t, ast.Attribute) and isinstance(t.value, ast.Name) and t.value.id == selfname:
                    key = cls.mangle(t.attr)
                    v = self.eval(value, env)
                    branchy = _in_branch(n, init.node)
                    if key in seen_attr and branchy:
                        inst.attrs[key] = inst.attrs[key] | v
                    else:
                        inst.attrs[key] = v
                    seen_attr.add(key)
                    # nested stage objects
                    sub = self._ctor_of(value, init)
                    if sub is not None:
                        sub_cls, sub_call = sub
                        inst.attr_inst[key] = self.instantiate(sub_cls, sub_call, env, origin="%s.%s" % (cls.name, t.attr))
        # stage objects created lazily inside a property
        for c in self.prog.mro(cls):
            for pm in c.methods.values():
                if "property" not in pm.decorators or not pm.params:
                    continue
                penv = Env(func=pm, params={}, inst=inst)
                for n in own_nodes(pm.node):
                    if isinstance(n, ast.Assign):
                        sub = self._ctor_of(n.value, pm)
                        if sub is None:
                            continue
                        for t in n.targets:
                            if isinstance(t, ast.Attribute) and isinstance(t.value, ast.Name) and t.value.id == pm.params[0]:
                                si = self.instantiate(sub[0], sub[1], penv, origin="%s.%s" % (cls.name, pm.name))
                                inst.attr_inst[pm.name] = si
                                inst.attr_inst[cls.mangle(t.attr)] = si
        return inst

    def _ctor_of(self, value: ast.AST, f: Func):
        if isinstance(value, ast.Call):
            tgt = self.res.resolve_callee(value, f)
            if tgt and tgt[0] == "class" and tgt[1] in self.prog.classes:
                return self.prog.classes[tgt[1]], value
        return None

    # ---------------------------------------------------------------- eval
    def eval(self, e: ast.AST, env: Optional[Env]) -> ValSet:
        if e is None or env is None:
            return U
        if isinstance(e, ast.Constant):
            return vs(Val("const", e.value))
        if isinstance(e, (ast.List, ast.Tuple)):
            elems = []
            for x in e.elts:
                v = self.eval(x, env)
                elems.append(next(iter(v)) if len(v) == 1 else UNKNOWN)
            return vs(Val("list", tuple(elems)))
        if isinstance(e, ast.IfExp):
            return self.eval(e.body, env) | self.eval(e.orelse, env)
        if isinstance(e, ast.BoolOp) and isinstance(e.op, ast.Or):
            out: ValSet = frozenset()
            for x in e.values:
                out = out | self.eval(x, env)
            return out
        if isinstance(e, ast.Name):
            return self._eval_name(e.id, env, e)
        if isinstance(e, ast.Attribute):
            return self._eval_attr(e, env)
        if isinstance(e, ast.Call) and isinstance(e.func, ast.Name) and e.func.id == "getattr" and len(e.args) in (2, 3) and isinstance(e.args[1], ast.Constant) and isinstance(e.args[1].value, str):
            v = self.eval(ast.copy_location(ast.Attribute(value=e.args[0], attr=e.args[1].value, ctx=ast.Load()), e), env)
            if v != U:
                return v
            return self.eval(e.args[2], env) if len(e.args) == 3 else U
        if isinstance(e, ast.Call) and isinstance(e.func, ast.Name) and e.func.id in ("list", "tuple", "sorted", "copy", "deepcopy") and len(e.args) == 1 and not e.keywords:
            return self.eval(e.args[0], env)  # a copy denotes the same values
        if isinstance(e, ast.Call) and isinstance(e.func, ast.Name) and e.func.id in ("bool", "str", "int", "float") and len(e.args) == 1 and not e.keywords:
            inner = self.eval(e.args[0], env)
            out = set()
            for x in inner:
                if x.kind == "const":
                    try:
                        out.add(Val("const", {"bool": bool, "str": str, "int": int, "float": float}[e.func.id](x.value)))
                    except Exception:
                        return U
                elif x.kind == "sym" and e.func.id == "bool" and isinstance(getattr(x, "default", None), bool):
                    out.add(x)  # a flag option stays the same option
                elif x.kind == "sym" and e.func.id == "str" and isinstance(getattr(x, "default", None), str):
                    out.add(x)
                else:
                    return U
            return frozenset(out) if out else U
        if isinstance(e, ast.BinOp) and isinstance(e.op, ast.Add):
            l, r = self.eval(e.left, env), self.eval(e.right, env)
            if len(l) == 1 and len(r) == 1:
                a, b = next(iter(l)), next(iter(r))
                if a.kind == "const" and b.kind == "const":
                    try:
                        return vs(Val("const", a.value + b.value))
                    except Exception:
                        return U
            return U
        if isinstance(e, ast.JoinedStr):
            if all(isinstance(x, ast.Constant) for x in e.values):
                return vs(Val("const", "".join(str(x.value) for x in e.values)))
            return U
        if isinstance(e, ast.Call):
            # str(x) / int(x) wrappers keep column identity irrelevant -> unknown
            return U
        return U

    def _eval_name(self, name: str, env: Env, node: ast.AST) -> ValSet:
        if name in env.params:
            base = env.params[name]
            # `if p is None: p = DEFAULT` style re-binding of a parameter: the body may see either value
            key = (env.func.qualname, name)
            if key in env._busy:
                return base
            rebinds = [n for n in own_nodes(env.func.node) if isinstance(n, ast.Assign) and any(isinstance(t, ast.Name) and t.id == name for t in n.targets)]
            if not rebinds:
                return base
            env._busy.add(key)
            try:
                out = frozenset(v for v in base if not (v.kind == "const" and v.value is None)) if len(base) > 1 or not all(v.kind == "const" and v.value is None for v in base) else frozenset()
                for n in rebinds:
                    out = out | self.eval(n.value, env)
                return out or base
            finally:
                env._busy.discard(key)
        key = (env.func.qualname, name)
        if key in env._busy:
            return U
        env._busy.add(key)
        try:
            out: ValSet = frozenset()
            found = False
            f: Optional[Func] = env.func
            while f is not None and not found:
                for n in own_nodes(f.node):
                    if isinstance(n, ast.Assign):
                        for t in n.targets:
                            if isinstance(t, ast.Name) and t.id == name:
                                out = out | self.eval(n.value, env)
                                found = True
                            elif isinstance(t, ast.Tuple) and any(isinstance(x, ast.Name) and x.id == name for x in t.elts):
                                out = out | U
                                found = True
                    elif isinstance(n, ast.AugAssign) and isinstance(n.target, ast.Name) and n.target.id == name:
                        out = out | U
                        found = True
                    elif isinstance(n, (ast.For, ast.comprehension)):
                        tnames = [x.id for x in ast.walk(n.target) if isinstance(x, ast.Name)]
                        if name in tnames:
                            found = True
                            if isinstance(n.target, ast.Name):
                                out = out | self.elements(self.eval(n.iter, env))
                            else:
                                out = out | U
                    elif isinstance(n, ast.arg) and n.arg == name and f is not env.func:
                        out = out | U
                        found = True
                if not found and name in f.params + f.kwonly:
                    # parameter of the function under analysis without binding
                    out = out | U
                    found = True
                f = f.parent
            if found:
                return out or U
            m = env.func.module
            if name in m.assigns:
                v = self.eval(m.assigns[name], Env(func=env.func, params={}, inst=None, _busy=env._busy))
                return v if v != U else self._fold_constant(m, name)
            tgt = m.imports.get(name)
            if tgt:
                r = self.prog.resolve_symbol(tgt)
                if r and "." in r:
                    mod, attr = r.rsplit(".", 1)
                    if mod in self.prog.modules and attr in self.prog.modules[mod].assigns:
                        m2 = self.prog.modules[mod]
                        v = self.eval(m2.assigns[attr], Env(func=_module_func(m2), params={}))
                        return v if v != U else self._fold_constant(m2, attr)
            return U
        finally:
            env._busy.discard(key)

    def _fold_constant(self, module, name: str) -> ValSet:
        """module-level constant computed from literals (slices, concatenations, comprehensions): fold it"""
        from .constfold import Folder, Unfoldable

        try:
            fo = Folder(module)
            fo.prog = self.prog
            val = fo.fold(ast.Name(id=name, ctx=ast.Load()))
        except (Unfoldable, RecursionError):
            return U

        def conv(x):
            if isinstance(x, (str, int, float, bool)) or x is None:
                return Val("const", x)
            if isinstance(x, (list, tuple)):
                return Val("list", tuple(conv(y) for y in x))
            return UNKNOWN

        return vs(conv(val))

    def _eval_attr(self, e: ast.Attribute, env: Env) -> ValSet:
        f = env.func
        # self.<stage>.<attr>: the attribute of a stage object held by this object
        if isinstance(e.value, ast.Attribute) and isinstance(e.value.value, ast.Name) and env.inst is not None and f.params and e.value.value.id == f.params[0]:
            sub = env.inst.attr_inst.get(env.inst.cls.mangle(e.value.attr))
            if sub is not None:
                return sub.get(e.attr)
        if isinstance(e.value, ast.Name):
            base = e.value.id
            root: Optional[Func] = f
            while root is not None and root.parent is not None:
                root = root.parent
            selfname = None
            if root is not None and root.cls is not None and root.params and not root.is_static:
                selfname = root.params[0]
            if selfname and base == selfname and env.inst is not None and not (root and root.is_classmethod):
                v = env.inst.get(e.attr)
                if v != U:
                    return v
                for c in self.prog.mro(env.inst.cls):
                    if e.attr in c.class_attrs:
                        return self.eval(c.class_attrs[e.attr], Env(func=f))
                return U
            # Class.attr / cls.attr
            r = self.prog.resolve_dotted(f.module, base)
            cls = None
            if r in self.prog.classes:
                cls = self.prog.classes[r]
            elif selfname and base == selfname and f.cls is not None:
                cls = f.cls
            if cls is not None:
                for c in self.prog.mro(cls):
                    if e.attr in c.class_attrs:
                        return self.eval(c.class_attrs[e.attr], Env(func=f))
        return U

    @staticmethod
    def elements(v: ValSet) -> ValSet:
        out = set()
        for x in v:
            if x.kind == "list":
                out.update(x.value)
            else:
                out.add(x)
        return frozenset(out) or U


def _in_branch(n: ast.AST, root: ast.AST) -> bool:
    p = getattr(n, "_parent", None)
    while p is not None and p is not root:
        if isinstance(p, (ast.If, ast.Try, ast.For, ast.While)):
            return True
        p = getattr(p, "_parent", None)
    return False


def _module_func(m) -> Func:
    return Func(qualname=m.name + ".<module>", node=ast.parse("def _m(): pass").body[0], module=m)


def texts(v: ValSet) -> set:
    """Strings a value set may denote under default configuration."""
    return {x.text for x in v if x.kind in ("const", "sym")}


def is_exactly(v: ValSet, val: Val) -> bool:
    return v == vs(val)


def single(v: ValSet) -> Optional[Val]:
    if len(v) == 1:
        x = next(iter(v))
        if x.kind != "unknown":
            return x
    return None
